/* C12: element-wise kernels of the CVODE serial vector (nvector_serial.cpp), cut from /repo on every run.
 * Bounded: vectors of length N <= VERIF_N (unwinding assertions on); every element k < N is checked through a ghost index.
 * NaN inputs are excluded (x == x), as IEEE comparison of NaN with itself is false by definition. */
#include <assert.h>
#include <stddef.h>
#ifndef VERIF_N
#define VERIF_N 3
#endif
double nondet_double(void); long nondet_long(void);
static realtype gx[VERIF_N], gy[VERIF_N], gz[VERIF_N], gx0[VERIF_N], gy0[VERIF_N];
static struct _N_VectorSerialContent cx, cy, cz;
static struct _generic_N_Vector vx, vy, vz;
static long N, k;
static void setup(void)
{
  N = nondet_long(); __CPROVER_assume(0 <= N && N <= VERIF_N);
  k = nondet_long(); __CPROVER_assume(0 <= k && k < VERIF_N);
  for (int i = 0; i < VERIF_N; i++) { gx[i] = nondet_double(); gy[i] = nondet_double(); gz[i] = nondet_double();
    __CPROVER_assume(gx[i] == gx[i] && gy[i] == gy[i]); gx0[i] = gx[i]; gy0[i] = gy[i]; }
  cx.length = N; cx.data = gx; cy.length = N; cy.data = gy; cz.length = N; cz.data = gz;
  vx.content = &cx; vy.content = &cy; vz.content = &cz;
}
#ifdef VERIF_TWIN
#define EXPECT(e) assert(!(e))
#else
#define EXPECT(e) assert(e)
#endif
void h_N_VInv_Serial(void)      { setup(); __CPROVER_assume(k < N && gx[k] != 0.0); N_VInv_Serial(&vx, &vz);        EXPECT(gz[k] == 1.0 / gx0[k]); assert(gx[k] == gx0[k]); }
void h_N_VProd_Serial(void)     { setup(); __CPROVER_assume(k < N); N_VProd_Serial(&vx, &vy, &vz);  { realtype w = gx0[k] * gy0[k]; __CPROVER_assume(w == w); EXPECT(gz[k] == w); } }
void h_N_VDiv_Serial(void)      { setup(); __CPROVER_assume(k < N && gy[k] != 0.0); N_VDiv_Serial(&vx, &vy, &vz);   { realtype w = gx0[k] / gy0[k]; __CPROVER_assume(w == w); EXPECT(gz[k] == w); } }
void h_N_VAbs_Serial(void)      { setup(); __CPROVER_assume(k < N); N_VAbs_Serial(&vx, &vz);         EXPECT(gz[k] == (gx0[k] < 0 ? -gx0[k] : gx0[k])); }
void h_N_VAddConst_Serial(void) { setup(); __CPROVER_assume(k < N); realtype b = nondet_double(); __CPROVER_assume(b == b); N_VAddConst_Serial(&vx, b, &vz); { realtype w = gx0[k] + b; __CPROVER_assume(w == w); EXPECT(gz[k] == w); } }
void h_N_VConst_Serial(void)    { setup(); __CPROVER_assume(k < N); realtype c = nondet_double(); __CPROVER_assume(c == c); N_VConst_Serial(c, &vz); EXPECT(gz[k] == c); }
void h_N_VMaxNorm_Serial(void)  { setup(); realtype m = N_VMaxNorm_Serial(&vx); if (k < N) EXPECT(m >= (gx0[k] < 0 ? -gx0[k] : gx0[k])); assert(m >= 0.0); }
void h_N_VMin_Serial(void)      { setup(); __CPROVER_assume(N >= 1); realtype m = N_VMin_Serial(&vx); if (k < N) EXPECT(m <= gx0[k]); }
