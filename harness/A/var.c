/* Proof harnesses for src/Var.c units: each calls the function once on
 * unconstrained arguments; the contract's requires clauses do the constraining. */
#include "var.h"
size_t g_n;
size_t nondet_size_t(void);

void h_VarInit(void)       { VAR *p;                 VarInit(p); }
void h_VarFreeString(void) { char *s;                VarFreeString(s); }
void h_VarClear(void)      { VAR *p;                 VarClear(p); }
void h_VarAllocString(void){ const char *s; g_n = nondet_size_t(); VarAllocString(s); }
void h_VarCopy(void)       { VAR *d; const VAR *s; g_n = nondet_size_t(); VarCopy(d, s); }
