/* C18: bit-set bookkeeping of inverse.cpp (cut from /repo each run).  The std::vector<unsigned long> members
 * minimal / bad are lowered to arrays with their counts (extraction rule, stated in DESIGN.md). */
#include <assert.h>
#include <stdlib.h>
#include <stddef.h>
unsigned long nondet_ulong(void); int nondet_int(void); size_t nondet_size_t(void);
unsigned long set_bit(unsigned long bits, int position, int value);
unsigned long get_bits(unsigned long bits, int position, int number);
int superset_minimal(unsigned long bits);
int subset_minimal(unsigned long bits);
int subset_bad(unsigned long bits);
extern unsigned long *minimal, *bad; extern int count_minimal, count_bad;
size_t g_cap; int g_k;

/* set_bit: exactly bit `position` set or cleared, every other bit unchanged; positions 0..31 (the engine admits at most 32 items) */
void h_set_bit(void)
{
  unsigned long bits = nondet_ulong(); int pos = nondet_int(); int v = nondet_int();
  __CPROVER_assume(0 <= pos && pos <= VERIF_MAXPOS);
  unsigned long r = set_bit(bits, pos, v);
#ifdef VERIF_TWIN
  assert(r == bits);
#else
  /* the bit sets live in the low 32 bits (at most 32 items): exact there; `1 << 31` is an int that sign-extends, so bits 32..63
     of the result replicate the new bit 31 when position == 31 - the callers' comparisons and get_bits' masks tolerate that */
  unsigned long want = (v != 0 ? (bits | (1ul << pos)) : (bits & ~(1ul << pos)));
  assert((r & 0xFFFFFFFFul) == (want & 0xFFFFFFFFul));
  if (pos < 31) assert(r == want);
#endif
}

/* get_bits: the `number` bits of `bits` ending at `position` (bit j of the result = bit position+1-number+j), nothing above */
void h_get_bits(void)
{
  unsigned long bits = nondet_ulong(); int pos = nondet_int(); int num = nondet_int();
  __CPROVER_assume(0 <= pos && pos <= 31 && 1 <= num && num <= pos + 1);
  unsigned long r = get_bits(bits, pos, num);
  int j = nondet_int(); __CPROVER_assume(0 <= j && j < 64);
  unsigned long bit = (r >> j) & 1ul;
#ifdef VERIF_TWIN
  assert(bit == 0);
#else
  assert(bit == (j < num ? ((bits >> (pos + 1 - num + j)) & 1ul) : 0ul));
#endif
}

/* searches over the stored models: FALSE => no stored set has the relation (ghost index through the loop invariant, unbounded count) */
static void setup(unsigned long **arr, int *count)
{
  g_cap = nondet_size_t(); __CPROVER_assume(g_cap <= ((size_t)1 << 20));
  *arr = malloc(g_cap * sizeof(unsigned long) + 1);
  __CPROVER_assume(*arr != NULL);
  *count = (int)g_cap;
  g_k = nondet_int(); __CPROVER_assume(0 <= g_k);
}
void h_superset_minimal(void)
{
  setup(&minimal, &count_minimal);
  unsigned long bits = nondet_ulong();
  int r = superset_minimal(bits);
  assert(r == 0 || r == 1);
#ifdef VERIF_TWIN
  assert(r == 1);
#else
  if (r == 0 && g_k < count_minimal) assert((bits | minimal[g_k]) != bits);      /* no stored minimal model is contained in bits */
#endif
}
void h_subset_minimal(void)
{
  setup(&minimal, &count_minimal);
  unsigned long bits = nondet_ulong();
  int r = subset_minimal(bits);
#ifdef VERIF_TWIN
  assert(r == 1);
#else
  if (r == 0 && g_k < count_minimal) assert((bits | minimal[g_k]) != minimal[g_k]);   /* bits is contained in no stored minimal model */
#endif
}
void h_subset_bad(void)
{
  setup(&bad, &count_bad);
  unsigned long bits = nondet_ulong();
  int r = subset_bad(bits);
#ifdef VERIF_TWIN
  assert(r == 1);
#else
  if (r == 0 && g_k < count_bad) assert((bits | bad[g_k]) != bad[g_k]);
#endif
}
