/* Harness contracts for the char* helpers of utilities.cpp (cut mechanically from /repo each run).
 * Bounded units: every NUL-terminated input of at most VERIF_N characters, any byte values.
 * Unbounded units (read-only walks with loop contracts): buffer length symbolic up to 2^30. */
#include <assert.h>
#include <ctype.h>
#include <string.h>
#include <stdlib.h>
#ifndef VERIF_N
#define VERIF_N 8
#endif
size_t nondet_size_t(void);
char nondet_char(void);
int nondet_int(void);

/* prototypes of the extracted functions */
int copy_token(char *token_ptr, const char **cptr, int *length);
int isamong(char c, const char *s_l);
int islegit(const char c);
int strcmp_nocase(const char *str1, const char *str2);
int strcmp_nocase_arg1(const char *str1, const char *str2);
void str_tolower(char *str);
void str_toupper(char *str);
void squeeze_white(char *s_l);

static int is_ws(int c) { return c == ' ' || c == '\t' || c == '\n' || c == '\v' || c == '\f' || c == '\r'; }

/* copy_token(char*, ...): property C08 "no invalid memory access for any byte sequence".
 * Contract (callee bounds itself): requires capacity(token_ptr) >= MAX_LENGTH  -- the only thing a call site must
 * establish; ensures: at most MAX_LENGTH bytes written, result NUL-terminated, holds the first min(token length,
 * MAX_LENGTH-1) characters of the token, *cptr advanced past the WHOLE token to its delimiter, class of the first
 * character returned.  The function is parametric in MAX_LENGTH; the unit instantiates MAX_LENGTH = VERIF_MAXLEN (small)
 * so that inputs of up to VERIF_N characters exercise truncation. */
void h_copy_token(void)
{
  char src[VERIF_N + 1];
  for (int k = 0; k < VERIF_N; k++) src[k] = nondet_char();
  src[VERIF_N] = 0;
  char *tok = malloc(MAX_LENGTH);                /* capacity precondition: exactly MAX_LENGTH bytes */
  __CPROVER_assume(tok != NULL);
  int ws = 0; while (is_ws(src[ws])) ws++;
  int tl = 0; while (!is_ws(src[ws + tl]) && src[ws + tl] != ';' && src[ws + tl] != 0) tl++;
  const char *p = src; int len = -1;
  int rv = copy_token(tok, &p, &len);
  int want = tl < MAX_LENGTH - 1 ? tl : MAX_LENGTH - 1;
  assert(len == want);
  assert(tok[want] == 0);
  int k = nondet_int(); __CPROVER_assume(0 <= k && k < want);
  assert(tok[k] == src[ws + k]);
  assert(p == src + ws + tl);
  char c = src[ws];
#ifdef VERIF_TWIN
  assert(rv == UPPER);
#else
  assert(rv == ((c >= 'A' && c <= 'Z') || c == '[' ? UPPER : (c >= 'a' && c <= 'z') ? LOWER :
                ((c >= '0' && c <= '9') || c == '.' || c == '-') ? DIGIT : c == 0 ? EMPTY : UNKNOWN));
#endif
}

/* str_tolower / str_toupper: in place, length preserved, each byte mapped by the C-locale tolower/toupper */
void h_str_tolower(void)
{
  char s[VERIF_N + 1], o[VERIF_N + 1];
  for (int k = 0; k < VERIF_N; k++) { s[k] = nondet_char(); o[k] = s[k]; }
  s[VERIF_N] = 0; o[VERIF_N] = 0;
  str_tolower(s);
  int k = nondet_int(); __CPROVER_assume(0 <= k && k <= VERIF_N);
  int n = 0; while (o[n]) n++;
  if (k < n) {
#ifdef VERIF_TWIN
    assert(s[k] == o[k]);
#else
    assert(s[k] == ((o[k] >= 'A' && o[k] <= 'Z') ? o[k] + 32 : o[k]));
#endif
  } else assert(s[k] == o[k]);
}
void h_str_toupper(void)
{
  char s[VERIF_N + 1], o[VERIF_N + 1];
  for (int k = 0; k < VERIF_N; k++) { s[k] = nondet_char(); o[k] = s[k]; }
  s[VERIF_N] = 0; o[VERIF_N] = 0;
  str_toupper(s);
  int k = nondet_int(); __CPROVER_assume(0 <= k && k <= VERIF_N);
  int n = 0; while (o[n]) n++;
  if (k < n) {
#ifdef VERIF_TWIN
    assert(s[k] == o[k]);
#else
    assert(s[k] == ((o[k] >= 'a' && o[k] <= 'z') ? o[k] - 32 : o[k]));
#endif
  } else assert(s[k] == o[k]);
}

/* squeeze_white: result is the input with every white-space byte removed, NUL-terminated, never longer */
void h_squeeze_white(void)
{
  char s[VERIF_N + 1], o[VERIF_N + 1];
  for (int k = 0; k < VERIF_N; k++) { s[k] = nondet_char(); o[k] = s[k]; }
  s[VERIF_N] = 0; o[VERIF_N] = 0;
  squeeze_white(s);
  int j = 0;
  for (int i = 0; o[i]; i++) if (!is_ws(o[i])) { assert(s[j] == o[i]); j++; }
#ifdef VERIF_TWIN
  assert(s[j] != 0);
#else
  assert(s[j] == 0);
#endif
}

/* isamong: unbounded (index loop with loop contract).  g_n = size of the buffer holding s_l (NUL at g_n-1). */
size_t g_n, g_k;
void h_isamong(void)
{
  g_n = nondet_size_t(); g_k = nondet_size_t();
  __CPROVER_assume(1 <= g_n && g_n <= ((size_t)1 << 30));
  char *s = malloc(g_n);
  __CPROVER_assume(s != NULL);
  s[g_n - 1] = 0;
  char c = nondet_char();
  int r = isamong(c, s);
  assert(r == TRUE || r == FALSE);
  /* FALSE => c occurs nowhere before the first NUL: checked at the ghost index through the loop invariant */
#ifdef VERIF_TWIN
  assert(r == FALSE);
#endif
}

/* strcmp_nocase / strcmp_nocase_arg1: read-only pointer walks, loop contracts, symbolic buffer sizes */
size_t g_n1, g_n2;
void h_strcmp_nocase(void)
{
  g_n1 = nondet_size_t(); g_n2 = nondet_size_t();
  __CPROVER_assume(1 <= g_n1 && g_n1 <= ((size_t)1 << 30) && 1 <= g_n2 && g_n2 <= ((size_t)1 << 30));
  char *a = malloc(g_n1), *b = malloc(g_n2);
  __CPROVER_assume(a != NULL && b != NULL);
  a[g_n1 - 1] = 0; b[g_n2 - 1] = 0;
  int r = VERIF_CMP(a, b);
#ifdef VERIF_TWIN
  assert(r == 0);
#else
  assert(r == 0 || r == -1 || r == 1);
#endif
}
