/* padfstring(dest, src, len) of IPhreeqc_interface_F.cpp (cut from /repo each run).
 * Contract (Fortran CHARACTER semantics, property C05 "Fortran-binding accessors agree cell by cell"):
 *   requires: src NUL-terminated, dest has *len bytes, *len >= 0
 *   ensures : for k < len0: dest[k] == (k < strlen(src) ? src[k] : ' ');  nothing written at or beyond dest+len0;
 *             *len == strlen(src)
 * Bounded: strings and buffers of at most VERIF_N bytes (write-through-walk loops: unwinding). */
#include <assert.h>
#include <string.h>
#include <stdlib.h>
#ifndef VERIF_N
#define VERIF_N 8
#endif
char nondet_char(void); int nondet_int(void);
void padfstring(char *dest, const char *src, int *len);
void h_padfstring(void)
{
  char src[VERIF_N + 1];
  for (int k = 0; k < VERIF_N; k++) src[k] = nondet_char();
  src[VERIF_N] = 0;
  int sl = 0; while (src[sl]) sl++;
  int len0 = nondet_int(); __CPROVER_assume(0 <= len0 && len0 <= VERIF_N + 2);
  char *dest = malloc((size_t)len0 + 1);              /* one guard byte behind the Fortran buffer */
  __CPROVER_assume(dest != NULL);
  char guard = nondet_char(); dest[len0] = guard;
  int len = len0;
  padfstring(dest, src, &len);
  int k = nondet_int(); __CPROVER_assume(0 <= k && k < len0);
#ifdef VERIF_TWIN
  assert(dest[k] == ' ');
#else
  assert(dest[k] == (k < sl ? src[k] : ' '));
#endif
  assert(dest[len0] == guard);
  assert(len == sl);
}
