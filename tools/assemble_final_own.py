#!/usr/bin/env python3
"""tools/assemble_final_own.py : seeded/FINAL_OWN.tsv = for every seed the LAST recorded result of the check of its own property (files in
chronological order, later rows override earlier ones).  Not a held-out number: the rows of rounds 2-5 were recorded after units had been
written for the misses; a row marked APPLY-FAILED means the patch no longer applies because a later repair rewrote the lines it changes."""
import os
S = "/verif/seeded"
order = ["OWN_r2.tsv", "HELDOUT_r3.tsv", "OWN_r3.tsv", "OWN_r3b.tsv", "OWN_r3c.tsv", "OWN_r3d.tsv", "OWN_r3e.tsv", "HELDOUT_r4.tsv", "OWN_r4_post.tsv",
         "HELDOUT_r5.tsv", "OWN_r5_post.tsv", "HELDOUT_r6.tsv", "OWN_r6_post.tsv"]
last = {}
for fn in order:
    p = os.path.join(S, fn)
    if not os.path.exists(p):
        continue
    for l in open(p):
        if l.startswith("#") or l.startswith("DONE") or not l.strip():
            continue
        f = l.rstrip("\n").split("\t")
        if len(f) >= 3 and f[2] != "APPLY-FAILED":
            last[f[0]] = f[:5] + [fn]
        elif len(f) >= 3 and f[0] not in last:
            last[f[0]] = f[:3] + ["", "", fn]
with open(os.path.join(S, "FINAL_OWN.tsv"), "w") as o:
    o.write("# last recorded own-property result per seed (seed, property, exit code, first failing obligations, undecided count, source file); see tools/assemble_final_own.py\n")
    for k in sorted(last):
        o.write("\t".join(last[k]) + "\n")
n = len(last); c = sum(1 for v in last.values() if v[2] == "1")
print(n, "seeds,", c, "reported")
