#!/usr/bin/env python3
"""Generates /verif/MANIFEST.json from the table below (kept in one place so the
claimed list, the not_applicable list and the level notes stay consistent)."""
import json, os, sys
V = os.path.dirname(os.path.dirname(os.path.abspath(__file__)))
sys.path.insert(0, V)
from props import registry

ALL = ["C%02d" % i for i in range(1, 21)]

def main():
    checks, na = [], []
    for pid in ALL:
        e = registry.PROPS.get(pid)
        if e and e.get("claimed"):
            checks.append({
                "property_id": pid,
                "quick_cmd": "./check %s --tier quick" % pid,
                "thorough_cmd": "./check %s --tier thorough" % pid,
                "evidence_file": "/verif/evidence/%s.json" % pid,
                "replay_cmd_template": "./check %s --replay {path}" % pid,
                "engine": e["engine"],
                "level_claimed": {"category": e["level"], "text": e["text"], "design_ref": e.get("design_ref", "DESIGN.md §4 " + pid)},
                "level_note": e["note"],
                "technique": e["technique"],
            })
        else:
            na.append({"property_id": pid, "reason": (e or {}).get("na_reason", "no contract-sized unit built for this property yet")})
    m = {
        "version": 1,
        "setup_cmd": "./setup.sh",
        "hooks": {
            "guard": "IPHREEQC_VERIF",
            "enable": "no hook in /repo is needed: contracts attach through forward declarations (Engine A, goto-cc -DIPHREEQC_VERIF) or by qualified name over clang's AST (Engine B)",
            "baseline_off_cmd": "cmake --build /repo/_build -j16 && ctest --test-dir /repo/_build -j8 --timeout 900",
            "source_commits": registry.HOOK_COMMITS,
            "add_only": True,
        },
        "engines": [
            {"name": "cbmc-dfcc", "path": "vf/cbmc.py", "serves_properties": [p for p in ALL if registry.PROPS.get(p, {}).get("claimed") and "A" in registry.PROPS[p]["engine"]],
             "kind_free_text": "CBMC 6.11 code contracts (goto-instrument --dfcc) on real C (src/Var.c) and on C-style functions cut mechanically from the .cpp files on every run"},
            {"name": "astvc", "path": "vf/astvc/", "serves_properties": [p for p in ALL if registry.PROPS.get(p, {}).get("claimed") and "B" in registry.PROPS[p]["engine"]],
             "kind_free_text": "own verification-condition generator over clang 14's typed JSON AST of the real C++ translation units; doubles as reals; discharged by exact polynomial normalisation (sympy) and z3 5.1 (cvc5 cross-check in thorough tier)"},
        ],
        "checks": checks,
        "notes": registry.NOTES,
        "not_applicable": na,
    }
    with open(os.path.join(V, "MANIFEST.json"), "w") as f:
        json.dump(m, f, indent=1)
    print("claimed:", [c["property_id"] for c in checks])
    print("n/a:", [n["property_id"] for n in na])

if __name__ == "__main__":
    main()
