#!/bin/bash
# Native confirmation of every kept seed in a scratch worktree (never in /repo):
#   baseline: demo passes;  with patch: builds, the pinned ctest suite passes, demo fails.
# usage: tools/verify_seeds.sh [seed-dir-names...]   -> /verif/seeded/VERIFY.tsv
WT=/var/tmp/seedwt
OUT=/verif/seeded/VERIFY.tsv
cd /verif/seeded
SEEDS="$@"; [ -z "$SEEDS" ] && SEEDS=$(ls -d C*_* r2_C*_* 2>/dev/null)
if [ ! -d $WT ]; then
  git -C /repo worktree add --detach $WT HEAD >/dev/null 2>&1 || exit 2
  (cd $WT && cmake -G Ninja -S . -B _b -DCMAKE_BUILD_TYPE=RelWithDebInfo -DBUILD_TESTING=ON -DFETCHCONTENT_SOURCE_DIR_GOOGLETEST=/usr/src/googletest -DCMAKE_CXX_FLAGS=-Wno-error -DCMAKE_C_FLAGS=-Wno-error >/dev/null 2>&1 && cmake --build _b -j14 >/dev/null 2>&1) || { echo "baseline build failed"; exit 2; }
fi
export SRC=$WT LIB=$WT/_b/libIPhreeqcrwd.a
rundemo() { # dir -> exit code
  local d=$1; local t=/var/tmp/seeddemo_$d; rm -rf $t; mkdir -p $t; cp /verif/seeded/$d/* $t/; mkdir -p $WT/out; ln -sfn $t $WT/out/${d##*_}; mkdir -p $t/out; ln -sfn $t $t/out/${d##*_}; (cd $t && timeout 600 bash -c "$(grep -v '^#' RUN.txt | head -1)" >$t/demo.out 2>&1); local rc=$?; echo $rc; }
git -C $WT checkout -q -- . ; git -C $WT reset -q --hard $(git -C /repo rev-parse HEAD); (cd $WT && cmake --build _b -j14 >/dev/null 2>&1)
for d in $SEEDS; do
  d=${d%/}
  base=$(rundemo $d)
  if ! git -C $WT apply --check /verif/seeded/$d/patch.diff 2>/dev/null; then echo -e "$d\tbase_demo=$base\tAPPLY-FAILED" >> $OUT; continue; fi
  git -C $WT apply /verif/seeded/$d/patch.diff
  if (cd $WT && cmake --build _b -j14 >/var/tmp/seedbuild.log 2>&1); then b=ok; else b=FAIL; fi
  patched=$(rundemo $d)
  tail -3 /var/tmp/seeddemo_$d/demo.out | tr '\n' '|' > /var/tmp/seeddemo_$d.tail
  if [ $b = ok ]; then
    (cd $WT && ctest --test-dir _b -j1 --timeout 900 >/var/tmp/seedctest.log 2>&1); crc=$?
    summ=$(grep "tests passed" /var/tmp/seedctest.log | head -1)
  else crc=-; summ=-; fi
  git -C $WT checkout -- . ; git -C $WT clean -fdq -e _b
  (cd $WT && cmake --build _b -j14 >/dev/null 2>&1)      # back to the unchanged library before the next seed's baseline demo
  echo -e "$d\tbase_demo=$base\tbuild=$b\tpatched_demo=$patched\tctest_rc=$crc\t$summ\t$(cat /var/tmp/seeddemo_$d.tail | cut -c1-200)" >> $OUT
  rm -rf /var/tmp/seeddemo_$d /var/tmp/seeddemo_$d.tail
done
(cd $WT && cmake --build _b -j14 >/dev/null 2>&1)
echo DONE >> $OUT
