#!/bin/bash
# tools/mut.sh <check-id> <only-substring> <patch-file | -e 'python expr over s'> : run one check against a mutated scratch copy (/var/tmp/mutwt), never /repo; MUTWT / MUTOUT select another scratch worktree / output directory
WT=${MUTWT:-/var/tmp/mutwt}
MO=${MUTOUT:-/var/tmp/mut_out}
[ -d $WT ] || git -C /repo worktree add --detach $WT HEAD >/dev/null 2>&1
git -C $WT checkout -q -- . ; git -C $WT reset -q --hard $(git -C /repo rev-parse HEAD)
id=$1; only=$2; shift 2
if [ "$1" = "-e" ]; then
  # -e <relative file> <python statement(s) transforming variable s>
  python3 - "$WT/$2" "$3" <<'PY'
import sys
p, code = sys.argv[1], sys.argv[2]
s = open(p, encoding="latin1").read(); s0 = s
ns = {"s": s}; exec(code, ns); s = ns["s"]
if s == s0: print("MUTATION DID NOT CHANGE THE FILE"); sys.exit(3)
open(p, "w", encoding="latin1").write(s)
PY
  [ $? = 3 ] && exit 3
else
  git -C $WT apply "$1" || exit 3
fi
mkdir -p $MO/evidence $MO/replays
cd /verif; VERIF_REPO=$WT VERIF_OUT=$MO ./check $id --only "$only" 2>&1 | grep -E "^VIOL|^SUMM|^UNDEC" | sed 's/replay=.*replays\/[^/]*\///' | sort -u | cut -c1-220
git -C $WT checkout -q -- .
