#!/bin/sh
# run every claimed check (quick by default) on /repo's current tree; print one line per property
cd /verif
TIER=${1:-quick}
for id in $(python3 -c "import json;print(' '.join(c['property_id'] for c in json.load(open('MANIFEST.json'))['checks']))"); do
  /usr/bin/time -f "%es" ./check $id --tier $TIER > /tmp/runall_$id.log 2>&1; rc=$?
  echo "$id rc=$rc $(grep SUMMARY /tmp/runall_$id.log | cut -c1-160) $(tail -1 /tmp/runall_$id.log)"
done
