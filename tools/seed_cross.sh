#!/bin/bash
# tools/seed_cross.sh <out.tsv> <seed> <property> [<seed> <property> ...] : apply the seed to a scratch worktree (never /repo) and run the check of
# the GIVEN property against it (cross-catch test); WT selects the worktree.
WT=${WT:-/var/tmp/r4wt_a}
OUT=$1; shift
[ -d $WT ] || git -C /repo worktree add --detach $WT HEAD >/dev/null 2>&1
git -C $WT checkout -q -- . ; git -C $WT reset -q --hard $(git -C /repo rev-parse HEAD)
export VERIF_REPO=$WT VERIF_OUT=${WT}_out
mkdir -p $VERIF_OUT/evidence $VERIF_OUT/replays
cd /verif
while [ $# -ge 2 ]; do
  d=$1; id=$2; shift 2
  git -C $WT apply /verif/seeded/$d/patch.diff 2>/dev/null || { echo -e "$d\t$id\tAPPLY-FAILED" >> $OUT; continue; }
  timeout 3000 ./check $id > $VERIF_OUT/$d.$id.log 2>&1; rc=$?
  v=$(grep "^VIOLATION" $VERIF_OUT/$d.$id.log | sed 's/.*replays\/[^/]*\///; s/\.[0-9a-f]*\.json.*//' | sort -u | head -3 | tr '\n' ';')
  echo -e "$d\t$id\t$rc\t$v" >> $OUT
  git -C $WT checkout -q -- .
done
echo DONE >> $OUT
