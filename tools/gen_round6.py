#!/usr/bin/env python3
"""tools/gen_round4.py : prompts for a further round of held-out seeded changes (fresh sub-agents).  Each prompt is the round-3 prompt of the
property with the work directory renamed and the list of places already used extended by the round-3 seeds; a detached worktree of /repo HEAD
is created under /tmp/seed6_<id> with PROPERTY.json (the property's line of properties.jsonl) - nothing from /verif is visible to the agent."""
import json, os, re, subprocess, glob
S = "/verif/seeded"
props = {json.loads(l)["id"]: json.loads(l) for l in open("/verif/properties.jsonl")}
claimed = [c["property_id"] for c in json.load(open("/verif/MANIFEST.json"))["checks"]]
for pid in claimed:
    t = open("%s/round5/PROMPT_%s.txt" % (S, pid)).read().replace("seed5_", "seed6_")
    extra = []
    for d in sorted(glob.glob("%s/r5_%s_*" % (S, pid))):
        try:
            m = json.load(open(d + "/meta.json"))
            extra.append("  - " + m.get("summary", "")[:160].replace("\n", " "))
        except Exception:
            pass
    marker = "\n\nDeliverables:"
    i = t.index(marker)
    t = t[:i].rstrip("\n") + "\n" + "\n".join(extra) + t[i:]
    open("%s/round6/PROMPT_%s.txt" % (S, pid), "w").write(t)
    wt = "/tmp/seed6_" + pid
    if not os.path.isdir(wt):
        subprocess.run(["git", "-C", "/repo", "worktree", "add", "--detach", wt, "HEAD"], capture_output=True)
    json.dump(props[pid], open(wt + "/PROPERTY.json", "w"), indent=1)
    open(wt + "/PROMPT.txt", "w").write(t)
print(len(claimed), "prompts")
