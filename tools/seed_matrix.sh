#!/bin/bash
# Seed x check matrix, run against the scratch worktree /var/tmp/seedwt (never /repo): for every kept seed apply it there, run every
# claimed check (quick tier) with VERIF_REPO pointing at the worktree and outputs redirected, record which checks report a violation.
# usage: tools/seed_matrix.sh [seed ...]   -> /verif/seeded/MATRIX.tsv   (seed <TAB> check <TAB> rc <TAB> first violated obligation(s))
WT=/var/tmp/seedwt
OUT=${MATRIX_OUT:-/verif/seeded/MATRIX.tsv}
[ -d $WT ] || { echo "no scratch worktree $WT (run tools/verify_seeds.sh first)"; exit 2; }
cd /verif
SEEDS="$@"; [ -z "$SEEDS" ] && SEEDS=$(cd seeded; ls -d C*_*)
IDS=$(python3 -c "import json;print(' '.join(c['property_id'] for c in json.load(open('MANIFEST.json'))['checks']))")
export VERIF_REPO=$WT VERIF_OUT=/var/tmp/matrix_out
mkdir -p $VERIF_OUT/evidence $VERIF_OUT/replays
git -C $WT checkout -q -- . ; git -C $WT reset -q --hard $(git -C /repo rev-parse HEAD)
for d in $SEEDS; do
  d=${d%/}
  git -C $WT apply /verif/seeded/$d/patch.diff || { echo -e "$d\t-\tAPPLY-FAILED" >> $OUT; continue; }
  for id in $IDS; do
    timeout 1800 ./check $id > /var/tmp/matrix_out/$d.$id.log 2>&1; rc=$?
    v=$(grep "^VIOLATION" /var/tmp/matrix_out/$d.$id.log | sed 's/.*replays\/[^/]*\///; s/\.[0-9a-f]*\.json.*//' | sort -u | head -3 | tr '\n' ';')
    u=$(grep -c "^UNDECIDED" /var/tmp/matrix_out/$d.$id.log)
    echo -e "$d\t$id\t$rc\t$v\tundecided=$u" >> $OUT
  done
  git -C $WT checkout -q -- .
done
echo DONE >> $OUT
