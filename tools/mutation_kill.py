#!/usr/bin/env python3
"""tools/mutation_kill.py  [--units substr,...] [--per N] [--jobs K]
Kill test of the contracts: for every unit in evidence/*.json (function of /repo under contract) generate small mutants INSIDE
the function's source range (operator flips, relational flips, literal changes, deleted assignment statements), apply each to a
scratch worktree (never /repo), run the unit's check against it and record whether the mutant is killed (VIOLATION), undecided
(exit 2) or survives.  Survivors are the places where a contract is weaker than the code it covers (or the mutant is equivalent /
outside the region the unit anchors to).  Output: /verif/seeded/KILL.tsv"""
import json, glob, os, re, subprocess, sys, random, argparse, hashlib
from concurrent.futures import ThreadPoolExecutor
V = "/verif"
sys.path.insert(0, V)
ap = argparse.ArgumentParser(); ap.add_argument("--units", default=""); ap.add_argument("--per", type=int, default=12); ap.add_argument("--jobs", type=int, default=6)
ap.add_argument("--out", default=V + "/seeded/KILL.tsv"); ap.add_argument("--exclude", default="")
ap.add_argument("--whole", default="", help="KILL.tsv of a per-unit run: re-run its survivors against the WHOLE check of the property (all units), one run per distinct mutant")
ap.add_argument("--wtprefix", default="/var/tmp/mutwt_")
a = ap.parse_args()
os.environ["VERIF_REPO"] = "/repo"
from vf.astvc import ast as A

units = []
for p in sorted(glob.glob(V + "/evidence/C??.json")):
    d = json.load(open(p))
    for u in d["coverage"].get("units", []):
        if u.get("file") and u.get("function") and "::" in u["function"] and (not a.units or any(s in u["unit"] for s in a.units.split(","))) and not (a.exclude and any(s in u["unit"] for s in a.exclude.split(","))):
            units.append((d["property_id"], u["unit"], u["file"], u["function"]))

def fn_range(rel, q):
    try:
        fn = A.find_function(rel, q)
    except Exception:
        return None
    b, e = A.src_range_text(fn)
    return (b, e)

OPS = [(r"\+=", "-="), (r"-=", "+="), (r"(?<![<>=!])<=(?!=)", "<"), (r"(?<![<>=!-])>=(?!=)", ">"), (r"==", "!="), (r"!=", "=="), (r"&&", "||"), (r"\|\|", "&&"),
       (r"(?<=[\w\)\]]) \* (?=[\w\(])", " / "), (r"(?<=[\w\)\]]) / (?=[\w\(])", " * "), (r"(?<=[\w\)\]]) \+ (?=[\w\(])", " - "), (r"(?<=[\w\)\]]) - (?=[\w\(])", " + "),
       (r"(?<![<-])<(?![<=])", "<="), (r"(?<![->])>(?![>=])", ">=")]

def mutants(text, n, seed):
    rnd = random.Random(seed)
    cands = []
    # skip comments and strings roughly: blank them for matching
    masked = re.sub(r"/\*.*?\*/", lambda m: " " * len(m.group(0)), text, flags=re.S)
    masked = re.sub(r"//[^\n]*", lambda m: " " * len(m.group(0)), masked)
    masked = re.sub(r'"(?:\\.|[^"\\])*"', lambda m: '"' + " " * (len(m.group(0)) - 2) + '"', masked)
    for pat, rep in OPS:
        for m in re.finditer(pat, masked):
            cands.append((m.start(), m.end(), rep, "op %s -> %s" % (m.group(0), rep)))
    for m in re.finditer(r"(?<![\w.])(\d+\.\d*|\d+)(?:e[+-]?\d+)?(?![\w.])", masked):
        tok = m.group(0)
        if tok in ("0", "1", "0.0", "1.0"):
            rep = "2" if tok in ("1", "1.0") else "1"
        else:
            rep = tok + "1" if "." in tok and "e" not in tok else ("(" + tok + "*2)")
        cands.append((m.start(), m.end(), rep, "literal %s -> %s" % (tok, rep)))
    for m in re.finditer(r"\n[ \t]*[\w\[\]\.\->\*\(\)]+ *(?:\+|-|\*|/)?= *[^;{}\n]+;", masked):
        cands.append((m.start() + 1, m.end(), "/* deleted */;", "delete stmt `%s`" % text[m.start() + 1:m.end()].strip()[:50]))
    rnd.shuffle(cands)
    out = []; seen = set()
    for c in cands:
        if c[0] in seen: continue
        seen.add(c[0]); out.append(c)
        if len(out) >= n: break
    return out

WTS = []
def get_wt(k):
    wt = a.wtprefix + "%d" % k
    if not os.path.isdir(wt):
        subprocess.run(["git", "-C", "/repo", "worktree", "add", "--detach", wt, "HEAD"], capture_output=True)
    subprocess.run(["git", "-C", wt, "checkout", "-q", "--", "."]); subprocess.run(["git", "-C", wt, "reset", "-q", "--hard", subprocess.run(["git", "-C", "/repo", "rev-parse", "HEAD"], capture_output=True, text=True).stdout.strip()])
    return wt

import threading, queue
pool = queue.Queue()
for k in range(a.jobs):
    pool.put(get_wt(k))

def run_one(job):
    pid, unit, rel, q, (b, e), (ms, me, rep, desc) = job
    wt = pool.get()
    try:
        path = os.path.join(wt, rel)
        data = open(os.path.join("/repo", rel), "rb").read()
        mut = data[:b + ms] + rep.encode() + data[b + me:]
        open(path, "wb").write(mut)
        line = data[:b + ms].count(b"\n") + 1
        env = dict(os.environ, VERIF_REPO=wt, VERIF_OUT="/var/tmp/kill_out_%s" % os.path.basename(wt))
        os.makedirs(env["VERIF_OUT"] + "/evidence", exist_ok=True); os.makedirs(env["VERIF_OUT"] + "/replays", exist_ok=True)
        try:
            p = subprocess.run([V + "/check", pid] + ([] if a.whole else ["--only", unit]), capture_output=True, text=True, env=env, timeout=900, cwd=V)
            rc = p.returncode; out = p.stdout
        except subprocess.TimeoutExpired:
            rc = 2; out = "TIMEOUT"
        verdict = "killed" if rc == 1 else "undecided" if rc == 2 else "SURVIVED"
        ob = ";".join(sorted({re.sub(r".*replays/[^/]*/", "", l).split(".json")[0][-70:] for l in out.split("\n") if l.startswith("VIOLATION")})[:2])
        open(path, "wb").write(data)
        return (unit, rel, line, desc, verdict, ob)
    finally:
        pool.put(wt)

jobs = []
for pid, unit, rel, q in units:
    rg = fn_range(rel, q)
    if not rg or rg[0] is None: continue
    text = open(os.path.join("/repo", rel), "rb").read()[rg[0]:rg[1]].decode("latin1")
    seed = int(hashlib.sha1(unit.encode()).hexdigest()[:8], 16)
    for m in mutants(text, a.per, seed):
        jobs.append((pid, unit, rel, q, rg, m))
if a.whole:
    surv = set()
    for l in open(a.whole):
        c = l.rstrip("\n").split("\t")
        if len(c) >= 5 and c[4] == "SURVIVED":
            surv.add((c[0], c[1], c[2], c[3]))
    data_cache = {}
    keep = {}
    for j in jobs:
        pid, unit, rel, q, (b, e), (ms, me, rep, desc) = j
        d = data_cache.setdefault(rel, open(os.path.join("/repo", rel), "rb").read())
        line = str(d[:b + ms].count(b"\n") + 1)
        if (unit, rel, line, desc) in surv:
            keep.setdefault((pid, rel, b + ms, rep), j)
    jobs = list(keep.values())
print("units", len(units), "mutants", len(jobs)); sys.stdout.flush()
with ThreadPoolExecutor(a.jobs) as ex, open(a.out, "a") as f:
    for res in ex.map(run_one, jobs):
        f.write("\t".join(str(x) for x in res) + "\n"); f.flush()
print("done")
