#!/bin/sh
# usage: tools/with_patch.sh <patch.diff> <command...> : apply a patch to /repo, run the command, always revert
P="$1"; shift
git -C /repo apply "$(readlink -f "$P")" || { echo "patch does not apply"; exit 3; }
"$@"; rc=$?
git -C /repo checkout -- . 
exit $rc
