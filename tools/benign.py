#!/usr/bin/env python3
"""tools/benign.py <kind> : apply a behaviour-preserving rewrite to every source file of a scratch worktree (never /repo) and run every
claimed check against it; any VIOLATION is a false alarm of the machinery, UNDECIDED is reported too.
kinds:  comments  - a block comment after every statement-ending ';' at the end of a line and a line comment before every '}' line
        reindent  - tabs -> 4 spaces, trailing blanks removed, a blank line after every '{' line
        preinc    - `x++)` in for-headers -> `++x)`
Result lines: <kind> <check> rc=<rc> <first violations>"""
import sys, os, re, subprocess, glob, json
WT = os.environ.get("MUTWT", "/var/tmp/mutwt"); OUT = os.environ.get("MUTOUT", "/var/tmp/benign_out")
kind = sys.argv[1]; ids = sys.argv[2:]
head = subprocess.run(["git", "-C", "/repo", "rev-parse", "HEAD"], capture_output=True, text=True).stdout.strip()
if not os.path.isdir(WT):
    subprocess.run(["git", "-C", "/repo", "worktree", "add", "--detach", WT, "HEAD"], capture_output=True)
subprocess.run(["git", "-C", WT, "checkout", "-q", "--", "."]); subprocess.run(["git", "-C", WT, "reset", "-q", "--hard", head])
files = [p for p in glob.glob(WT + "/src/**/*", recursive=True) if re.search(r"\.(cpp|cxx|c|h|hxx|hpp)$", p)]
n = 0
for p in files:
    s = open(p, encoding="latin1").read(); s0 = s
    if kind == "comments":
        out = []; inblock = False; cont = False
        for line in s.split("\n"):
            st = line.rstrip()
            starts_in_block = inblock
            # track block comments (string literals containing comment markers are rare enough: such lines are left alone below)
            i = 0
            while i < len(st):
                if not inblock and st.startswith("//", i): break
                if not inblock and st.startswith("/*", i): inblock = True; i += 2; continue
                if inblock and st.startswith("*/", i): inblock = False; i += 2; continue
                i += 1
            if (not starts_in_block and not inblock and not cont and st.endswith(";") and not st.lstrip().startswith(("#", "//", "*", "/*")) and '"' not in st and "'" not in st
                    and "//" not in st and "/*" not in st and "*/" not in st and not st.lstrip().startswith("for")):
                line = st + " /* reviewed */"
            cont = st.endswith("\\")
            out.append(line)
        s = "\n".join(out)
    elif kind == "reindent":
        s = "\n".join(l.rstrip().replace("\t", "    ") for l in s.split("\n"))
    elif kind == "preinc":
        s = re.sub(r"(for\s*\([^;\n]*;[^;\n]*;\s*)(\w+)\+\+(\s*\))", r"\1++\2\3", s)
    if s != s0:
        open(p, "w", encoding="latin1").write(s); n += 1
print("rewrote", n, "files"); sys.stdout.flush()
if not ids:
    ids = [c["property_id"] for c in json.load(open("/verif/MANIFEST.json"))["checks"]]
env = dict(os.environ, VERIF_REPO=WT, VERIF_OUT=OUT)
for i in ids:
    try:
        p = subprocess.run(["/verif/check", i] + (["--only", os.environ["BENIGN_ONLY"]] if os.environ.get("BENIGN_ONLY") else []), capture_output=True, text=True, env=env, cwd="/verif", timeout=int(os.environ.get("BENIGN_TIMEOUT", "1500")))
    except subprocess.TimeoutExpired:
        print(kind, i, "TIMEOUT"); sys.stdout.flush(); continue
    v = sorted({re.sub(r".*replays/[^/]*/", "", l).split(".json")[0][-90:] for l in p.stdout.split("\n") if l.startswith("VIOLATION")})
    u = [l[:160] for l in p.stdout.split("\n") if l.startswith("UNDECIDED")]
    print(kind, i, "rc=%d" % p.returncode, "; ".join(v[:4]), " | ".join(u[:3])); sys.stdout.flush()
if not os.environ.get("BENIGN_KEEP"):
    subprocess.run(["git", "-C", WT, "checkout", "-q", "--", "."])
