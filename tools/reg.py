#!/usr/bin/env python3
"""tools/reg.py <id> <json-file-or-'-'> : set the registry entry of a property from a JSON object (stdin with '-')"""
import json, sys, os
p = os.path.join(os.path.dirname(os.path.dirname(os.path.abspath(__file__))), "props", "registry.json")
d = json.load(open(p))
e = json.load(sys.stdin if sys.argv[2] == "-" else open(sys.argv[2]))
d["props"][sys.argv[1]] = e
json.dump(d, open(p, "w"), indent=1, sort_keys=True)
print("registered", sys.argv[1])
