#!/bin/bash
# tools/seed_own.sh <out.tsv> <seed-dir ...> : for every seed apply it to a scratch worktree (never /repo) and run the check of the seed's OWN
# property (the id in the directory name) against it; one line per seed: seed, rc, violated obligations, undecided count.
# WT (default /var/tmp/r2wt) selects the scratch worktree.
WT=${WT:-/var/tmp/r2wt}
OUT=$1; shift
[ -d $WT ] || git -C /repo worktree add --detach $WT HEAD >/dev/null 2>&1
git -C $WT checkout -q -- . ; git -C $WT reset -q --hard $(git -C /repo rev-parse HEAD)
export VERIF_REPO=$WT VERIF_OUT=${WT}_out
mkdir -p $VERIF_OUT/evidence $VERIF_OUT/replays
cd /verif
for d in "$@"; do
  d=${d%/}; id=$(echo $d | grep -o 'C[0-9][0-9]' | head -1)
  git -C $WT apply /verif/seeded/$d/patch.diff 2>/dev/null || { echo -e "$d\t$id\tAPPLY-FAILED" >> $OUT; continue; }
  timeout 3000 ./check $id > $VERIF_OUT/$d.log 2>&1; rc=$?
  v=$(grep "^VIOLATION" $VERIF_OUT/$d.log | sed 's/.*replays\/[^/]*\///; s/\.[0-9a-f]*\.json.*//' | sort -u | head -3 | tr '\n' ';')
  u=$(grep -c "^UNDECIDED" $VERIF_OUT/$d.log)
  echo -e "$d\t$id\t$rc\t$v\tundecided=$u" >> $OUT
  git -C $WT checkout -q -- .
done
echo DONE >> $OUT
