#!/usr/bin/env python3
"""tools/gen_inventory.py : write /verif/UNITS.md — the unit inventory as measured by the last run (from evidence/<id>.json)."""
import json, glob, os
V = os.path.dirname(os.path.dirname(os.path.abspath(__file__)))
out = ["# Unit inventory (generated from evidence/*.json by tools/gen_inventory.py — do not edit)", "",
       "One row per unit: the function of /repo under contract, the engine, whether the result is a proof or a bounded stand-in,",
       "obligations discharged / generated on the last run of the quick tier, and seconds.", ""]
tot_u = tot_o = 0
for p in sorted(glob.glob(os.path.join(V, "evidence", "C??.json"))):
    d = json.load(open(p)); c = d["coverage"]
    out += ["## %s  (level %s; %d obligations, %d discharged; bounded %d/%d; known findings %d)" % (d["property_id"], d["level"], c["obligations"], c["discharged"], c.get("bounded_discharged", 0), c.get("bounded_obligations", 0), len(c.get("known_findings", []))), "",
            "| unit | file | function | engine | kind | discharged/obligations | s |", "|---|---|---|---|---|---|---|"]
    for u in c.get("units", []):
        out.append("| %s | %s | %s | %s | %s | %d/%d | %.1f |" % (u["unit"], u.get("file", ""), u.get("function", ""), u.get("engine", ""), u.get("kind", ""), u.get("discharged", 0), u.get("obligations", 0), u.get("seconds", 0)))
        tot_u += 1; tot_o += u.get("obligations", 0)
    if c.get("dropped_units"):
        out += ["", "dropped: " + "; ".join(str(x) for x in c["dropped_units"])]
    out.append("")
out.insert(5, "Total: %d units, %d obligations." % (tot_u, tot_o)); out.insert(6, "")
open(os.path.join(V, "UNITS.md"), "w").write("\n".join(out))
print("units", tot_u, "obligations", tot_o)
