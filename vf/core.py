"""Common records, verdict logic, evidence writer and the line protocol of ./check.

Every unit (a function, loop or statement region under contract) produces a
UnitResult holding Obligation records.  An obligation is `discharged`,
`failed` or `undecided`.  `failed` -> VIOLATION (after known-finding
matching and replay); `undecided` alone -> exit 2, never a violation.
"""
import json, os, sys, time, hashlib, traceback, re
from concurrent.futures import ThreadPoolExecutor

VERIF = os.path.dirname(os.path.dirname(os.path.abspath(__file__)))
REPO = os.environ.get("VERIF_REPO", "/repo")
# VERIF_OUT redirects evidence and replay files (used only by the seed matrix, which runs against a scratch worktree)
EVIDENCE_DIR = os.path.join(os.environ.get("VERIF_OUT", VERIF), "evidence")
REPLAY_DIR = os.path.join(os.environ.get("VERIF_OUT", VERIF), "replays")
KNOWN = os.path.join(VERIF, "known_findings.json")

DISCHARGED, FAILED, UNDECIDED = "discharged", "failed", "undecided"


class Undecided(Exception):
    """Raised inside a unit when it cannot be decided (tool limit, extraction
    break, node outside subset, timeout).  Never a violation."""


class Obligation:
    def __init__(self, name, status, backend="", seconds=0.0, detail="", model=None, bounded=False, kind="post"):
        self.name, self.status, self.backend = name, status, backend
        self.seconds, self.detail, self.model = seconds, detail, model
        self.bounded, self.kind = bounded, kind

    def as_dict(self, unit):
        d = {"unit": unit, "obligation": self.name, "status": self.status,
             "backend": self.backend, "seconds": round(self.seconds, 3)}
        if self.kind != "post":
            d["kind"] = self.kind
        if self.detail:
            d["detail"] = self.detail[:400]
        return d


class UnitResult:
    def __init__(self, uid, file="", function="", engine="", proved_kind="proved"):
        self.id, self.file, self.function, self.engine = uid, file, function, engine
        self.kind = proved_kind           # "proved" | "bounded" | "structural"
        self.bound = None                 # dict describing the bound when kind == bounded
        self.obligations = []
        self.sha = ""
        self.notes = []
        self.assumptions = []
        self.seconds = 0.0
        self.undecided_reason = None
        self.replays = {}                 # obligation name -> dict(path=..., reproduced=bool)
        self.extraction = None            # for extracted units: rules fired / dropped

    def add(self, *a, **k):
        o = Obligation(*a, **k)
        self.obligations.append(o)
        return o

    def counts(self):
        n = len(self.obligations)
        d = sum(1 for o in self.obligations if o.status == DISCHARGED)
        f = sum(1 for o in self.obligations if o.status == FAILED)
        u = sum(1 for o in self.obligations if o.status == UNDECIDED)
        return n, d, f, u


def sha256_text(s):
    if isinstance(s, str):
        s = s.encode()
    return hashlib.sha256(s).hexdigest()


def load_known():
    if not os.path.exists(KNOWN):
        return {"findings": [], "fixed": []}
    with open(KNOWN) as f:
        return json.load(f)


def match_known(known, pid, unit, obl_name):
    for k in known.get("findings", []):
        if k.get("property") != pid:
            continue
        if k.get("unit") == unit and k.get("obligation") == obl_name:
            return k
    return None


def write_replay(pid, unit, obl, extra=None):
    d = os.path.join(REPLAY_DIR, pid)
    os.makedirs(d, exist_ok=True)
    safe = re.sub(r"[^A-Za-z0-9_.-]+", "_", f"{unit}__{obl.name}")[:120]
    path = os.path.join(d, safe + "." + sha256_text(unit + "|" + obl.name)[:8] + ".json")
    rec = {"property": pid, "unit": unit, "failed_obligation": obl.name,
           "backend": obl.backend, "verifier_output": obl.detail,
           "counterexample": obl.model}
    if extra:
        rec.update(extra)
    with open(path, "w") as f:
        json.dump(rec, f, indent=1, default=str)
    return path


import threading
PENDING = threading.local()      # loop heads seen by iteration contracts while a unit runs (see astvc.unit.run_loop_isolated)

# loop heads of the unchanged tree that are deliberately not full traversals (unit id substring, function, loop ordinal): reason
HEAD_EXEMPT = {
    ("C11.transport.advective_shift", "Phreeqc::transport", 22): "shift loop runs in the direction of flow (i -= ishift from last_c to first_c); its range is under the unit's own shift contract",
    ("C20.add_potential_factor", "Phreeqc::add_potential_factor", 0): "token 0 of trxn is the species being defined; the reactants start at token 1",
}


def _classify_head(h):
    """'full' when the loop head is one of the canonical full-traversal shapes, else a description of the deviation"""
    init, cond, inc, kind = h["init"], h["cond"], h["inc"], h["kind"]
    import re
    if kind != "ForStmt" or not (init or cond or inc):
        return "full"                                  # while/do loops and heads whose text is not available (templates in headers)
    v = None
    m = re.match(r"^(?:[\w:<>\*& ,]+?[\s\*&])?(\w+)=(.+?);?$", init) if init else None
    if m:
        v, start = m.group(1), m.group(2)
    if not inc or not re.match(r"^(\+\+\w+|\w+\+\+|--\w+|\w+--|\w+\+=1|\w+=\w+->next)$", inc):
        return "increment `%s` is not a unit step" % inc
    if cond is None or cond == "":
        return "no loop condition"
    if re.search(r"!=.*\.end\(\)$", cond) or re.search(r"!=\w+end\b", cond):
        if init and ("begin()" not in init and "=" in init) and not re.search(r"=\w+$|=\*?\w+(\.|->)\w+", init):
            return "iterator loop does not start at begin(): `%s`" % init
        return "full"
    if re.search(r"(!=NULL|!=0|!=nullptr)$", cond) or re.match(r"^\w+(->\w+)*$", cond):
        return "full"                                  # sentinel-terminated walk
    m2 = re.match(r"^\(?\w*\)?(\w+)(<=|<|>=|>|!=)(.+)$", cond)
    if not m2:
        if re.match(r"^[\w\.\->\(\)\*]+==[^=]", cond):
            return "loop runs while `%s` (an equality): not a traversal" % cond
        return "full"                                  # compound conditions are left to the unit
    op = m2.group(2)
    if v is None or init is None or init == "":
        return "full"
    if inc.startswith("--") or inc.endswith("--"):
        return "full" if op in (">=", ">") else "downward loop with condition `%s`" % cond
    bound = m2.group(3)
    if op == "<" and start in ("0", "(size_t)0", "0u"):
        return "full"
    if op == "<=" and start == "1":
        return "full"
    if op == "<=" and bound.endswith(".size()"):
        return "index runs to size() inclusive: `%s`" % cond
    if op in ("<", "<=", "!="):
        return "full" if start not in ("0", "1") else ("index starts at %s with condition `%s`" % (start, cond))
    return "condition `%s` does not bound an upward index" % cond


def attach_loop_heads(r, heads):
    seen = set()
    for h in heads:
        key = (h["function"], h["ordinal"])
        if key in seen:
            continue
        seen.add(key)
        verdict = _classify_head(h)
        ex = [why for (u, f, o), why in HEAD_EXEMPT.items() if u in r.id and f == h["function"] and o == h["ordinal"]]
        ex += [why for (f, o), why in getattr(r, "head_exempt", {}).items() if f == h["function"] and o == h["ordinal"]]   # a unit may state a head itself and exempt it here
        name = "loop%d_of_%s.head_is_a_full_traversal" % (h["ordinal"], h["function"].split("::")[-1])
        if verdict == "full" or ex:
            r.add(name, DISCHARGED, "syntactic", 0.0, "for (%s %s; %s)%s" % (h["init"], h["cond"], h["inc"], " [exempt: %s]" % ex[0] if ex else ""), kind="establishment")
        else:
            r.add(name, FAILED, "syntactic", 0.0, "for (%s %s; %s): %s" % (h["init"], h["cond"], h["inc"], verdict), kind="establishment")


def run_units(unit_fns, jobs=8):
    """unit_fns: list of (uid, callable) -> list of UnitResult (order kept)."""
    def one(item):
        uid, fn = item
        t0 = time.time()
        try:
            PENDING.heads = []
            r = fn()
            rs = r if isinstance(r, list) else [r]
            if len(rs) == 1 and getattr(PENDING, "heads", None) and not rs[0].undecided_reason:
                attach_loop_heads(rs[0], PENDING.heads)
        except Undecided as e:
            u = UnitResult(uid)
            u.undecided_reason = str(e)
            rs = [u]
        except Exception as e:  # a crash of the machinery is undecided, never a violation
            u = UnitResult(uid)
            u.undecided_reason = "machinery-error: %s: %s" % (type(e).__name__, e)
            u.notes.append(traceback.format_exc()[-1500:])
            rs = [u]
        for r in rs:
            if not r.seconds:
                r.seconds = time.time() - t0
        return rs
    out = []
    if jobs <= 1:
        for it in unit_fns:
            out.extend(one(it))
    else:
        with ThreadPoolExecutor(max_workers=jobs) as ex:
            for rs in ex.map(one, unit_fns):
                out.extend(rs)
    return out


def finish(pid, tier, seed, level, results, t0, checker_cmd, trusted_base, assumptions,
           explanation="", replay_hook=None, extra_cov=None):
    """Print the line protocol, write the evidence file, return the exit code."""
    known = load_known()
    n_obl = n_dis = 0
    b_obl = b_dis = 0
    violations, undecided, known_hits = [], [], []
    samples, units_ev, bounded_units, dropped_units = [], [], [], []
    solver_time = {}
    for r in results:
        n, d, f, u = r.counts()
        if r.undecided_reason:
            undecided.append((r.id, r.undecided_reason))
        if n == 0 and not r.undecided_reason:
            undecided.append((r.id, "vacuous: unit generated zero obligations"))
        for o in r.obligations:
            solver_time[o.backend] = solver_time.get(o.backend, 0.0) + o.seconds
            if o.status == UNDECIDED:
                undecided.append((r.id, "%s: %s" % (o.name, o.detail[:200])))
        kf_unit = []
        for o in r.obligations:
            if o.status != FAILED:
                continue
            k = match_known(known, pid, r.id, o.name)
            if k is not None:
                known_hits.append((r.id, o, k))
                kf_unit.append(o)
                continue
            extra = None
            if replay_hook is not None:
                try:
                    extra = replay_hook(r, o)
                except Exception as e:
                    extra = {"replay_error": "%s: %s" % (type(e).__name__, e)}
            if extra is None and r.replays.get(o.name):
                extra = r.replays[o.name]
            path = write_replay(pid, r.id, o, extra)
            reproduced = bool(extra and extra.get("reproduced_on_real_code"))
            violations.append((r.id, o, path, reproduced))
        countable = [o for o in r.obligations if o not in kf_unit]
        cn = len(countable)
        cd = sum(1 for o in countable if o.status == DISCHARGED)
        if r.kind == "bounded":
            b_obl += cn; b_dis += cd
            bounded_units.append({"unit": r.id, "bound": r.bound, "obligations": cn, "discharged": cd})
        else:
            n_obl += cn; n_dis += cd
        ue = {"unit": r.id, "file": r.file, "function": r.function, "engine": r.engine,
              "kind": r.kind, "obligations": n, "discharged": d, "failed": f, "undecided": u,
              "seconds": round(r.seconds, 2)}
        if r.sha: ue["sha256_of_verified_text"] = r.sha
        if r.bound: ue["bound"] = r.bound
        if r.extraction: ue["extraction"] = r.extraction
        if r.notes: ue["notes"] = r.notes[:6]
        if r.undecided_reason: ue["undecided_reason"] = r.undecided_reason
        if getattr(r, "dropped_members", None):
            dropped_units.append({"unit": r.id, "dropped_obligations_for_members": r.dropped_members,
                                  "reason": "not reset at the pinned commit; whether a follow-up can observe the stale content is not decided by this technique"})
        units_ev.append(ue)
        print("UNIT  %-44s engine=%s %s obligations=%d discharged=%d failed=%d undecided=%d %.2fs%s" % (
            r.id, r.engine or "-", r.kind, n, d, f, u, r.seconds,
            (" UNDECIDED: " + r.undecided_reason[:160]) if r.undecided_reason else ""))
        for o in r.obligations[:2]:
            if len(samples) < 12:
                samples.append(o.as_dict(r.id))
    all_assump = list(dict.fromkeys(list(assumptions) + [a for r in results for a in r.assumptions]))
    seen_kf = set()
    for uid, o, k in known_hits:
        if (uid, o.name) in seen_kf:
            continue
        seen_kf.add((uid, o.name))
        print("KNOWN-FINDING: property=%s %s (unit %s, obligation %s)" % (pid, k.get("what", ""), uid, o.name))
    for uid, why in undecided:
        print("UNDECIDED property=%s unit=%s reason=%s" % (pid, uid, why.replace("\n", " ")[:300]))
    for uid, o, path, reproduced in violations:
        print("VIOLATION property=%s replay=%s%s" % (pid, path, "" if reproduced else " no-failing-input-found"))
    wall = time.time() - t0
    cov = {"obligations": n_obl, "discharged": n_dis, "checker_cmd": checker_cmd,
           "trusted_base": trusted_base, "samples": samples,
           "units": units_ev, "functions_under_contract": sorted({u["function"] for u in units_ev if u["function"]}),
           "bounded_units": bounded_units, "dropped_units": dropped_units, "bounded_obligations": b_obl, "bounded_discharged": b_dis,
           "undecided": [{"unit": u, "reason": w[:300]} for u, w in undecided],
           "known_findings": [{"unit": u, "obligation": o.name, "what": k.get("what")} for u, o, k in known_hits],
           "solver_time_s": {k: round(v, 2) for k, v in solver_time.items()},
           "explanation": explanation}
    if extra_cov:
        cov.update(extra_cov)
    ev = {"property_id": pid, "tier": tier, "seed": seed, "level": level, "coverage": cov,
          "assumptions": all_assump, "wall_s": round(wall, 2), "violations": len(violations)}
    os.makedirs(EVIDENCE_DIR, exist_ok=True)
    with open(os.path.join(EVIDENCE_DIR, pid + (".partial" if os.environ.get("VERIF_PARTIAL") else "") + ".json"), "w") as f:
        json.dump(ev, f, indent=1, default=str)
    print("SUMMARY property=%s tier=%s obligations=%d discharged=%d bounded=%d/%d violations=%d undecided=%d known=%d wall=%.1fs" % (
        pid, tier, n_obl, n_dis, b_dis, b_obl, len(violations), len(undecided), len(known_hits), wall))
    if violations:
        return 1
    if undecided:
        return 2
    return 0
