"""Call-site capacity obligations (C08.2): every call of a capacity-requiring helper whose destination is a
fixed-size array must provide the capacity the callee's contract requires.  Sites are found in clang's AST of
the enclosing function (typed: overloads are resolved by the compiler, not by text)."""
import os, re, glob
from .core import REPO, Undecided
from .astvc import ast as A


def enclosing_functions(rel, needle):
    """names of functions (definitions at column 0) whose text contains `needle`"""
    txt = open(os.path.join(REPO, rel)).read()
    lines = txt.split("\n")
    defs = []   # (line index, name, qualifier)
    for i, l in enumerate(lines):
        m = re.match(r"^([A-Za-z_]\w*)\s*\(.*", l)
        if m and i > 0 and re.search(r"(\w+)::\s*$", lines[i - 1]):
            defs.append((i, m.group(1), re.search(r"(\w+)::\s*$", lines[i - 1]).group(1)))
            continue
        m = re.match(r"^(?:[\w:<>\*&\s]+?\s+)?(\w+)::(~?\w+)\s*\(", l)
        if m and not A.squeeze(l).endswith(";"):        # a statement (also one followed by a comment) is not a definition
            defs.append((i, m.group(2), m.group(1)))
    out = []
    for k, (i, name, qual) in enumerate(defs):
        end = defs[k + 1][0] if k + 1 < len(defs) else len(lines)
        body = "\n".join(lines[i:end])
        if needle in body:
            out.append((qual + "::" + name, body.count(needle)))
    return out


def strip_casts(n):
    while n.get("kind") in ("ImplicitCastExpr", "ParenExpr", "CStyleCastExpr", "CXXStaticCastExpr") and n.get("inner"):
        n = n["inner"][0]
    return n


def array_capacity(arg):
    """(capacity or None, description) of a char* argument expression"""
    top = arg
    decayed = False
    n = arg
    while n.get("kind") in ("ImplicitCastExpr", "ParenExpr", "CStyleCastExpr") and n.get("inner"):
        if n.get("castKind") == "ArrayToPointerDecay":
            decayed = True
        n = n["inner"][0]
    q = (n.get("type", {}).get("desugaredQualType") or n.get("type", {}).get("qualType", ""))
    m = re.match(r"^(?:const )?char\s*\[(\d+)\]$", q.strip())
    name = n.get("referencedDecl", {}).get("name") or n.get("name") or n.get("kind")
    if decayed and m:
        return int(m.group(1)), "%s : %s" % (name, q)
    return None, "%s : %s" % (name, q)


def find_calls(fn, callee, nargs):
    out = []
    for x in A.walk(fn):
        if x.get("kind") in ("CallExpr", "CXXMemberCallExpr") and x.get("inner"):
            c = strip_casts(x["inner"][0])
            nm = c.get("name") or c.get("referencedDecl", {}).get("name")
            if nm == callee and len(x["inner"]) - 1 == nargs:
                out.append(x)
    return out
