"""Mechanical extraction of C-style functions from the .cpp files of /repo (Engine A).

A function is located through clang's AST of the real translation unit (qualified name + parameter
types -> exact byte range of the definition); its text is cut at those offsets and a fixed list of
rewrite rules is applied.  Every rule is must-fire: a rule whose pattern is absent makes the unit
undecided (exit 2), never a violation.  What the extraction drops or rewrites is exactly the rule list
recorded in the evidence; statement order, expressions, loop shapes and literals are the repository's."""
import os, re
from .core import REPO, Undecided, sha256_text
from .astvc import ast as A


def cut_function(rel, qualname, nparams=None, param_types=None, kind=None):
    fn = A.find_function(rel, qualname, nparams=nparams, param_types=param_types, kind=kind)
    r = fn.get("range", {})
    b, e = r.get("begin", {}), r.get("end", {})
    if "offset" not in b or "offset" not in e:
        raise Undecided("no byte range for %s" % qualname)
    f = b.get("file") or fn.get("loc", {}).get("file") or os.path.join(REPO, rel)
    if "includedFrom" in b or (f and not f.endswith(rel.split("/")[-1])):
        f = f if f else os.path.join(REPO, rel)
    path = f if os.path.isabs(f) else os.path.join(REPO, rel)
    with open(path, "rb") as fh:
        data = fh.read()
    text = data[b["offset"]: e["offset"] + e.get("tokLen", 1)].decode(errors="replace")
    line = b.get("line") or fn.get("loc", {}).get("line") or 1
    return text, path, line, fn


def apply_rules(text, rules):
    """rules: list of (regex, replacement, description).  returns (text, fired descriptions)"""
    fired = []
    for pat, rep, desc in rules:
        new, n = re.subn(pat, rep, text)
        if n == 0:
            raise Undecided("extraction rule did not fire: %s (%s)" % (desc, pat))
        fired.append("%s [%d]" % (desc, n))
        text = new
    return text, fired


def inject_loop_contracts(text, contracts, expect_count=None):
    """contracts: {ordinal: 'clauses text'} inserted after the loop header (for/while '(...)') of the
    loop with that ordinal in source order.  The number of loops must equal expect_count."""
    # find loop headers
    pos = []
    for m in re.finditer(r"\b(for|while)\s*\(", text):
        # skip 'while' that closes a do-while:  '} while (...);'
        start = m.end() - 1
        depth, i = 0, start
        while i < len(text):
            if text[i] == "(":
                depth += 1
            elif text[i] == ")":
                depth -= 1
                if depth == 0:
                    break
            i += 1
        after = text[i + 1:i + 40].lstrip()
        if m.group(1) == "while" and after.startswith(";") and text[:m.start()].rstrip().endswith("}"):
            continue
        pos.append(i + 1)
    if expect_count is not None and len(pos) != expect_count:
        raise Undecided("function has %d loops, the contract file records %d" % (len(pos), expect_count))
    out, last = [], 0
    for k, p in enumerate(pos):
        out.append(text[last:p])
        if k in contracts:
            out.append("\n" + contracts[k] + "\n")
        last = p
    out.append(text[last:])
    for k in contracts:
        if k >= len(pos):
            raise Undecided("loop contract for loop %d but only %d loops" % (k, len(pos)))
    return "".join(out), len(pos)


def write_unit_c(path, parts):
    with open(path, "w") as f:
        f.write("\n".join(parts))
    return path
