"""Engine A: CBMC 6.11 + goto-instrument --dfcc code contracts on C / C-style units.

run_unit() drives  goto-cc -> goto-instrument --dfcc -> cbmc --json-ui  under
timeout + ulimit -v, maps every CBMC property to an Obligation, checks that the
expected obligation classes are present (a silently dropped contract shows as
a missing class), and optionally runs a must-fail twin (same unit with
-DVERIF_TWIN, which perturbs one postcondition in the contract header).
"""
import json, os, subprocess, tempfile, time, shutil, re, resource
from .core import UnitResult, Obligation, Undecided, DISCHARGED, FAILED, UNDECIDED, VERIF, REPO, sha256_text

SCRATCH_BASE = os.environ.get("VERIF_SCRATCH", "/var/tmp")
STD_CHECKS = ["--bounds-check", "--pointer-check", "--signed-overflow-check",
              "--conversion-check", "--div-by-zero-check", "--pointer-overflow-check"]


def _limits(mem_gb):
    def f():
        b = int(mem_gb * (1 << 30))
        resource.setrlimit(resource.RLIMIT_AS, (b, b))
    return f


def sh(cmd, timeout, mem_gb=8, cwd=None):
    t0 = time.time()
    try:
        p = subprocess.run(cmd, stdout=subprocess.PIPE, stderr=subprocess.PIPE, timeout=timeout,
                           preexec_fn=_limits(mem_gb), cwd=cwd)
        return p.returncode, p.stdout.decode(errors="replace"), p.stderr.decode(errors="replace"), time.time() - t0
    except subprocess.TimeoutExpired as e:
        return -9, (e.stdout or b"").decode(errors="replace"), "TIMEOUT after %ss" % timeout, time.time() - t0


def mkscratch(tag):
    return tempfile.mkdtemp(prefix="ipqverif.%s." % tag, dir=SCRATCH_BASE)


def _parse_cbmc_json(out):
    try:
        data = json.loads(out)
    except Exception:
        # truncated output: try to cut at last complete element
        return None, None, "unparseable cbmc json"
    results, status, msgs = None, None, []
    for el in data:
        if "result" in el:
            results = el["result"]
        if "cProverStatus" in el:
            status = el["cProverStatus"]
        if el.get("messageType") in ("ERROR", "WARNING"):
            msgs.append(el.get("messageText", ""))
    return results, status, "\n".join(msgs)


def _trace_inputs(trace):
    """Reduce a CBMC json trace to the assignments made in the harness (inputs)."""
    vals = []
    for st in trace or []:
        if st.get("stepType") != "assignment":
            continue
        if st.get("hidden"):
            continue
        lhs = st.get("lhs", "")
        v = st.get("value", {})
        fn = (st.get("sourceLocation") or {}).get("function", "")
        vals.append({"lhs": lhs, "value": v.get("data", v.get("name")), "binary": v.get("binary"),
                     "function": fn, "line": (st.get("sourceLocation") or {}).get("line")})
    return vals


def run_unit(uid, sources, harness, enforce=None, replace=(), loop_contracts=False, unwind=None,
             defines=(), includes=(), cbmc_flags=(), timeout=180, mem_gb=8, bounded=None,
             expect=(), file="", function="", twin=True, checks=STD_CHECKS, object_bits=8, sat_solver="cadical",
             assumptions=(), extraction=None, sha_text=None, keep=False, no_std_checks_in=()):
    """Returns a list [UnitResult] (the unit, with the twin folded in as an obligation)."""
    r = UnitResult(uid, file=file, function=function or (enforce or harness), engine="A:cbmc-dfcc",
                   proved_kind="bounded" if bounded else "proved")
    r.bound = bounded
    r.assumptions = list(assumptions)
    r.extraction = extraction
    if sha_text is not None:
        r.sha = sha256_text(sha_text)
    else:
        h = ""
        for s in sources:
            if s.startswith(REPO):
                with open(s, "rb") as f:
                    h += sha256_text(f.read())
        r.sha = sha256_text(h) if h else ""
    t_all = time.time()

    def pipeline(extra_defs, want_trace=True):
        d = mkscratch(uid.replace("/", "_"))
        try:
            a, b = os.path.join(d, "a.gb"), os.path.join(d, "b.gb")
            cmd = ["goto-cc", "-o", a, "--function", harness, "-DIPHREEQC_VERIF", "-DVERIF_CBMC"]
            cmd += ["-D" + x for x in list(defines) + list(extra_defs)]
            cmd += ["-I" + x for x in includes]
            cmd += list(sources)
            rc, out, err, _ = sh(cmd, 120, mem_gb)
            if rc != 0:
                raise Undecided("goto-cc failed: " + (err or out)[-600:])
            cur = a
            if enforce or replace or loop_contracts:
                cmd = ["goto-instrument", "--dfcc", harness]
                if enforce:
                    cmd += ["--enforce-contract", enforce]
                for g in replace:
                    cmd += ["--replace-call-with-contract", g]
                if loop_contracts:
                    cmd += ["--apply-loop-contracts"]
                cmd += [a, b]
                rc, out, err, _ = sh(cmd, 180, mem_gb)
                if rc != 0:
                    raise Undecided("goto-instrument failed: " + (err or out)[-800:])
                cur = b
            cmd = ["cbmc", cur, "--json-ui", "--sat-solver", sat_solver] + list(checks) + list(cbmc_flags)
            if want_trace:
                cmd += ["--trace"]
            if unwind:
                cmd += ["--unwind", str(unwind), "--unwinding-assertions"]
            if object_bits:
                cmd += ["--object-bits", str(object_bits)]
            rc, out, err, secs = sh(cmd, timeout, mem_gb)
            if rc == -9:
                raise Undecided("cbmc timeout after %ss" % timeout)
            results, status, msgs = _parse_cbmc_json(out)
            if results is None:
                raise Undecided("cbmc gave no result list (rc=%s): %s" % (rc, (msgs or err or out)[-500:]))
            if "ignoring" in out and "forall" in out:
                raise Undecided("cbmc SAT back end ignored a quantifier")
            return results, status, secs, " ".join(cmd)
        finally:
            if not keep:
                shutil.rmtree(d, ignore_errors=True)

    results, status, secs, cmdline = pipeline([])
    r.notes.append("cbmc: " + cmdline.replace(SCRATCH_BASE, "$SCRATCH"))
    seen_classes = set()
    for p in results:
        name = p.get("property", "?")
        st = p.get("status")
        desc = p.get("description", "")
        for cls in ("postcondition", "precondition", "assigns", "loop_invariant_base", "loop_invariant_step",
                    "loop_step_unwinding", "unwind", "pointer_dereference", "array_bounds", "overflow", "assertion",
                    "loop_decreases", "frees"):
            if cls in name:
                seen_classes.add(cls)
        if st == "SUCCESS":
            r.add(name, DISCHARGED, "cbmc-" + sat_solver, 0.0, desc, bounded=bool(bounded))
        elif st == "FAILURE":
            o = r.add(name, FAILED, "cbmc-" + sat_solver, 0.0, desc, bounded=bool(bounded))
            o.model = _trace_inputs(p.get("trace"))
            loc = p.get("sourceLocation") or {}
            o.detail = "%s  [%s:%s in %s]" % (desc, loc.get("file", "?"), loc.get("line", "?"), loc.get("function", "?"))
        else:
            r.add(name, UNDECIDED, "cbmc-sat", 0.0, "status=%s %s" % (st, desc))
    if r.obligations:
        r.obligations[0].seconds = secs
    for cls in expect:
        if cls not in seen_classes:
            r.add("vacuity.expected_class." + cls, UNDECIDED, "scan", 0.0,
                  "no '%s' obligation generated (contract silently dropped?)" % cls, kind="vacuity")
    if twin and not any(o.status == FAILED for o in r.obligations):
        try:
            tres, tstatus, tsecs, _ = pipeline(["VERIF_TWIN"], want_trace=False)
            tfailed = [p["property"] for p in tres if p.get("status") == "FAILURE"]
            if tfailed:
                r.add("vacuity.must_fail_twin", DISCHARGED, "cbmc-sat", tsecs,
                      "twin (one postcondition perturbed in the contract) fails: " + ", ".join(tfailed[:3]), kind="vacuity")
            else:
                r.add("vacuity.must_fail_twin", UNDECIDED, "cbmc-sat", tsecs,
                      "twin with a perturbed postcondition still verifies: unit is vacuous", kind="vacuity")
        except Undecided as e:
            r.add("vacuity.must_fail_twin", UNDECIDED, "cbmc-sat", 0.0, "twin undecided: %s" % e, kind="vacuity")
    r.seconds = time.time() - t_all
    return [r]
