"""Engine A: CBMC 6.11 + goto-instrument --dfcc code contracts on C / C-style units.

run_unit() drives  goto-cc -> goto-instrument --dfcc -> cbmc --json-ui  under
timeout + ulimit -v, maps every CBMC property to an Obligation, checks that the
expected obligation classes are present (a silently dropped contract shows as
a missing class), and optionally runs a must-fail twin (same unit with
-DVERIF_TWIN, which perturbs one postcondition in the contract header).
"""
import json, os, subprocess, tempfile, time, shutil, re, resource
from .core import UnitResult, Obligation, Undecided, DISCHARGED, FAILED, UNDECIDED, VERIF, REPO, sha256_text

SCRATCH_BASE = os.environ.get("VERIF_SCRATCH", "/var/tmp")
STD_CHECKS = ["--bounds-check", "--pointer-check", "--signed-overflow-check",
              "--conversion-check", "--div-by-zero-check", "--pointer-overflow-check"]


def _limits(mem_gb):
    def f():
        b = int(mem_gb * (1 << 30))
        resource.setrlimit(resource.RLIMIT_AS, (b, b))
    return f


def sh(cmd, timeout, mem_gb=8, cwd=None):
    t0 = time.time()
    try:
        p = subprocess.run(cmd, stdout=subprocess.PIPE, stderr=subprocess.PIPE, timeout=timeout,
                           preexec_fn=_limits(mem_gb), cwd=cwd)
        return p.returncode, p.stdout.decode(errors="replace"), p.stderr.decode(errors="replace"), time.time() - t0
    except subprocess.TimeoutExpired as e:
        return -9, (e.stdout or b"").decode(errors="replace"), "TIMEOUT after %ss" % timeout, time.time() - t0


def mkscratch(tag):
    return tempfile.mkdtemp(prefix="ipqverif.%s." % tag, dir=SCRATCH_BASE)


def _parse_cbmc_json(out):
    try:
        data = json.loads(out)
    except Exception:
        # truncated output: try to cut at last complete element
        return None, None, "unparseable cbmc json"
    results, status, msgs = None, None, []
    for el in data:
        if "result" in el:
            results = el["result"]
        if "cProverStatus" in el:
            status = el["cProverStatus"]
        if el.get("messageType") in ("ERROR", "WARNING"):
            msgs.append(el.get("messageText", ""))
    return results, status, "\n".join(msgs)


def _trace_inputs(trace):
    """Reduce a CBMC json trace to the assignments made in the harness (inputs)."""
    vals = []
    for st in trace or []:
        if st.get("stepType") != "assignment":
            continue
        if st.get("hidden"):
            continue
        lhs = st.get("lhs", "")
        v = st.get("value", {})
        fn = (st.get("sourceLocation") or {}).get("function", "")
        vals.append({"lhs": lhs, "value": v.get("data", v.get("name")), "binary": v.get("binary"), "type": v.get("type"),
                     "function": fn, "line": (st.get("sourceLocation") or {}).get("line")})
    return vals


SHIM = r"""
/* native replay shim: nondet values come from the verifier's counterexample, in call order */
#include <stdio.h>
#include <stdlib.h>
static const long long verif_vals[] = { %s 0 };
static const int verif_nvals = %d;
static int verif_pos = 0;
static long long verif_next(void) { if (verif_pos < verif_nvals) return verif_vals[verif_pos++]; return 0; }
char nondet_char(void) { return (char) verif_next(); }
int nondet_int(void) { return (int) verif_next(); }
unsigned nondet_unsigned(void) { return (unsigned) verif_next(); }
long nondet_long(void) { return (long) verif_next(); }
size_t nondet_size_t(void) { return (size_t) verif_next(); }
_Bool nondet_bool(void) { return verif_next() != 0; }
void %s(void);
int main(void) { %s(); printf("REPLAY: harness ran to completion without a fault\\n"); return 0; }
"""


def native_replay(pid_dir, uid, oname, sources, harness, defines, includes, trace):
    """compile the same unit natively (gcc, ASan+UBSan), feed the counterexample's nondet values, run.
    returns dict for the replay file"""
    import re as _re
    vals = []
    for st in trace or []:
        lhs = st.get("lhs") or ""
        if lhs.startswith("return_value_nondet_"):
            b = st.get("binary")
            if b and _re.fullmatch(r"[01]+", b):
                n = int(b, 2)
                if b[0] == "1" and len(b) in (8, 16, 32, 64) and "unsigned" not in (st.get("type") or "") and "size_t" not in lhs:
                    n -= 1 << len(b)
                vals.append(n)
            else:
                v = st.get("value")
                try:
                    vals.append(int(v))
                except Exception:
                    vals.append(ord(v[1]) if isinstance(v, str) and len(v) == 3 else 0)
    safe = "".join(ch if ch.isalnum() or ch in "._-" else "_" for ch in (uid + "__" + oname))[:100]
    d = os.path.join(pid_dir, safe + ".replay")
    os.makedirs(d, exist_ok=True)
    srcs = []
    for sfile in sources:
        dst = os.path.join(d, os.path.basename(sfile))
        shutil.copy(sfile, dst)
        srcs.append(dst)
    shim = os.path.join(d, "replay_shim.c")
    with open(shim, "w") as f:
        f.write(SHIM % ("".join("%dLL, " % v for v in vals), len(vals), harness, harness))
    exe = os.path.join(d, "replay")
    cmd = ["gcc", "-g", "-O0", "-fsanitize=address,undefined", "-fno-sanitize-recover=undefined", "-w", "-DVERIF_NATIVE",
           "-D__CPROVER_assume(c)=do{if(!(c)){puts(\"REPLAY: assumption not met\");exit(77);}}while(0)"]
    cmd += ["-D" + x for x in defines] + ["-I" + x for x in includes] + srcs + [shim, "-o", exe]
    p = subprocess.run(cmd, stdout=subprocess.PIPE, stderr=subprocess.PIPE)
    if p.returncode != 0:
        undef = sorted(set(_re.findall(r"undefined reference to `([A-Za-z_]\w*)'", p.stderr.decode())))
        if undef:
            # other harnesses in the same file call functions that are not part of this unit: stub them (never reached)
            stubs = os.path.join(d, "stubs.c")
            with open(stubs, "w") as f:
                f.write("#include <stdlib.h>\n" + "".join("void %s(void) { abort(); }\n" % u for u in undef))
            cmd = cmd[:-2] + [stubs] + cmd[-2:]
            p = subprocess.run(cmd, stdout=subprocess.PIPE, stderr=subprocess.PIPE)
    rec = {"replay_dir": d, "nondet_values": vals, "native_compile_cmd": " ".join(cmd)}
    if p.returncode != 0:
        rec.update(reproduced_on_real_code=False, native_output="native compile failed: " + p.stderr.decode()[-500:])
        return rec
    try:
        q = subprocess.run([exe], stdout=subprocess.PIPE, stderr=subprocess.STDOUT, timeout=60)
        out = q.stdout.decode(errors="replace")
        rc = q.returncode
    except subprocess.TimeoutExpired:
        out, rc = "timeout", -1
    fault = rc not in (0, 77, 126, 127, -1)
    rec.update(reproduced_on_real_code=bool(fault), native_exit=rc, native_output=out[-1500:], replay_cmd=exe)
    return rec


def run_unit(uid, sources, harness, enforce=None, replace=(), loop_contracts=False, unwind=None,
             defines=(), includes=(), cbmc_flags=(), timeout=180, mem_gb=8, bounded=None,
             expect=(), file="", function="", twin=True, checks=STD_CHECKS, object_bits=8, sat_solver="cadical",
             assumptions=(), extraction=None, sha_text=None, keep=False, no_std_checks_in=(), native=False):
    """Returns a list [UnitResult] (the unit, with the twin folded in as an obligation)."""
    r = UnitResult(uid, file=file, function=function or (enforce or harness), engine="A:cbmc-dfcc",
                   proved_kind="bounded" if bounded else "proved")
    r.bound = bounded
    r.assumptions = list(assumptions)
    r.extraction = extraction
    if sha_text is not None:
        r.sha = sha256_text(sha_text)
    else:
        h = ""
        for s in sources:
            if s.startswith(REPO):
                with open(s, "rb") as f:
                    h += sha256_text(f.read())
        r.sha = sha256_text(h) if h else ""
    t_all = time.time()

    def pipeline(extra_defs, want_trace=True):
        d = mkscratch(uid.replace("/", "_"))
        try:
            a, b = os.path.join(d, "a.gb"), os.path.join(d, "b.gb")
            cmd = ["goto-cc", "-o", a, "--function", harness, "-DIPHREEQC_VERIF", "-DVERIF_CBMC"]
            cmd += ["-D" + x for x in list(defines) + list(extra_defs)]
            cmd += ["-I" + x for x in includes]
            cmd += list(sources)
            rc, out, err, _ = sh(cmd, 120, mem_gb)
            if rc != 0:
                raise Undecided("goto-cc failed: " + (err or out)[-600:])
            cur = a
            if enforce or replace or loop_contracts:
                cmd = ["goto-instrument", "--dfcc", harness] + [f for f in cbmc_flags if f in ("--no-malloc-may-fail", "--malloc-may-fail", "--malloc-fail-null")]
                if enforce:
                    cmd += ["--enforce-contract", enforce]
                for g in replace:
                    cmd += ["--replace-call-with-contract", g]
                if loop_contracts:
                    cmd += ["--apply-loop-contracts"]
                cmd += [a, b]
                rc, out, err, _ = sh(cmd, 180, mem_gb)
                if rc != 0:
                    raise Undecided("goto-instrument failed: " + (err or out)[-800:])
                cur = b
            cmd = ["cbmc", cur, "--json-ui", "--sat-solver", sat_solver] + list(checks) + list(cbmc_flags)
            if want_trace:
                cmd += ["--trace"]
            if unwind:
                cmd += ["--unwind", str(unwind), "--unwinding-assertions"]
            if object_bits:
                cmd += ["--object-bits", str(object_bits)]
            rc, out, err, secs = sh(cmd, timeout, mem_gb)
            if rc == -9:
                raise Undecided("cbmc timeout after %ss" % timeout)
            results, status, msgs = _parse_cbmc_json(out)
            if results is None:
                raise Undecided("cbmc gave no result list (rc=%s): %s" % (rc, (msgs or err or out)[-500:]))
            if "ignoring" in out and "forall" in out:
                raise Undecided("cbmc SAT back end ignored a quantifier")
            return results, status, secs, " ".join(cmd)
        finally:
            if not keep:
                shutil.rmtree(d, ignore_errors=True)

    results, status, secs, cmdline = pipeline([])
    r.notes.append("cbmc: " + cmdline.replace(SCRATCH_BASE, "$SCRATCH"))
    seen_classes = set()
    for p in results:
        name = p.get("property", "?")
        st = p.get("status")
        desc = p.get("description", "")
        for cls in ("postcondition", "precondition", "assigns", "loop_invariant_base", "loop_invariant_step",
                    "loop_step_unwinding", "unwind", "pointer_dereference", "array_bounds", "overflow", "assertion",
                    "loop_decreases", "frees"):
            if cls in name:
                seen_classes.add(cls)
        if st == "SUCCESS":
            r.add(name, DISCHARGED, "cbmc-" + sat_solver, 0.0, desc, bounded=bool(bounded))
        elif st == "FAILURE":
            o = r.add(name, FAILED, "cbmc-" + sat_solver, 0.0, desc, bounded=bool(bounded))
            o.model = _trace_inputs(p.get("trace"))
            loc = p.get("sourceLocation") or {}
            o.detail = "%s  [%s:%s in %s]" % (desc, loc.get("file", "?"), loc.get("line", "?"), loc.get("function", "?"))
        else:
            r.add(name, UNDECIDED, "cbmc-sat", 0.0, "status=%s %s" % (st, desc))
    if native:
        pid = uid.split(".")[0]
        for o in r.obligations:
            if o.status == FAILED and o.model and len(r.replays) < 3:
                try:
                    r.replays[o.name] = native_replay(os.path.join(VERIF, "replays", pid), uid, o.name, sources, harness,
                                                      ["IPHREEQC_VERIF"] + list(defines), includes, o.model)
                except Exception as e:
                    r.replays[o.name] = {"reproduced_on_real_code": False, "replay_error": "%s: %s" % (type(e).__name__, e)}
    if r.obligations:
        r.obligations[0].seconds = secs
    for cls in expect:
        if cls not in seen_classes:
            r.add("vacuity.expected_class." + cls, UNDECIDED, "scan", 0.0,
                  "no '%s' obligation generated (contract silently dropped?)" % cls, kind="vacuity")
    if twin and not any(o.status == FAILED for o in r.obligations):
        try:
            tres, tstatus, tsecs, _ = pipeline(["VERIF_TWIN"], want_trace=False)
            tfailed = [p["property"] for p in tres if p.get("status") == "FAILURE"]
            if tfailed:
                r.add("vacuity.must_fail_twin", DISCHARGED, "cbmc-sat", tsecs,
                      "twin (one postcondition perturbed in the contract) fails: " + ", ".join(tfailed[:3]), kind="vacuity")
            else:
                r.add("vacuity.must_fail_twin", UNDECIDED, "cbmc-sat", tsecs,
                      "twin with a perturbed postcondition still verifies: unit is vacuous", kind="vacuity")
        except Undecided as e:
            r.add("vacuity.must_fail_twin", UNDECIDED, "cbmc-sat", 0.0, "twin undecided: %s" % e, kind="vacuity")
    r.seconds = time.time() - t_all
    return [r]


def define_lines(rel, names):
    """#define lines for `names` cut from a repository header (so constants are the repository's, not copies)"""
    import re
    txt = open(os.path.join(REPO, rel)).read()
    out = []
    for n in names:
        m = re.search(r"^[ \t]*#[ \t]*define[ \t]+%s[ \t]+[^\n]*$" % re.escape(n), txt, re.M)
        if not m:
            raise Undecided("#define %s not found in %s" % (n, rel))
        out.append(m.group(0).split("/*")[0].rstrip())
    return "\n".join(out)


def extracted_unit(uid, cuts, harness_text, harness, prelude="", rules=(), loop_contracts=None, loop_count=None, loop_contracts_flag=False, **kw):
    """cuts: list of (rel, qualname, find_kwargs).  Builds one C translation unit:
    prelude + the cut function texts (rules applied, #line directives kept) + the harness, then runs run_unit."""
    from . import extract as X
    d = mkscratch("x_" + uid.replace("/", "_"))
    try:
        parts = ["/* generated on every run from /repo's working tree by vf/extract.py */", "#include <stddef.h>", "#include <stdbool.h>", prelude]
        fired_all, shas = [], []
        nloops_total = 0
        for ci, (rel, q, fk) in enumerate(cuts):
            text, path, line, fn = X.cut_function(rel, q, **(fk or {}))
            shas.append(sha256_text(text))
            t2, fired = X.apply_rules(text, rules)
            if loop_contracts and q in loop_contracts:
                t2, n = X.inject_loop_contracts(t2, loop_contracts[q], (loop_count or {}).get(q))
            fired_all += ["%s: %s" % (q, f) for f in fired]
            parts.append('#line %d "%s"' % (line, path))
            parts.append(t2)
        parts.append('#line 1 "harness"')
        parts.append(harness_text)
        src = os.path.join(d, "unit.c")
        with open(src, "w") as f:
            f.write("\n".join(parts))
        extraction = {"cut": [{"file": c[0], "function": c[1]} for c in cuts], "rules_fired": fired_all,
                      "drops": "class qualifier; members the unit touches become file-scope variables in the prelude; see DESIGN.md section 3.1"}
        res = run_unit(uid, [src], harness, extraction=extraction, sha_text="".join(shas), file=cuts[0][0], loop_contracts=loop_contracts_flag, **kw)
        return res
    finally:
        shutil.rmtree(d, ignore_errors=True)
