"""Loads clang 14's JSON AST of a function of a real translation unit of /repo.
Nothing is extracted or rewritten: the tree is what the compiler sees with the
build's flags.  Dumps are cached under /verif/.cache keyed by the SHA of the
translation unit and of every header under /repo/src (so any edit invalidates)."""
import json, os, subprocess, hashlib, glob, threading
from ..core import REPO, VERIF, Undecided

CACHE = os.environ.get("VERIF_CACHE") or os.path.join(VERIF, ".cache")
_lock = threading.Lock()
_tree_sha = {}


def build_flags():
    flags = ["-DSWIG_SHARED_OBJ", "-DUSE_PHRQ_ALLOC", "-DNDEBUG"]
    inc = ["src", "src/phreeqcpp", "src/phreeqcpp/common", "src/phreeqcpp/PhreeqcKeywords"]
    return flags + ["-I" + os.path.join(REPO, i) for i in inc]


def headers_sha():
    with _lock:
        if REPO in _tree_sha:
            return _tree_sha[REPO]
        h = hashlib.sha256()
        pats = ["src/*.h", "src/*.hxx", "src/*.hpp", "src/phreeqcpp/*.h", "src/phreeqcpp/common/*.h",
                "src/phreeqcpp/PhreeqcKeywords/*.h", "src/phreeqcpp/*.hxx", "src/phreeqcpp/common/*.hxx"]
        for p in pats:
            for f in sorted(glob.glob(os.path.join(REPO, p))):
                with open(f, "rb") as fh:
                    h.update(f.encode() + b"\0" + fh.read())
        _tree_sha[REPO] = h.hexdigest()
        return _tree_sha[REPO]


def file_sha(rel):
    with open(os.path.join(REPO, rel), "rb") as f:
        return hashlib.sha256(f.read()).hexdigest()


def _parse_docs(s):
    dec = json.JSONDecoder()
    i, n, docs = 0, len(s), []
    while i < n:
        while i < n and s[i] in " \n\r\t":
            i += 1
        if i >= n:
            break
        if s[i] != "{":
            j = s.find("\n", i)
            i = j + 1 if j >= 0 else n
            continue
        d, j = dec.raw_decode(s, i)
        docs.append(d)
        i = j
    return docs


def dump(rel, filt):
    """all top-level AST documents whose qualified name matches filter `filt` in TU `rel`"""
    os.makedirs(CACHE, exist_ok=True)
    key = hashlib.sha256((file_sha(rel) + headers_sha() + rel + "|" + filt).encode()).hexdigest()[:32]
    path = os.path.join(CACHE, key + ".json")
    with _lock:
        kl = _keylocks.setdefault(key, threading.Lock())
    with kl:
        return _dump_locked(rel, filt, path)


_keylocks = {}
_mem = {}


def _dump_locked(rel, filt, path):
    if path in _mem:
        return _mem[path]
    if os.path.exists(path):
        with open(path) as f:
            _mem[path] = json.load(f)
            return _mem[path]
    cmd = ["clang++", "-fsyntax-only", "-w"] + build_flags() + [
        "-Xclang", "-ast-dump=json", "-Xclang", "-ast-dump-filter=" + filt, os.path.join(REPO, rel)]
    p = subprocess.run(cmd, stdout=subprocess.PIPE, stderr=subprocess.PIPE, timeout=300)
    if p.returncode != 0:
        raise Undecided("clang failed on %s: %s" % (rel, p.stderr.decode()[-400:]))
    docs = _parse_docs(p.stdout.decode())
    tmp = path + ".%d.%d.tmp" % (os.getpid(), threading.get_ident())
    with open(tmp, "w") as f:
        json.dump(docs, f)
    os.replace(tmp, path)
    _mem[path] = docs
    return docs


def _has_body(d):
    return any(c.get("kind") == "CompoundStmt" for c in d.get("inner", []))


def find_function(rel, qualname, nparams=None, param_types=None, kind=None, type_contains=None):
    """the definition (with body) of `qualname` (e.g. 'Phreeqc::k_calc' or 'GetErrorString')"""
    short = qualname.split("::")[-1]
    docs = dump(rel, qualname)
    cands = []
    def visit(d):
        k = d.get("kind")
        if k in ("FunctionDecl", "CXXMethodDecl", "CXXConstructorDecl", "CXXDestructorDecl") and d.get("name") == short and _has_body(d):
            if kind is None or k == kind:
                cands.append(d)
        elif k in ("FunctionTemplateDecl", "ClassTemplateSpecializationDecl", "CXXRecordDecl", "NamespaceDecl", "LinkageSpecDecl", "TranslationUnitDecl"):
            for c in d.get("inner", []):
                visit(c)
    for d in docs:
        visit(d)
    def ptypes(d):
        return [c["type"]["qualType"] for c in d.get("inner", []) if c.get("kind") == "ParmVarDecl"]
    if nparams is not None:
        cands = [d for d in cands if len(ptypes(d)) == nparams]
    if param_types is not None:
        cands = [d for d in cands if ptypes(d) == list(param_types)]
    if type_contains is not None:
        cands = [d for d in cands if type_contains in d.get("type", {}).get("qualType", "")]
    # prefer definitions located in the TU itself
    if len(cands) > 1:
        uniq = {}
        for d in cands:
            uniq[d.get("id")] = d
        cands = list(uniq.values())
    if not cands:
        raise Undecided("function %s not found (with a body) in %s" % (qualname, rel))
    if len(cands) > 1:
        raise Undecided("function %s ambiguous in %s (%d definitions); give parameter types" % (qualname, rel, len(cands)))
    return cands[0]


def body_of(fn):
    for c in fn.get("inner", []):
        if c.get("kind") == "CompoundStmt":
            return c
    raise Undecided("no body")


def params_of(fn):
    return [c for c in fn.get("inner", []) if c.get("kind") == "ParmVarDecl"]


def enum_values(rel, enum_name):
    """name -> int for the enumerators of enum `enum_name` as seen from TU rel"""
    docs = dump(rel, enum_name)
    out = {}
    for d in docs:
        if d.get("kind") != "EnumDecl":
            continue
        v = -1
        for c in d.get("inner", []):
            if c.get("kind") != "EnumConstantDecl":
                continue
            val = None
            for e in c.get("inner", []):
                val = const_int(e)
            v = val if val is not None else v + 1
            out[c["name"]] = v
    return out


def const_int(e):
    k = e.get("kind")
    if k == "ConstantExpr" and "value" in e:
        try:
            return int(e["value"])
        except ValueError:
            return None
    if k == "IntegerLiteral":
        return int(e["value"])
    if k in ("ImplicitCastExpr", "ParenExpr", "ConstantExpr") and e.get("inner"):
        return const_int(e["inner"][0])
    if k == "UnaryOperator" and e.get("opcode") == "-":
        v = const_int(e["inner"][0])
        return -v if v is not None else None
    return None


def walk(n):
    yield n
    for c in n.get("inner", []) or []:
        if isinstance(c, dict):
            yield from walk(c)


def node_kinds(n):
    return sorted({x.get("kind") for x in walk(n) if x.get("kind")})


def src_range_text(n):
    r = n.get("range", {})
    b, e = r.get("begin", {}), r.get("end", {})
    b = b.get("expansionLoc", b); e = e.get("expansionLoc", e)      # tokens that come from a macro: where the macro is used
    return b.get("offset"), (e.get("offset", 0) + e.get("tokLen", 0))


def enum_values_compiled(header, names):
    """values of enumerators (anonymous typedef enums defeat -ast-dump-filter): compile and run a
    ten-line program that includes the repository header and prints them.  Cached by header SHA."""
    import tempfile, shutil
    os.makedirs(CACHE, exist_ok=True)
    key = hashlib.sha256((headers_sha() + header + "|" + ",".join(names)).encode()).hexdigest()[:32]
    path = os.path.join(CACHE, "enum_" + key + ".json")
    with _lock:
        kl = _keylocks.setdefault("enum" + key, threading.Lock())
    with kl:
        return _enum_locked(header, names, path)


def _enum_locked(header, names, path):
    import tempfile, shutil
    if os.path.exists(path):
        with open(path) as f:
            return json.load(f)
    d = tempfile.mkdtemp(prefix="ipqverif.enum.", dir=os.environ.get("VERIF_SCRATCH", "/var/tmp"))
    try:
        src = os.path.join(d, "e.cpp")
        with open(src, "w") as f:
            f.write('#include <cstdio>\n#include "%s"\nint main(){\n' % header)
            for n in names:
                f.write('  std::printf("%s %%ld\\n", (long)(%s));\n' % (n, n))
            f.write("  return 0; }\n")
        exe = os.path.join(d, "e")
        p = subprocess.run(["clang++", "-w"] + build_flags() + ["-o", exe, src], stdout=subprocess.PIPE, stderr=subprocess.PIPE, timeout=300)
        if p.returncode != 0:
            raise Undecided("cannot compile enum probe: " + p.stderr.decode()[-300:])
        out = subprocess.run([exe], stdout=subprocess.PIPE, timeout=30).stdout.decode()
        vals = {}
        for line in out.splitlines():
            a, b = line.split()
            vals[a] = int(b)
    finally:
        shutil.rmtree(d, ignore_errors=True)
    tmp = path + ".%d.%d.tmp" % (os.getpid(), threading.get_ident())
    with open(tmp, "w") as f:
        json.dump(vals, f)
    os.replace(tmp, path)
    return vals


def dump_text(text, filt, tag="synthetic"):
    """AST documents of a synthetic translation unit (e.g. one that only includes a repository header)"""
    import tempfile, shutil
    os.makedirs(CACHE, exist_ok=True)
    key = hashlib.sha256((headers_sha() + text + "|" + filt).encode()).hexdigest()[:32]
    path = os.path.join(CACHE, "syn_" + key + ".json")
    if os.path.exists(path):
        with open(path) as f:
            return json.load(f)
    d = tempfile.mkdtemp(prefix="ipqverif.syn.", dir=os.environ.get("VERIF_SCRATCH", "/var/tmp"))
    try:
        src = os.path.join(d, tag + ".cpp")
        with open(src, "w") as f:
            f.write(text)
        cmd = ["clang++", "-fsyntax-only", "-w"] + build_flags() + ["-Xclang", "-ast-dump=json", "-Xclang", "-ast-dump-filter=" + filt, src]
        p = subprocess.run(cmd, stdout=subprocess.PIPE, stderr=subprocess.PIPE, timeout=300)
        if p.returncode != 0:
            raise Undecided("clang failed on synthetic TU: %s" % p.stderr.decode()[-300:])
        docs = _parse_docs(p.stdout.decode())
    finally:
        shutil.rmtree(d, ignore_errors=True)
    tmp = path + ".%d.%d.tmp" % (os.getpid(), threading.get_ident())
    with open(tmp, "w") as f:
        json.dump(docs, f)
    os.replace(tmp, path)
    return docs


def class_fields(header, cls):
    """[(name, type)] of the non-static data members of class `cls` declared in `header`"""
    docs = dump_text('#include "%s"\n' % header, cls, tag="fields_" + cls)
    best = None
    for d in docs:
        if d.get("kind") == "CXXRecordDecl" and d.get("name") == cls and d.get("completeDefinition"):
            best = d
    if best is None:
        raise Undecided("class %s not found in %s" % (cls, header))
    out = []
    for x in best.get("inner", []):
        if x.get("kind") == "FieldDecl":
            t = x["type"].get("desugaredQualType") or x["type"]["qualType"]
            out.append((x.get("name"), t))
    return out


_SQ = None
def squeeze(text):
    """source text without comments and without white space (string and character literals are kept as they are): the normal form
    every text-anchored obligation compares, so that re-formatting or commenting a statement never changes it"""
    global _SQ
    if _SQ is None:
        import re
        _SQ = re.compile(r'"(?:\\.|[^"\\\n])*"|\'(?:\\.|[^\'\\\n])*\'|/\*.*?\*/|//[^\n]*|\s+', re.S)
    return _SQ.sub(lambda m: m.group(0) if m.group(0)[0] in "\"'" else "", text)
