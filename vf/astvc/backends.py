"""Back ends of Engine B: (1) exact normalisation of rational-function identities
with sympy (uninterpreted applications and memory reads are atoms); (2) z3 on the
negated VC; (3) cvc5 cross-check of the SMT-LIB export (thorough tier)."""
import time, subprocess, tempfile, os
from fractions import Fraction
import z3
import sympy
from .terms import T, subterms

Z3_TIMEOUT_MS = 20000
import threading
_Z3LOCK = threading.RLock()   # z3's default context is not thread-safe


class Z3Conv:
    def __init__(self):
        self.syms = {}
        self.funs = {}
        self.cache = {}
        self.strs = {}

    def sort(self, s):
        if s == "R": return z3.RealSort()
        if s in ("I", "P", "S"): return z3.IntSort()
        if s == "B": return z3.BoolSort()
        if isinstance(s, tuple) and s[0] == "A":
            idx, elem = s[1:-1], s[-1]
            r = self.sort(elem)
            for i in reversed(idx):
                r = z3.ArraySort(self.sort(i), r)
            return r
        raise ValueError("sort %r" % (s,))

    def conv(self, t):
        r = self.cache.get(t)
        if r is None:
            r = self._conv(t)
            self.cache[t] = r
        return r

    def _conv(self, t):
        op, a = t.op, t.args
        c = self.conv
        if op == "num":
            v = a[0]
            if t.sort == "R":
                return z3.RealVal(str(v))
            return z3.IntVal(int(v))
        if op == "bool":
            return z3.BoolVal(a[0])
        if op == "str":
            k = self.strs.setdefault(a[0], len(self.strs) + 1000003)
            return z3.IntVal(k)
        if op == "sym":
            key = (a[0], t.sort)
            if key not in self.syms:
                self.syms[key] = z3.Const(a[0], self.sort(t.sort))
            return self.syms[key]
        if op in ("+", "-", "*"):
            x, y = self._num2(a[0], a[1], t.sort)
            return x + y if op == "+" else (x - y if op == "-" else x * y)
        if op == "/":
            x, y = self._num2(a[0], a[1], "R")
            return x / y
        if op == "idiv":
            x, y = c(a[0]), c(a[1])
            return self._tdiv(x, y)
        if op == "imod":
            x, y = c(a[0]), c(a[1])
            return x - self._tdiv(x, y) * y
        if op == "neg":
            return -c(a[0])
        if op == "toreal":
            return z3.ToReal(c(a[0]))
        if op == "trunc":
            x = c(a[0])
            return z3.If(x >= 0, z3.ToInt(x), -z3.ToInt(-x))
        if op == "ptoi":
            return c(a[0])
        if op == "==":
            x, y = a
            if x.sort != y.sort and "R" in (x.sort, y.sort):
                xx, yy = self._num2(x, y, "R")
                return xx == yy
            return c(x) == c(y)
        if op in ("<", "<="):
            x, y = self._num2(a[0], a[1], "R" if "R" in (a[0].sort, a[1].sort) else "I")
            return x < y if op == "<" else x <= y
        if op == "not":
            return z3.Not(c(a[0]))
        if op == "and":
            return z3.And(*[c(x) for x in a])
        if op == "or":
            return z3.Or(*[c(x) for x in a])
        if op == "ite":
            x, y = a[1], a[2]
            if x.sort != y.sort and "R" in (x.sort, y.sort):
                xx, yy = self._num2(x, y, "R")
                return z3.If(c(a[0]), xx, yy)
            return z3.If(c(a[0]), c(x), c(y))
        if op == "select":
            r = c(a[0])
            for i in a[1]:
                r = z3.Select(r, self._idx(i))
            return r
        if op == "store":
            return self._store(c(a[0]), [self._idx(i) for i in a[1]], c(a[2]), a[0].sort[-1])
        if op == "constarr":
            return z3.K(self.sort(t.sort).domain(), c(a[0]))
        if op == "app" and a[0] == "emod2":
            return c(a[1]) % 2
        if op == "app":
            name, args = a[0], a[1:]
            key = (name, tuple(x.sort for x in args), t.sort)
            f = self.funs.get(key)
            if f is None:
                f = z3.Function(name + "!" + str(len(self.funs)) if any(k[0] == name for k in self.funs) else name,
                                *([self.sort(x.sort) for x in args] + [self.sort(t.sort)]))
                self.funs[key] = f
            return f(*[c(x) for x in args])
        if op == "forall":
            vs = [c(v) for v in a[0]]
            return z3.ForAll(vs, c(a[1]))
        if op == "exists":
            vs = [c(v) for v in a[0]]
            return z3.Exists(vs, c(a[1]))
        raise ValueError("z3: unknown op %s" % op)

    def _tdiv(self, x, y):
        # truncation toward zero
        return z3.If(x >= 0, z3.If(y > 0, x / y, -(x / (-y))), z3.If(y > 0, -((-x) / y), (-x) / (-y)))

    def _idx(self, i):
        r = self.conv(i)
        if r.sort() == z3.RealSort():
            r = z3.ToInt(r)
        return r

    def _store(self, arr, idx, val, elem_sort):
        if len(idx) == 1:
            if val.sort() != arr.sort().range() and arr.sort().range() == z3.RealSort():
                val = z3.ToReal(val)
            return z3.Store(arr, idx[0], val)
        inner = z3.Select(arr, idx[0])
        return z3.Store(arr, idx[0], self._store(inner, idx[1:], val, elem_sort))

    def _num2(self, x, y, sort):
        cx, cy = self.conv(x), self.conv(y)
        if sort == "R":
            if cx.sort() == z3.IntSort(): cx = z3.ToReal(cx)
            if cy.sort() == z3.IntSort(): cy = z3.ToReal(cy)
            if cx.sort() == z3.BoolSort(): cx = z3.If(cx, z3.RealVal(1), z3.RealVal(0))
            if cy.sort() == z3.BoolSort(): cy = z3.If(cy, z3.RealVal(1), z3.RealVal(0))
        else:
            if cx.sort() == z3.BoolSort(): cx = z3.If(cx, z3.IntVal(1), z3.IntVal(0))
            if cy.sort() == z3.BoolSort(): cy = z3.If(cy, z3.IntVal(1), z3.IntVal(0))
        return cx, cy


def z3_prove(hyps, goal, axioms=(), seed=0, timeout_ms=Z3_TIMEOUT_MS, want_smt2=False):
    """returns (status, model_dict_or_None, seconds, smt2)  status in proved|refuted|unknown"""
    with _Z3LOCK:
        return _z3_prove(hyps, goal, axioms, seed, timeout_ms, want_smt2)


def _z3_prove(hyps, goal, axioms, seed, timeout_ms, want_smt2):
    t0 = time.time()
    cv = Z3Conv()
    s = z3.Solver()
    s.set("timeout", timeout_ms)
    s.set("random_seed", seed)
    for h in list(axioms) + list(hyps):
        s.add(cv.conv(h))
    s.add(z3.Not(cv.conv(goal)))
    smt2 = s.to_smt2() if want_smt2 else None
    r = s.check()
    dt = time.time() - t0
    if r == z3.unsat:
        return "proved", None, dt, smt2
    if r == z3.sat:
        m = s.model()
        md = {}
        for (name, sort), c in cv.syms.items():
            try:
                v = m.eval(c, model_completion=True)
                md[name] = str(v)
            except Exception:
                pass
        return "refuted", md, dt, smt2
    return "unknown", {"reason": s.reason_unknown()}, dt, smt2


def z3_sat(hyps, seed=0, timeout_ms=Z3_TIMEOUT_MS):
    """reachability witness: are the hypotheses satisfiable?"""
    with _Z3LOCK:
        return _z3_sat(hyps, seed, timeout_ms)


def _z3_sat(hyps, seed, timeout_ms):
    cv = Z3Conv()
    s = z3.Solver()
    s.set("timeout", timeout_ms)
    s.set("random_seed", seed)
    for h in hyps:
        s.add(cv.conv(h))
    r = s.check()
    return "sat" if r == z3.sat else ("unsat" if r == z3.unsat else "unknown")


def cvc5_check(smt2, timeout_s=30):
    """returns 'unsat' | 'sat' | 'unknown' for an SMT-LIB script (as exported by z3)"""
    with tempfile.NamedTemporaryFile("w", suffix=".smt2", delete=False, dir=os.environ.get("VERIF_SCRATCH", "/var/tmp")) as f:
        f.write("(set-logic ALL)\n" + smt2)
        path = f.name
    try:
        p = subprocess.run(["cvc5", "--tlimit=%d" % (timeout_s * 1000), path], stdout=subprocess.PIPE, stderr=subprocess.PIPE, timeout=timeout_s + 10)
        out = p.stdout.decode().strip().splitlines()
        return out[0] if out and out[0] in ("sat", "unsat") else "unknown"
    except Exception:
        return "unknown"
    finally:
        os.unlink(path)


# ---------------------------------------------------------------- sympy
class SymConv:
    def positive(self, e):
        return e

    real_functions = True      # sinh/cosh as the real functions (needed for derivative lemmas); other calls stay uninterpreted

    def __init__(self):
        self.atoms = {}
        self.cache = {}

    def atom(self, t):
        a = self.atoms.get(t)
        if a is None:
            a = sympy.Symbol("a%d" % len(self.atoms), real=True)
            self.atoms[t] = a
        return a

    def conv(self, t):
        r = self.cache.get(t)
        if r is None:
            r = self._conv(t)
            self.cache[t] = r
        return r

    def _conv(self, t):
        op, a = t.op, t.args
        c = self.conv
        if op == "num":
            return sympy.Rational(a[0].numerator, a[0].denominator)
        if op == "+": return c(a[0]) + c(a[1])
        if op == "-": return c(a[0]) - c(a[1])
        if op == "*": return c(a[0]) * c(a[1])
        if op == "/": return c(a[0]) / c(a[1])
        if op == "neg": return -c(a[0])
        if op == "toreal": return c(a[0])
        if op == "app" and a[0] in ("sqrt",) and len(a) == 2:
            return sympy.sqrt(c(a[1]))
        if op == "app" and a[0] in ("sinh", "cosh") and len(a) == 2 and self.real_functions:
            return getattr(sympy, a[0])(c(a[1]))
        if op == "app" and a[0] == "pow" and len(a) == 3 and a[2].op == "num" and a[2].args[0].denominator == 1 and abs(a[2].args[0]) <= 8:
            return c(a[1]) ** int(a[2].args[0])
        if op == "app" and a[0] == "pow" and len(a) == 3 and a[2].op == "num" and getattr(self, "rational_pow", False):
            # x^(p/q) on a positive base (callers assert positivity): needed for derivative lemmas only
            return self.positive(c(a[1])) ** sympy.Rational(a[2].args[0].numerator, a[2].args[0].denominator)
        if op in ("sym", "select", "app", "trunc", "idiv", "imod", "ite", "ptoi"):
            if op == "app" and t.sort == "R" and all(isinstance(x, T) and x.sort in ("R", "I") for x in a[1:]):
                # uninterpreted real function: arguments in canonical rational-function form, so that
                # algebraically equal arguments give the same application
                try:
                    args = [sympy.cancel(sympy.together(c(x))) for x in a[1:]]
                    return sympy.Function("uf_" + a[0])(*args)
                except ValueError:
                    return self.atom(t)
            return self.atom(t)
        raise ValueError("sympy: op %s not a field term" % op)


def sympy_equal(lhs, rhs, assume_positive=()):
    """exact identity lhs == rhs as rational functions over atoms (sqrt handled by sympy).
    returns (ok, residue_string, seconds)"""
    t0 = time.time()
    cv = SymConv()
    d = cv.conv(lhs) - cv.conv(rhs)
    r = sympy.cancel(sympy.together(d))
    if r != 0:
        r = sympy.simplify(r)
    ok = (r == 0)
    res = ""
    if not ok:
        inv = {v: k for k, v in cv.atoms.items()}
        res = str(r)
        for sy in sorted(r.free_symbols, key=lambda s: -len(str(s))):
            if sy in inv:
                res = res.replace(str(sy), "{" + repr(inv[sy])[:60] + "}")
        res = res[:600]
    return ok, res, time.time() - t0


def sympy_derivative_equal(code_term, spec_term, var_term, scale_terms):
    """code_term == prod(scale_terms) * d(spec_term)/d(var_term), exactly (rational functions + sqrt).
    returns (ok, residue, seconds)"""
    t0 = time.time()
    cv = SymConv()
    x = cv.conv(var_term)
    if not isinstance(x, sympy.Symbol):
        # differentiate with respect to a fresh symbol standing for the (compound) variable term
        raise ValueError("derivative variable is not an atom")
    spec = cv.conv(spec_term)
    d = sympy.diff(spec, x)
    for s in scale_terms:
        d = d * cv.conv(s)
    diff = sympy.simplify(sympy.cancel(sympy.together(cv.conv(code_term) - d)))
    ok = diff == 0
    res = ""
    if not ok:
        inv = {v: k for k, v in cv.atoms.items()}
        res = str(diff)
        for sy in sorted(diff.free_symbols, key=lambda s: -len(str(s))):
            if sy in inv:
                res = res.replace(str(sy), "{" + repr(inv[sy])[:50] + "}")
        res = res[:500]
    return ok, res, time.time() - t0
