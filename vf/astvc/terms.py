"""Term language of Engine B (astvc).  Immutable hash-consed terms with light
simplification; converters to z3 and sympy live in backends.py.

Sorts: 'R' real (C double read as a mathematical real), 'I' mathematical integer,
'B' bool, 'P' address/object identity (an integer, 0 = null), 'S' opaque string value,
('A', idx_sorts..., elem) array (a memory component).
"""
from fractions import Fraction

_intern = {}


class T(object):
    __slots__ = ("op", "args", "sort", "_h", "__weakref__")

    def __new__(cls, op, args, sort):
        key = (op, args, sort)
        t = _intern.get(key)
        if t is None:
            t = object.__new__(cls)
            t.op, t.args, t.sort = op, args, sort
            t._h = hash(key)
            _intern[key] = t
        return t

    def __hash__(self):
        return self._h

    def __eq__(self, o):
        return self is o

    def __ne__(self, o):
        return self is not o

    def __repr__(self):
        return show(self)

    # arithmetic sugar for contracts
    def __add__(a, b): return add(a, lift(b, a.sort))
    def __radd__(a, b): return add(lift(b, a.sort), a)
    def __sub__(a, b): return sub(a, lift(b, a.sort))
    def __rsub__(a, b): return sub(lift(b, a.sort), a)
    def __mul__(a, b): return mul(a, lift(b, a.sort))
    def __rmul__(a, b): return mul(lift(b, a.sort), a)
    def __truediv__(a, b): return div(a, lift(b, a.sort))
    def __rtruediv__(a, b): return div(lift(b, a.sort), a)
    def __neg__(a): return neg(a)
    def __pow__(a, k):
        assert isinstance(k, int) and k >= 1
        r = a
        for _ in range(k - 1):
            r = mul(r, a)
        return r
    def __lt__(a, b): return lt(a, lift(b, a.sort))
    def __le__(a, b): return le(a, lift(b, a.sort))
    def __gt__(a, b): return lt(lift(b, a.sort), a)
    def __ge__(a, b): return le(lift(b, a.sort), a)
    def eq(a, b): return eq(a, lift(b, a.sort))
    def ne(a, b): return not_(eq(a, lift(b, a.sort)))


def show(t, depth=0):
    if t.op == "num":
        v = t.args[0]
        return str(v) if v.denominator == 1 else "%s/%s" % (v.numerator, v.denominator)
    if t.op in ("sym", "bool", "str"):
        return str(t.args[0])
    if depth > 6:
        return "…"
    if t.op == "app":
        return "%s(%s)" % (t.args[0], ", ".join(show(a, depth + 1) for a in t.args[1:]))
    if t.op in ("+", "-", "*", "/", "==", "<", "<=", "and", "or", "idiv", "imod") and len(t.args) == 2:
        return "(%s %s %s)" % (show(t.args[0], depth + 1), t.op, show(t.args[1], depth + 1))
    return "%s(%s)" % (t.op, ", ".join(show(a, depth + 1) if isinstance(a, T) else str(a) for a in t.args))


TRUE = T("bool", (True,), "B")
FALSE = T("bool", (False,), "B")
NULL = T("num", (Fraction(0),), "P")


def num(v, sort="R"):
    if isinstance(v, str):
        v = Fraction(v)
    elif isinstance(v, float):
        v = Fraction(repr(v))
    return T("num", (Fraction(v),), sort)


def Q(s):
    """exact rational from the decimal spelling, e.g. Q('298.15')"""
    return num(Fraction(s), "R")


def sym(name, sort):
    return T("sym", (name,), sort)


def strc(s):
    return T("str", (s,), "S")


def lift(x, sort="R"):
    if isinstance(x, T):
        return x
    if isinstance(x, bool):
        return TRUE if x else FALSE
    if isinstance(x, (int, Fraction)):
        return num(Fraction(x), sort if sort in ("R", "I", "P") else "R")
    if isinstance(x, float):
        return num(x, "R")
    if isinstance(x, str):
        return num(Fraction(x), sort if sort in ("R", "I") else "R")
    raise TypeError(x)


def isnum(t):
    return t.op == "num"


def _numsort(a, b):
    if a.sort == "R" or b.sort == "R":
        return "R"
    if a.sort == "P" or b.sort == "P":
        return "P"
    return "I"


def add(a, b):
    s = _numsort(a, b)
    if isnum(a) and isnum(b):
        return num(a.args[0] + b.args[0], s)
    if isnum(a) and a.args[0] == 0 and b.sort == s:
        return b
    if isnum(b) and b.args[0] == 0 and a.sort == s:
        return a
    return T("+", (a, b), s)


def sub(a, b):
    s = _numsort(a, b)
    if isnum(a) and isnum(b):
        return num(a.args[0] - b.args[0], s)
    if isnum(b) and b.args[0] == 0 and a.sort == s:
        return a
    if a is b:
        return num(0, s)
    return T("-", (a, b), s)


def mul(a, b):
    s = _numsort(a, b)
    if isnum(a) and isnum(b):
        return num(a.args[0] * b.args[0], s)
    if isnum(a) and a.args[0] == 1 and b.sort == s:
        return b
    if isnum(b) and b.args[0] == 1 and a.sort == s:
        return a
    return T("*", (a, b), s)


def div(a, b):
    """real division"""
    if isnum(a) and isnum(b) and b.args[0] != 0:
        return num(a.args[0] / b.args[0], "R")
    if isnum(b) and b.args[0] == 1:
        return to_real(a)
    return T("/", (a, b), "R")


def idiv(a, b):
    """C integer division (truncation toward zero)"""
    if isnum(a) and isnum(b) and b.args[0] != 0:
        q = abs(a.args[0]) // abs(b.args[0])
        if (a.args[0] < 0) != (b.args[0] < 0):
            q = -q
        return num(q, "I")
    return T("idiv", (a, b), "I")


def imod(a, b):
    if isnum(a) and isnum(b) and b.args[0] != 0:
        q = idiv(a, b).args[0]
        return num(a.args[0] - q * b.args[0], "I")
    return T("imod", (a, b), "I")


def neg(a):
    if isnum(a):
        return num(-a.args[0], a.sort)
    return T("neg", (a,), a.sort)


def to_real(a):
    if a.sort == "R":
        return a
    if isnum(a):
        return num(a.args[0], "R")
    if a.sort == "B":
        return ite(a, num(1, "R"), num(0, "R"))
    return T("toreal", (a,), "R")


def to_int(a):
    """double -> integer conversion (truncation); int stays"""
    if a.sort in ("I",):
        return a
    if a.sort == "B":
        return ite(a, num(1, "I"), num(0, "I"))
    if a.sort == "P":
        return T("ptoi", (a,), "I")
    if isnum(a):
        v = a.args[0]
        q = abs(v.numerator) // v.denominator
        return num(-q if v < 0 else q, "I")
    if a.op == "toreal":
        return a.args[0]
    return T("trunc", (a,), "I")


def to_bool(a):
    if a.sort == "B":
        return a
    if isnum(a):
        return TRUE if a.args[0] != 0 else FALSE
    if a.op == "ite" and a.args[1].op == "num" and a.args[2].op == "num":
        x, y = a.args[1].args[0] != 0, a.args[2].args[0] != 0
        if x and not y:
            return a.args[0]
        if y and not x:
            return not_(a.args[0])
    return not_(eq(a, num(0, a.sort)))


def eq(a, b):
    if a is b:
        return TRUE
    if isnum(a) and isnum(b):
        return TRUE if a.args[0] == b.args[0] else FALSE
    if a.op == "str" and b.op == "str":
        return TRUE if a.args[0] == b.args[0] else FALSE
    if a.op == "bool" and b.op == "bool":
        return TRUE if a.args[0] == b.args[0] else FALSE
    if a.sort == "B" and b.op == "bool":
        return a if b.args[0] else not_(a)
    if b.sort == "B" and a.op == "bool":
        return b if a.args[0] else not_(b)
    return T("==", (a, b), "B")


def lt(a, b):
    if isnum(a) and isnum(b):
        return TRUE if a.args[0] < b.args[0] else FALSE
    if a is b:
        return FALSE
    return T("<", (a, b), "B")


def le(a, b):
    if isnum(a) and isnum(b):
        return TRUE if a.args[0] <= b.args[0] else FALSE
    if a is b:
        return TRUE
    return T("<=", (a, b), "B")


def not_(a):
    if a.op == "bool":
        return FALSE if a.args[0] else TRUE
    if a.op == "not":
        return a.args[0]
    return T("not", (a,), "B")


def and_(*xs):
    out = []
    for x in xs:
        if x is TRUE:
            continue
        if x is FALSE:
            return FALSE
        if x.op == "and":
            out.extend(x.args)
        else:
            out.append(x)
    out = list(dict.fromkeys(out))
    if not out:
        return TRUE
    if len(out) == 1:
        return out[0]
    return T("and", tuple(out), "B")


def or_(*xs):
    out = []
    for x in xs:
        if x is FALSE:
            continue
        if x is TRUE:
            return TRUE
        if x.op == "or":
            out.extend(x.args)
        else:
            out.append(x)
    out = list(dict.fromkeys(out))
    if not out:
        return FALSE
    if len(out) == 1:
        return out[0]
    return T("or", tuple(out), "B")


def implies(a, b):
    return or_(not_(a), b)


def ite(c, a, b):
    if c is TRUE:
        return a
    if c is FALSE:
        return b
    if a is b:
        return a
    if a.sort == "B" and a.op == "bool" and b.op == "bool":
        return c if a.args[0] else not_(c)
    s = a.sort
    if a.sort != b.sort:
        if "R" in (a.sort, b.sort):
            a, b, s = to_real(a), to_real(b), "R"
    return T("ite", (c, a, b), s)


def app(name, args, sort):
    return T("app", (name,) + tuple(args), sort)


def select(arr, *idx):
    """read arr[idx]; resolves through stores when indices are syntactically decidable"""
    elem = arr.sort[-1]
    a = arr
    while a.op == "store":
        base, sidx, val = a.args[0], a.args[1], a.args[2]
        same = all(x is y for x, y in zip(sidx, idx))
        if same:
            return val
        diff = any(_distinct(x, y) for x, y in zip(sidx, idx))
        if diff:
            a = base
            continue
        break
    if a.op == "constarr":
        return a.args[0]
    if a.op == "ite":
        return ite(a.args[0], select(a.args[1], *idx), select(a.args[2], *idx))
    return T("select", (a, tuple(idx)), elem)


def store(arr, idx, val):
    idx = tuple(idx)
    if arr.op == "store" and all(x is y for x, y in zip(arr.args[1], idx)):
        arr = arr.args[0]
    return T("store", (arr, idx, val), arr.sort)


def _distinct(x, y):
    if x is y:
        return False
    if isnum(x) and isnum(y):
        return x.args[0] != y.args[0]
    if x.op == "str" and y.op == "str":
        return x.args[0] != y.args[0]
    # fld(f, a) vs fld(g, b): distinct field tags => distinct addresses
    if x.op == "app" and y.op == "app" and x.args[0].startswith("fld:") and y.args[0].startswith("fld:"):
        if x.args[0] != y.args[0]:
            return True
        return _distinct(x.args[1], y.args[1])
    # a freshly allocated object is distinct from `this`, from everything inside it and from other allocations
    fx, fy = _fresh_alloc(x), _fresh_alloc(y)
    if fx and fy:
        return x is not y and _alloc_root(x) is not _alloc_root(y)
    if fx or fy:
        other = y if fx else x
        r = other
        for _ in range(8):
            if r.op == "app" and r.args[0].startswith("fld:"):
                r = r.args[1]
            elif r.op == "+" and r.sort == "P":
                r = r.args[0]
            else:
                break
        if r.op == "sym" and r.args[0] == "this":
            return True
        if isnum(r):
            return True
    # separation: the element block of a std::vector is its own allocation, disjoint from the fields of `this`
    rx, ry = _alloc_root(x), _alloc_root(y)
    def _is_vdata(r_):
        return r_.op == "select" and r_.args[0].op in ("sym", "store") and "#vdata" in repr(_base_sym(r_.args[0]))
    def _is_this(r_):
        return r_.op == "sym" and r_.args[0] == "this"
    if (_is_vdata(rx) and _is_this(ry)) or (_is_vdata(ry) and _is_this(rx)):
        return True
    # separation: two different std::vector objects own disjoint element blocks (same #vdata array, provably different vector addresses)
    if _is_vdata(x) and _is_vdata(y) and x.args[0] is y.args[0]:
        ax, ay = x.args[1], y.args[1]
        ax = ax[0] if isinstance(ax, tuple) else ax
        ay = ay[0] if isinstance(ay, tuple) else ay
        if ax is not ay and _distinct(ax, ay):
            return True
    # p + c1 vs p + c2
    if x.op == "+" and y.op == "+" and x.args[0] is y.args[0]:
        return _distinct(x.args[1], y.args[1])
    if x.op == "+" and x.args[0] is y and isnum(x.args[1]) and x.args[1].args[0] != 0:
        return True
    if y.op == "+" and y.args[0] is x and isnum(y.args[1]) and y.args[1].args[0] != 0:
        return True
    return False


ALLOC_PREFIX = ("new!", "ret_PHRQ_malloc!", "ret_PHRQ_calloc!", "ret_PHRQ_realloc!", "ret_malloc!", "&")


def _base_sym(a):
    while a.op == "store":
        a = a.args[0]
    return a


def _alloc_root(x):
    for _ in range(8):
        if x.op == "app" and x.args[0].startswith("fld:"):
            x = x.args[1]
        elif x.op == "+" and x.sort == "P":
            x = x.args[0]
        else:
            break
    return x


def _fresh_alloc(x):
    r = _alloc_root(x)
    return r.op == "sym" and r.args[0].startswith(ALLOC_PREFIX)


def subterms(t, seen=None):
    if seen is None:
        seen = set()
    stack = [t]
    while stack:
        x = stack.pop()
        if x in seen:
            continue
        seen.add(x)
        for a in x.args:
            if isinstance(a, T):
                stack.append(a)
            elif isinstance(a, tuple):
                for b in a:
                    if isinstance(b, T):
                        stack.append(b)
    return seen


def free_syms(t):
    return {x for x in subterms(t) if x.op == "sym"}


def substitute(t, mapping, cache=None):
    """replace subterms per mapping {T: T}"""
    if cache is None:
        cache = {}
    if t in mapping:
        return mapping[t]
    if t in cache:
        return cache[t]
    if not t.args or t.op in ("num", "sym", "bool", "str"):
        return t
    new = []
    changed = False
    for a in t.args:
        if isinstance(a, T):
            b = substitute(a, mapping, cache)
        elif isinstance(a, tuple):
            b = tuple(substitute(x, mapping, cache) if isinstance(x, T) else x for x in a)
        else:
            b = a
        changed = changed or (b is not a and b != a)
        new.append(b)
    r = rebuild(t.op, tuple(new), t.sort) if changed else t
    cache[t] = r
    return r


def rebuild(op, args, sort):
    if op == "+": return add(*args)
    if op == "-": return sub(*args)
    if op == "*": return mul(*args)
    if op == "/": return div(*args)
    if op == "neg": return neg(*args)
    if op == "==": return eq(*args)
    if op == "<": return lt(*args)
    if op == "<=": return le(*args)
    if op == "not": return not_(*args)
    if op == "and": return and_(*args)
    if op == "or": return or_(*args)
    if op == "ite": return ite(*args)
    if op == "select": return select(args[0], *args[1])
    if op == "store": return store(args[0], args[1], args[2])
    if op == "toreal": return to_real(*args)
    if op == "trunc": return to_int(*args)
    if op == "idiv": return idiv(*args)
    if op == "imod": return imod(*args)
    return T(op, args, sort)
