"""STL model of Engine B (an assumption about libstdc++, listed in every evidence file that uses it).

std::vector<T> at address a:  size  = heap[#vsize:I](a),  data = heap[#vdata:P](a),
                              element i = mem[sort(T)](data, i);  aggregate T: address data + i.
Every operator[] / at / back / front records a side obligation `index < size` (no out-of-range access).
std::string values are opaque values of sort S; c_str()/size()/empty()/== are uninterpreted/pure.
std::map<K,V> at address a:   has(k) = select(heap[#mhas:B] (a), k),  value(k) = address  mval(a, k)  (aggregate)
                              or select(heap[#mval:sort](a), k) (scalar V).
"""
from . import terms as tm
from .terms import T
from ..core import Undecided


def elem_type(vec_type):
    """'std::vector<class species *>' -> 'species *'"""
    i = vec_type.find("<")
    inner = vec_type[i + 1: vec_type.rfind(">")].strip()
    # drop allocator argument if present
    depth = 0
    for k, ch in enumerate(inner):
        if ch == "<": depth += 1
        if ch == ">": depth -= 1
        if ch == "," and depth == 0:
            inner = inner[:k].strip()
            break
    for pre in ("class ", "struct "):
        if inner.startswith(pre):
            inner = inner[len(pre):]
    return inner


class STL(object):
    def __init__(self, executor_module):
        self.sx = executor_module
        self.side = []            # (description, path condition list, obligation term)
        self.check_bounds = True
        self.map_like = set()     # user classes derived from std::map (e.g. cxxNameDouble : std::map<std::string, double>)

    # ---------------- helpers
    def vsize(self, ex, st, a):
        return tm.select(ex.heap_arr(st, ("f", "#vsize", "I")), a)

    def vdata(self, ex, st, a):
        return tm.select(ex.heap_arr(st, ("f", "#vdata", "P")), a)

    def is_vector(self, cls):
        c = cls.replace("const ", "").strip()
        return c.startswith("std::vector<")

    def is_string(self, cls):
        c = cls.replace("const ", "").strip()
        return c in ("std::string", "std::basic_string<char>", "std::__cxx11::basic_string<char>", "string")

    def is_map(self, cls):
        c = cls.replace("const ", "").strip()
        return c.startswith("std::map<") or c in self.map_like

    def bound(self, ex, st, what, idx, size):
        if self.check_bounds:
            self.side.append((what, list(st.pc), tm.and_(tm.le(tm.num(0, "I"), idx), tm.lt(idx, size))))

    # ---------------- dispatch
    def method_handler(self, cls, method):
        if self.is_vector(cls):
            return getattr(self, "vec_" + method, None)
        if self.is_string(cls):
            return getattr(self, "str_" + method, None)
        if self.is_map(cls):
            return getattr(self, "map_" + method, None)
        return None

    def operator_handler(self, objt, opname):
        if self.is_vector(objt) and opname == "operator[]":
            return self.vec_index
        if self.is_map(objt) and opname == "operator[]":
            return self.map_index
        if self.is_string(objt) and opname in ("operator==", "operator!="):
            return self.str_eq
        if "_Rb_tree_iterator" in objt or "_Rb_tree_const_iterator" in objt or "::iterator" in objt:
            if opname == "operator==":
                return lambda ex, st, n, name, an: self.iter_eq(ex, st, n, name, an, False)
            if opname == "operator!=":
                return lambda ex, st, n, name, an: self.iter_eq(ex, st, n, name, an, True)
            if opname in ("operator->", "operator*"):
                return self.iter_arrow
            if opname == "operator=":
                return self.iter_assign
        return None

    def iter_assign(self, ex, st, n, name, arg_nodes):
        out = []
        rhs = arg_nodes[1]
        vals = [(s1, ex.load(s1, l, "P")) for s1, l in ex.lv(rhs, st)] if rhs.get("valueCategory") == "lvalue" and rhs.get("kind") == "DeclRefExpr" else ex.ev(rhs, st)
        for s1, v in vals:
            for s2, l in ex.lv(arg_nodes[0], s1):
                ex.store(s2, l, v, "P")
                out.append((s2, v))
        return out

    def iter_arrow(self, ex, st, n, name, arg_nodes):
        out = []
        if arg_nodes[0].get("valueCategory") == "lvalue":
            vals = [(s1, ex.load(s1, l, "P")) for s1, l in ex.lv(arg_nodes[0], st)]
        else:
            vals = ex.ev(arg_nodes[0], st)
        for s1, it in vals:
            out.append((s1, tm.app("mnode", (it,), "P")))
        return out

    # ---------------- vector
    def vec_size(self, ex, st, n, name, recv, args):
        return [(st, self.vsize(ex, st, recv))]

    def vec_empty(self, ex, st, n, name, recv, args):
        return [(st, tm.eq(self.vsize(ex, st, recv), tm.num(0, "I")))]

    def vec_index(self, ex, st, n, name, arg_nodes):
        out = []
        objn, idxn = arg_nodes[0], arg_nodes[1]
        et = elem_type(self.sx.strip_type(ex.qt(objn)))
        for s1, l in ex.lv(objn, st):
            a = ex.address(s1, l)
            for s2, i in ex.ev(idxn, s1):
                i = ex.coerce(i, "I")
                self.bound(ex, s2, "vector operator[] (%s)" % et, i, self.vsize(ex, s2, a))
                out.append((s2, self._elem_addr(ex, s2, a, i, et)))
        return out

    def _elem_addr(self, ex, st, a, i, et):
        d = self.vdata(ex, st, a)
        if tm.isnum(i) and i.args[0] == 0:
            return d
        return T("+", (d, i), "P")

    def vec_at(self, ex, st, n, name, recv, args):
        i = ex.coerce(args[0], "I")
        self.bound(ex, st, "vector at()", i, self.vsize(ex, st, recv))
        return [(st, self._elem_addr(ex, st, recv, i, ""))]

    def vec_back(self, ex, st, n, name, recv, args):
        sz = self.vsize(ex, st, recv)
        i = tm.sub(sz, tm.num(1, "I"))
        self.bound(ex, st, "vector back()", i, sz)
        return [(st, self._elem_addr(ex, st, recv, i, ""))]

    def vec_clear(self, ex, st, n, name, recv, args):
        key = ("f", "#vsize", "I")
        st.heap[key] = tm.store(ex.heap_arr(st, key), (recv,), tm.num(0, "I"))
        if ex.ctx.log_stores:
            st.events.append(self.sx.Event("vector.clear", recv, [], tm.num(0, "I"), n))
        return [(st, tm.num(0, "I"))]

    def vec_resize(self, ex, st, n, name, recv, args):
        new = ex.coerce(args[0], "I")
        old = self.vsize(ex, st, recv)
        key = ("f", "#vsize", "I")
        st.heap[key] = tm.store(ex.heap_arr(st, key), (recv,), new)
        if new.op == "+" and new.args[0] is old and tm.isnum(new.args[1]) and new.args[1].args[0] == 1:
            # one default-constructed element appended: if it is itself a vector it is empty
            # (element identity is abstract: growth keeps the addresses data + i of the existing elements)
            ea = self._elem_addr(ex, st, recv, old, "")
            st.heap[key] = tm.store(st.heap[key], (ea,), tm.num(0, "I"))
        # growth default-constructs the new elements; the (possibly reallocated) data pointer is arbitrary
        st.events.append(self.sx.Event("vector.resize", recv, [old, new], tm.num(0, "I"), n))
        return [(st, tm.num(0, "I"))]

    def vec_reserve(self, ex, st, n, name, recv, args):
        return [(st, tm.num(0, "I"))]

    def vec_push_back(self, ex, st, n, name, recv, args):
        old = self.vsize(ex, st, recv)
        key = ("f", "#vsize", "I")
        st.heap[key] = tm.store(ex.heap_arr(st, key), (recv,), tm.add(old, tm.num(1, "I")))
        st.events.append(self.sx.Event("vector.push_back", recv, [old] + list(args), tm.num(0, "I"), n))
        return [(st, tm.num(0, "I"))]

    # ---------------- map<K,V> with scalar V: has / val / size components keyed by (map address, key)
    def is_map_scalar(self, cls):
        return self.is_map(cls)

    def mkey(self, ex, k):
        return k if k.sort == "S" or k.sort == "I" else ex.coerce(k, "S")

    def mhas(self, ex, st, a, k):
        return tm.select(ex.heap_arr(st, ("m2", "#mhas", "B", k.sort)), a, k)

    def map_size(self, ex, st, n, name, recv, args):
        return [(st, tm.select(ex.heap_arr(st, ("f", "#msize", "I")), recv))]

    def map_find(self, ex, st, n, name, recv, args):
        k = self.mkey(ex, args[0])
        return [(st, tm.app("miter", (recv, k), "P"))]

    def map_end(self, ex, st, n, name, recv, args):
        return [(st, tm.app("mend", (recv,), "P"))]

    def map_clear(self, ex, st, n, name, recv, args):
        st.events.append(self.sx.Event("map.clear", recv, [], tm.num(0, "I"), n))
        key = ("f", "#msize", "I")
        st.heap[key] = tm.store(ex.heap_arr(st, key), (recv,), tm.num(0, "I"))
        return [(st, tm.num(0, "I"))]

    def map_insert(self, ex, st, n, name, recv, args):
        p = args[0]
        if not (p.op == "app" and p.args[0] == "pair"):
            raise Undecided("map::insert of a non-pair argument")
        k, v = self.mkey(ex, p.args[1]), p.args[2]
        has = self.mhas(ex, st, recv, k)
        # insert does nothing when the key is present; contracts using insert establish absence first
        st.events.append(self.sx.Event("map.insert", recv, [k, v, has], tm.num(0, "I"), n))
        hk = ("m2", "#mhas", "B", k.sort)
        st.heap[hk] = tm.store(ex.heap_arr(st, hk), (recv, k), tm.TRUE)
        vk = ("m2", "#mval", v.sort, k.sort)
        old = tm.select(ex.heap_arr(st, vk), recv, k)
        st.heap[vk] = tm.store(ex.heap_arr(st, vk), (recv, k), tm.ite(has, old, v))
        sk = ("f", "#msize", "I")
        osz = tm.select(ex.heap_arr(st, sk), recv)
        st.heap[sk] = tm.store(ex.heap_arr(st, sk), (recv,), tm.ite(has, osz, tm.add(osz, tm.num(1, "I"))))
        return [(st, tm.num(0, "I"))]

    def mobj(self, a, k):
        """address of the mapped object of key k in map a (stable per key; == &it->second for it = find(k))"""
        return tm.app("fld:second", (tm.app("mnode", (tm.app("miter", (a, k), "P"),), "P"),), "P")

    def map_index(self, ex, st, n, name, arg_nodes):
        """m[k]: reference to the mapped value, default-inserting k when absent"""
        out = []
        for s1, l in ex.lv(arg_nodes[0], st):
            a = ex.address(s1, l)
            for s2, kk in ex.ev(arg_nodes[1], s1):
                k = self.mkey(ex, kk)
                has = self.mhas(ex, s2, a, k)
                hk = ("m2", "#mhas", "B", k.sort)
                s2.heap[hk] = tm.store(ex.heap_arr(s2, hk), (a, k), tm.TRUE)
                sk = ("f", "#msize", "I")
                osz = tm.select(ex.heap_arr(s2, sk), a)
                s2.heap[sk] = tm.store(ex.heap_arr(s2, sk), (a,), tm.ite(has, osz, tm.add(osz, tm.num(1, "I"))))
                s2.events.append(self.sx.Event("map.operator[]", a, [k, has], tm.num(0, "I"), n))
                out.append((s2, self.mobj(a, k)))
        return out

    def map_erase(self, ex, st, n, name, recv, args):
        k = self.mkey(ex, args[0])
        hk = ("m2", "#mhas", "B", k.sort)
        st.heap[hk] = tm.store(ex.heap_arr(st, hk), (recv, k), tm.FALSE)
        st.events.append(self.sx.Event("map.erase", recv, [k], tm.num(0, "I"), n))
        return [(st, tm.num(0, "I"))]

    def iter_eq(self, ex, st, n, name, arg_nodes, negate=False):
        out = []
        for s1, a in ex.ev(arg_nodes[0], st) if arg_nodes[0].get("valueCategory") != "lvalue" else [(s, ex.load(s, l, "P")) for s, l in ex.lv(arg_nodes[0], st)]:
            for s2, b in ex.ev(arg_nodes[1], s1) if arg_nodes[1].get("valueCategory") != "lvalue" else [(s, ex.load(s, l, "P")) for s, l in ex.lv(arg_nodes[1], s1)]:
                it, en = (a, b) if (b.op == "app" and b.args[0] == "mend") else (b, a)
                if it.op == "app" and it.args[0] == "miter" and en.op == "app" and en.args[0] == "mend":
                    r = tm.not_(self.mhas(ex, s2, it.args[1], it.args[2]))
                else:
                    r = tm.eq(a, b)
                out.append((s2, tm.not_(r) if negate else r))
        return out

    # ---------------- string (opaque values)
    def str_c_str(self, ex, st, n, name, recv, args):
        v = ex.load(st, ex.deref(st, recv), "S") if recv.sort == "P" else recv
        return [(st, tm.app("c_str", (v,), "P"))]

    def str_size(self, ex, st, n, name, recv, args):
        v = ex.load(st, ex.deref(st, recv), "S") if recv.sort == "P" else recv
        return [(st, tm.app("strlen", (v,), "I"))]

    str_length = str_size

    def _sval(self, ex, st, recv):
        return ex.load(st, ex.deref(st, recv), "S") if recv.sort == "P" else recv

    def str_substr(self, ex, st, n, name, recv, args):
        """std::string::substr(pos, n): throws std::out_of_range unless pos <= size() (recorded as a side obligation)"""
        v = self._sval(ex, st, recv)
        pos = ex.coerce(args[0], "I") if args else tm.num(0, "I")
        size = tm.app("strlen", (v,), "I")
        self.side.append(("std::string::substr pos <= size()", list(st.pc), tm.le(pos, size)))
        return [(st, tm.app("substr", tuple([v, pos] + [ex.coerce(a, "I") for a in args[1:]]), "S"))]

    def str_empty(self, ex, st, n, name, recv, args):
        v = ex.load(st, ex.deref(st, recv), "S") if recv.sort == "P" else recv
        return [(st, tm.eq(tm.app("strlen", (v,), "I"), tm.num(0, "I")))]

    def str_eq(self, ex, st, n, name, arg_nodes):
        raise Undecided("string comparison operator not modelled")
