"""STL model of Engine B (an assumption about libstdc++, listed in every evidence file that uses it).

std::vector<T> at address a:  size  = heap[#vsize:I](a),  data = heap[#vdata:P](a),
                              element i = mem[sort(T)](data, i);  aggregate T: address data + i.
Every operator[] / at / back / front records a side obligation `index < size` (no out-of-range access).
std::string values are opaque values of sort S; c_str()/size()/empty()/== are uninterpreted/pure.
std::map<K,V> at address a:   has(k) = select(heap[#mhas:B] (a), k),  value(k) = address  mval(a, k)  (aggregate)
                              or select(heap[#mval:sort](a), k) (scalar V).
"""
from . import terms as tm
from .terms import T
from ..core import Undecided


def elem_type(vec_type):
    """'std::vector<class species *>' -> 'species *'"""
    i = vec_type.find("<")
    inner = vec_type[i + 1: vec_type.rfind(">")].strip()
    # drop allocator argument if present
    depth = 0
    for k, ch in enumerate(inner):
        if ch == "<": depth += 1
        if ch == ">": depth -= 1
        if ch == "," and depth == 0:
            inner = inner[:k].strip()
            break
    for pre in ("class ", "struct "):
        if inner.startswith(pre):
            inner = inner[len(pre):]
    return inner


class STL(object):
    def __init__(self, executor_module):
        self.sx = executor_module
        self.side = []            # (description, path condition list, obligation term)
        self.check_bounds = True

    # ---------------- helpers
    def vsize(self, ex, st, a):
        return tm.select(ex.heap_arr(st, ("f", "#vsize", "I")), a)

    def vdata(self, ex, st, a):
        return tm.select(ex.heap_arr(st, ("f", "#vdata", "P")), a)

    def is_vector(self, cls):
        c = cls.replace("const ", "").strip()
        return c.startswith("std::vector<")

    def is_string(self, cls):
        c = cls.replace("const ", "").strip()
        return c in ("std::string", "std::basic_string<char>", "std::__cxx11::basic_string<char>", "string")

    def is_map(self, cls):
        c = cls.replace("const ", "").strip()
        return c.startswith("std::map<")

    def bound(self, ex, st, what, idx, size):
        if self.check_bounds:
            self.side.append((what, list(st.pc), tm.and_(tm.le(tm.num(0, "I"), idx), tm.lt(idx, size))))

    # ---------------- dispatch
    def method_handler(self, cls, method):
        if self.is_vector(cls):
            return getattr(self, "vec_" + method, None)
        if self.is_string(cls):
            return getattr(self, "str_" + method, None)
        return None

    def operator_handler(self, objt, opname):
        if self.is_vector(objt) and opname == "operator[]":
            return self.vec_index
        if self.is_string(objt) and opname in ("operator==", "operator!="):
            return self.str_eq
        return None

    # ---------------- vector
    def vec_size(self, ex, st, n, name, recv, args):
        return [(st, self.vsize(ex, st, recv))]

    def vec_empty(self, ex, st, n, name, recv, args):
        return [(st, tm.eq(self.vsize(ex, st, recv), tm.num(0, "I")))]

    def vec_index(self, ex, st, n, name, arg_nodes):
        out = []
        objn, idxn = arg_nodes[0], arg_nodes[1]
        et = elem_type(self.sx.strip_type(ex.qt(objn)))
        for s1, l in ex.lv(objn, st):
            a = ex.address(s1, l)
            for s2, i in ex.ev(idxn, s1):
                i = ex.coerce(i, "I")
                self.bound(ex, s2, "vector operator[] (%s)" % et, i, self.vsize(ex, s2, a))
                out.append((s2, self._elem_addr(ex, s2, a, i, et)))
        return out

    def _elem_addr(self, ex, st, a, i, et):
        d = self.vdata(ex, st, a)
        if tm.isnum(i) and i.args[0] == 0:
            return d
        return T("+", (d, i), "P")

    def vec_at(self, ex, st, n, name, recv, args):
        i = ex.coerce(args[0], "I")
        self.bound(ex, st, "vector at()", i, self.vsize(ex, st, recv))
        return [(st, self._elem_addr(ex, st, recv, i, ""))]

    def vec_back(self, ex, st, n, name, recv, args):
        sz = self.vsize(ex, st, recv)
        i = tm.sub(sz, tm.num(1, "I"))
        self.bound(ex, st, "vector back()", i, sz)
        return [(st, self._elem_addr(ex, st, recv, i, ""))]

    def vec_clear(self, ex, st, n, name, recv, args):
        key = ("f", "#vsize", "I")
        st.heap[key] = tm.store(ex.heap_arr(st, key), (recv,), tm.num(0, "I"))
        if ex.ctx.log_stores:
            st.events.append(self.sx.Event("vector.clear", recv, [], tm.num(0, "I"), n))
        return [(st, tm.num(0, "I"))]

    # ---------------- string (opaque values)
    def str_c_str(self, ex, st, n, name, recv, args):
        v = ex.load(st, ex.deref(st, recv), "S") if recv.sort == "P" else recv
        return [(st, tm.app("c_str", (v,), "P"))]

    def str_size(self, ex, st, n, name, recv, args):
        v = ex.load(st, ex.deref(st, recv), "S") if recv.sort == "P" else recv
        return [(st, tm.app("strlen", (v,), "I"))]

    str_length = str_size

    def str_empty(self, ex, st, n, name, recv, args):
        v = ex.load(st, ex.deref(st, recv), "S") if recv.sort == "P" else recv
        return [(st, tm.eq(tm.app("strlen", (v,), "I"), tm.num(0, "I")))]

    def str_eq(self, ex, st, n, name, arg_nodes):
        raise Undecided("string comparison operator not modelled")
