"""Named constants read from the repository headers (so contracts refer to them by name)."""
import re, os
from fractions import Fraction
from ..core import REPO, Undecided

def define_value(rel, name):
    txt = open(os.path.join(REPO, rel)).read()
    m = re.search(r"^\s*#\s*define\s+%s\s+([-+0-9.eE]+)" % re.escape(name), txt, re.M)
    if not m:
        raise Undecided("#define %s not found in %s" % (name, rel))
    return Fraction(repr(float(m.group(1))))
