"""Path-wise symbolic executor over clang's JSON AST (Engine B core).

Values are terms (terms.py).  Memory is component-as-array (Burstall-Bornat):
one array per (field name, sort) from object address to value, one array per
element sort from (base address, index) to value.  Doubles are mathematical
reals, integers mathematical.  Calls without a handler/contract become events
on a ghost trace with a havocked result (and a havocked heap unless declared
pure).  A node kind outside the accepted list makes the unit undecided.
"""
import itertools
from fractions import Fraction
from . import terms as tm
from .terms import T
from ..core import Undecided

_counter = itertools.count()

MATH_PURE = {"log10", "log", "exp", "sqrt", "pow", "fabs", "sinh", "cosh", "tanh", "floor", "ceil", "log1p", "erfc", "atan", "sin", "cos", "fmod", "acos"}

REAL_T = ("double", "float", "long double", "LDBLE")
INT_T = ("int", "long", "unsigned int", "unsigned long", "short", "unsigned short", "char", "signed char", "unsigned char",
         "size_t", "long long", "unsigned long long", "std::size_t", "ptrdiff_t", "unsigned", "wchar_t",
         "std::basic_string<char>::size_type", "std::string::size_type", "size_type")
STRING_T = ("std::string", "std::basic_string<char>", "string", "const std::string", "std::__cxx11::basic_string<char>")


def strip_type(q):
    q = q.strip()
    changed = True
    while changed:
        changed = False
        for pre in ("const ", "volatile ", "struct ", "class ", "enum "):
            if q.startswith(pre):
                q = q[len(pre):]; changed = True
        for suf in (" const", " &", "&&", "&", " volatile"):
            if q.endswith(suf):
                q = q[:-len(suf)].strip(); changed = True
    return q


def sort_of(q):
    q = strip_type(q)
    if q.endswith("*") or q.endswith("]") or q.endswith(")") or "(*)" in q:
        return "P"
    if q in REAL_T:
        return "R"
    if q in ("bool", "_Bool"):
        return "B"
    if q in INT_T:
        return "I"
    if q in STRING_T:
        return "S"
    if "iterator" in q:
        return "P"
    return "I"      # enums and typedef'd integers; record types never reach sort_of through a load


def is_record_type(q, ctx=None):
    q = strip_type(q)
    if q.endswith("*"):
        return False
    if q in REAL_T or q in INT_T or q in ("bool", "_Bool", "void"):
        return False
    if q in STRING_T:
        return False
    if ctx is not None and q in ctx.enum_types:
        return False
    if "iterator" in q:
        return False           # iterators are values (a position), not objects with fields
    if "::" in q and "<" not in q and q.split("::")[-1].replace("_", "").isupper():
        return False           # nested enumeration types (cxxGasPhase::GP_TYPE, cxxSurface::DIFFUSE_LAYER_TYPE, ...)
    if q.endswith("]"):
        return True
    return q.startswith(("std::", "cxx", "CVar", "CSelectedOutput", "class ", "struct ")) or (ctx is not None and q in ctx.record_types)


class Event(object):
    __slots__ = ("name", "recv", "args", "result", "node", "guard", "snap")
    def __init__(self, name, recv, args, result, node=None, guard=None):
        self.name, self.recv, self.args, self.result, self.node = name, recv, tuple(args), result, node
        self.guard = guard if guard is not None else tm.TRUE
        self.snap = None
    def __repr__(self):
        return "%s(%s%s)->%r" % (self.name, ("recv=%r; " % self.recv) if self.recv is not None else "", ", ".join(map(repr, self.args)), self.result)


class State(object):
    def __init__(self):
        self.pc = []
        self.locals = {}
        self.heap = {}
        self.events = []
        self.status = "run"
        self.ret = None
        self.notes = []
        self.hprefix = "H0"

    def clone(self):
        s = State.__new__(State)
        s.pc = list(self.pc); s.locals = dict(self.locals); s.heap = dict(self.heap)
        s.events = list(self.events); s.status = self.status; s.ret = self.ret; s.notes = list(self.notes); s.hprefix = self.hprefix
        return s

    def assume(self, c):
        if c is tm.TRUE:
            return True
        if c is tm.FALSE:
            self.status = "dead"
            return False
        if c in self.pc:
            return True
        if tm.not_(c) in self.pc:
            self.status = "dead"
            return False
        if c.op == "and":
            for x in c.args:
                if not self.assume(x):
                    return False
            return True
        self.pc.append(c)
        return True


class Ctx(object):
    """Per-unit configuration of the executor."""
    def __init__(self):
        self.handlers = {}        # callee name -> fn(ex, st, node, name, recv, args) -> list[(st, val)]
        self.pure = set(MATH_PURE)  # callees that do not write memory
        self.loop = None          # fn(ex, st, node, ordinal) -> list[State] | None
        self.enum_types = set()
        self.record_types = set()
        self.enum_values = {}     # name -> int (optional; otherwise enumerators are named symbols)
        self.this = tm.sym("this", "P")
        self.max_paths = 4000
        self.initial_heap_prefix = "H0"
        self.try_body_only = True
        self.stl = None           # stl model object (optional)
        self.accepted_extra = set()
        self.on_unknown_call = None
        self.assume_no_overflow = True
        self.string_literals_as_ptr = True
        self.global_sorts = {}
        self.log_stores = False   # append Event("store", ...) for every write to heap memory
        self.snapshot = {}        # callee short name -> [(field, sort)] members of `this` whose values are recorded at the call
        self.functional = set()   # callees whose result is a deterministic function of receiver and arguments (and that write nothing)
        self.merge_ifs = False    # join the two branches of an if into one state (values become ite terms)


def fresh(prefix, sort):
    return tm.sym("%s!%d" % (prefix, next(_counter)), sort)


class Exec(object):
    def __init__(self, ctx):
        self.ctx = ctx
        self.loop_ordinal = 0
        self.kinds_seen = set()
        self.npaths = 0

    # ------------------------------------------------------------ memory
    def heap_arr(self, st, key):
        a = st.heap.get(key)
        if a is None:
            if key[0] == "f":
                a = tm.sym("%s.%s:%s" % (st.hprefix, key[1], key[2]), ("A", "P", key[2]))
            elif key[0] == "m2":
                a = tm.sym("%s.%s:%s[%s]" % (st.hprefix, key[1], key[2], key[3]), ("A", "P", key[3], key[2]))
            else:
                a = tm.sym("%s.mem:%s" % (st.hprefix, key[1]), ("A", "P", "I", key[1]))
            st.heap[key] = a
        return a

    def _mapnode(self, lv, sort):
        """(*it).second / it->second of a map iterator miter(map, key) designates the mapped value of key"""
        if lv[0] == "field" and lv[1] == "second" and lv[2].op == "app" and lv[2].args[0] == "mnode":
            it = lv[2].args[1]
            if it.op == "app" and it.args[0] == "miter":
                return ("m2", "#mval", sort, it.args[2].sort), it.args[1], it.args[2]
        return None

    def load(self, st, lv, sort):
        mn = self._mapnode(lv, sort)
        if mn is not None:
            return tm.select(self.heap_arr(st, mn[0]), mn[1], mn[2])
        k = lv[0]
        if k == "local":
            v = st.locals.get(lv[1])
            if v is None:
                v = fresh("uninit_" + str(lv[2]), sort)
                st.locals[lv[1]] = v
            if isinstance(v, tuple):
                if v[0] == "ref":
                    return self.load(st, v[1], sort)
                if v[0] == "obj":
                    return tm.select(self.heap_arr(st, ("m", sort)), v[1], tm.num(0, "I"))
            return self.coerce(v, sort)
        if k == "field":
            return tm.select(self.heap_arr(st, ("f", lv[1], sort)), lv[2])
        if k == "elem":
            return tm.select(self.heap_arr(st, ("m", sort)), lv[1], lv[2])
        if k == "global":
            v = st.locals.get(("g", lv[1]))
            if v is None:
                v = tm.sym("G." + lv[1], sort)
            return self.coerce(v, sort)
        if k == "value":      # a temporary
            return self.coerce(lv[1], sort)
        raise Undecided("load from %r" % (lv,))

    def store(self, st, lv, val, sort):
        val = self.coerce(val, sort)
        mn = self._mapnode(lv, sort)
        if mn is not None:
            st.heap[mn[0]] = tm.store(self.heap_arr(st, mn[0]), (mn[1], mn[2]), val)
            if self.ctx.log_stores:
                st.events.append(Event("store", mn[1], [mn[2], val], val))
            return
        k = lv[0]
        if k == "local":
            v = st.locals.get(lv[1])
            if isinstance(v, tuple) and v[0] == "ref":
                return self.store(st, v[1], val, sort)
            if isinstance(v, tuple) and v[0] == "obj":
                key = ("m", sort)
                st.heap[key] = tm.store(self.heap_arr(st, key), (v[1], tm.num(0, "I")), val)
                return
            st.locals[lv[1]] = val
            return
        if k == "field":
            key = ("f", lv[1], sort)
            st.heap[key] = tm.store(self.heap_arr(st, key), (lv[2],), val)
            if self.ctx.log_stores:
                st.events.append(Event("store", lv[2], [tm.strc(lv[1]), val], val))
            return
        if k == "elem":
            key = ("m", sort)
            st.heap[key] = tm.store(self.heap_arr(st, key), (lv[1], lv[2]), val)
            if self.ctx.log_stores:
                st.events.append(Event("store", lv[1], [lv[2], val], val))
            return
        if k == "global":
            st.locals[("g", lv[1])] = val
            return
        raise Undecided("store to %r" % (lv,))

    def address(self, st, lv):
        k = lv[0]
        if k == "local":
            v = st.locals.get(lv[1])
            if isinstance(v, tuple) and v[0] == "obj":
                return v[1]
            if isinstance(v, tuple) and v[0] == "ref":
                return self.address(st, v[1])
            raise Undecided("address of local '%s' that was not pre-allocated" % lv[2])
        if k == "field":
            return tm.app("fld:" + lv[1], (lv[2],), "P")
        if k == "elem":
            if tm.isnum(lv[2]) and lv[2].args[0] == 0:
                return lv[1]
            return tm.add(lv[1], lv[2]) if lv[1].sort == "P" else lv[1]
        if k == "global":
            return tm.sym("&G." + lv[1], "P")
        if k == "value":
            return lv[1] if lv[1].sort == "P" else tm.app("tmpaddr", (lv[1],), "P")
        raise Undecided("address of %r" % (lv,))

    def deref(self, st, p):
        """lvalue designated by pointer value p"""
        if p.op == "app" and p.args[0].startswith("fld:"):
            return ("field", p.args[0][4:], p.args[1])
        if p.op == "+" and p.sort == "P":
            b, i = p.args
            if b.sort != "P":
                b, i = i, b
            return ("elem", b, i)
        return ("elem", p, tm.num(0, "I"))

    def coerce(self, v, sort):
        if isinstance(v, tuple):
            raise Undecided("aggregate used as scalar")
        if v.sort == sort:
            return v
        if sort == "R":
            return tm.to_real(v)
        if sort == "I":
            return tm.to_int(v)
        if sort == "B":
            return tm.to_bool(v)
        if sort == "P":
            if tm.isnum(v):
                return tm.num(v.args[0], "P")
            if v.sort == "I":
                return T("itop", (v,), "P")
            return v
        if sort == "S":
            return v if v.sort == "S" else tm.app("string_of", (v,), "S")
        return v

    def havoc_heap(self, st, why=""):
        for key in list(st.heap.keys()):
            st.heap[key] = None
        newh = {}
        tag = next(_counter)
        for key in st.heap:
            if key[0] == "f":
                newh[key] = tm.sym("H%d.%s:%s" % (tag, key[1], key[2]), ("A", "P", key[2]))
            elif key[0] == "m2":
                newh[key] = tm.sym("H%d.%s:%s[%s]" % (tag, key[1], key[2], key[3]), ("A", "P", key[3], key[2]))
            else:
                newh[key] = tm.sym("H%d.mem:%s" % (tag, key[1]), ("A", "P", "I", key[1]))
        st.heap = newh
        # future first reads of untouched components must also be fresh:
        st.hprefix = "H%d" % tag

    # ------------------------------------------------------------ expressions
    def ev(self, n, st):
        """rvalue evaluation -> list of (state, term)"""
        k = n.get("kind")
        self.kinds_seen.add(k)
        m = getattr(self, "ev_" + k, None)
        if m is None:
            raise Undecided("node-outside-subset:%s" % k)
        return m(n, st)

    def lv(self, n, st):
        """lvalue evaluation -> list of (state, lvalue)"""
        k = n.get("kind")
        self.kinds_seen.add(k)
        m = getattr(self, "lv_" + k, None)
        if m is None:
            # an rvalue used where an lvalue is needed (temporaries)
            return [(s, ("value", v)) for s, v in self.ev(n, st)]
        return m(n, st)

    def qt(self, n):
        t = n.get("type", {})
        return t.get("desugaredQualType") or t.get("qualType", "int")

    # literals
    def ev_IntegerLiteral(self, n, st):
        return [(st, tm.num(int(n["value"]), "I"))]

    def ev_FloatingLiteral(self, n, st):
        return [(st, tm.num(Fraction(repr(float(n["value"]))), "R"))]

    def ev_CXXBoolLiteralExpr(self, n, st):
        return [(st, tm.TRUE if n.get("value") else tm.FALSE)]

    def ev_CharacterLiteral(self, n, st):
        return [(st, tm.num(int(n["value"]), "I"))]

    def ev_GNUNullExpr(self, n, st):
        return [(st, tm.NULL)]

    def ev_CXXNullPtrLiteralExpr(self, n, st):
        return [(st, tm.NULL)]

    def ev_StringLiteral(self, n, st):
        s = n.get("value", "")
        return [(st, tm.strc(s))]

    def ev_ParenExpr(self, n, st):
        return self.ev(n["inner"][0], st)

    def lv_ParenExpr(self, n, st):
        return self.lv(n["inner"][0], st)

    def ev_ConstantExpr(self, n, st):
        if "value" in n:
            try:
                return [(st, tm.num(int(n["value"]), "I"))]
            except ValueError:
                pass
        return self.ev(n["inner"][0], st)

    def ev_ExprWithCleanups(self, n, st):
        return self.ev(n["inner"][0], st)

    def lv_ExprWithCleanups(self, n, st):
        return self.lv(n["inner"][0], st)

    def ev_MaterializeTemporaryExpr(self, n, st):
        return self.ev(n["inner"][0], st)

    def lv_MaterializeTemporaryExpr(self, n, st):
        return [(s, ("value", v)) for s, v in self.ev(n["inner"][0], st)]

    def ev_CXXBindTemporaryExpr(self, n, st):
        return self.ev(n["inner"][0], st)

    def ev_CXXDefaultArgExpr(self, n, st):
        return [(st, fresh("defaultarg", sort_of(self.qt(n))))]

    def ev_CXXThisExpr(self, n, st):
        return [(st, self.ctx.this)]

    SIZEOF = {"char": 1, "signed char": 1, "unsigned char": 1, "bool": 1, "short": 2, "int": 4, "unsigned int": 4, "float": 4,
              "long": 8, "unsigned long": 8, "double": 8, "long long": 8, "size_t": 8}       # LP64 (x86-64 Linux), as in the build

    def ev_UnaryExprOrTypeTraitExpr(self, n, st):
        q = n.get("argType", {}).get("desugaredQualType") or n.get("argType", {}).get("qualType")
        if q is None and n.get("inner"):
            q = self.qt(n["inner"][0])
        if n.get("name") == "sizeof" and q:
            qq = strip_type(q)
            if qq in self.SIZEOF:
                return [(st, tm.num(self.SIZEOF[qq], "I"))]
            if qq.endswith("*"):
                return [(st, tm.num(8, "I"))]
            import re as _re
            m = _re.match(r"^(.*?)\s*\[(\d+)\]$", qq)
            if m and strip_type(m.group(1)) in self.SIZEOF:
                return [(st, tm.num(self.SIZEOF[strip_type(m.group(1))] * int(m.group(2)), "I"))]
        return [(st, tm.app("sizeof", (tm.strc(str(q)),), "I"))]

    def ev_CXXConstructExpr(self, n, st):
        inner = [c for c in n.get("inner", []) if c.get("kind") != "CXXDefaultArgExpr"]
        q = strip_type(self.qt(n))
        if len(inner) == 1:
            if q in STRING_T:
                return [(s, self.coerce(v, "S")) for s, v in self.ev(inner[0], st)]
            return self.ev(inner[0], st)
        if len(inner) == 0:
            if q in STRING_T:
                return [(st, tm.strc(""))]
            return [(st, fresh("ctor_" + q.replace(" ", "_"), "P"))]
        if self.ctx.handlers.get("ctor:" + q):
            return self.ctx.handlers["ctor:" + q](self, st, n)
        out = []
        if q.startswith("std::pair<") and len(inner) == 2:
            for s2, args in self.ev_args(inner, st):
                out.append((s2, tm.app("pair", tuple(args), "P")))
            return out
        for s2, args in self.ev_args(inner, st):
            obj = fresh("ctor_" + q.replace(" ", "_").replace("<", "_").replace(">", "_"), "P")
            s2.events.append(Event("ctor " + q, obj, args, tm.num(0, "I"), n))
            out.append((s2, obj))
        return out

    ev_CXXTemporaryObjectExpr = ev_CXXConstructExpr

    def ev_CXXFunctionalCastExpr(self, n, st):
        return self.cast(n, st)

    def ev_CStyleCastExpr(self, n, st):
        return self.cast(n, st)

    def ev_CXXStaticCastExpr(self, n, st):
        return self.cast(n, st)

    def ev_CXXConstCastExpr(self, n, st):
        return self.ev(n["inner"][0], st)

    def ev_ImplicitCastExpr(self, n, st):
        return self.cast(n, st)

    def lv_ImplicitCastExpr(self, n, st):
        ck = n.get("castKind")
        if ck in ("NoOp", "DerivedToBase", "UncheckedDerivedToBase", "LValueBitCast"):
            return self.lv(n["inner"][0], st)
        return [(s, ("value", v)) for s, v in self.ev(n, st)]

    def lv_CStyleCastExpr(self, n, st):
        return self.lv(n["inner"][0], st)

    def cast(self, n, st):
        ck = n.get("castKind")
        c = n["inner"][0]
        q = self.qt(n)
        if ck == "LValueToRValue":
            so = sort_of(q)
            if is_record_type(q, self.ctx):
                return [(s, self.address(s, l)) for s, l in self.lv(c, st)]
            return [(s, self.load(s, l, so)) for s, l in self.lv(c, st)]
        if ck in ("ArrayToPointerDecay",):
            if c.get("kind") == "StringLiteral":
                return self.ev(c, st)
            return [(s, self.address(s, l)) for s, l in self.lv(c, st)]
        if ck in ("FunctionToPointerDecay", "BuiltinFnToFnPtr"):
            return [(st, tm.strc("fn:" + self.callee_name(c)))]
        if ck in ("NoOp", "DerivedToBase", "UncheckedDerivedToBase", "BaseToDerived", "BitCast", "ConstructorConversion", "UserDefinedConversion"):
            return self.ev(c, st)
        if ck in ("IntegralToFloating",):
            return [(s, tm.to_real(self.coerce(v, "I") if v.sort == "B" else v)) for s, v in self.ev(c, st)]
        if ck in ("FloatingToIntegral",):
            return [(s, tm.to_int(v)) for s, v in self.ev(c, st)]
        if ck in ("FloatingCast",):
            return self.ev(c, st)
        if ck in ("IntegralCast",):
            out_ = []
            tq = (n.get("type", {}).get("desugaredQualType") or q or "").replace("const ", "").strip()
            sq = ((c.get("type", {}) or {}).get("desugaredQualType") or (c.get("type", {}) or {}).get("qualType") or "").replace("const ", "").strip()
            wrap64 = getattr(self.ctx, "model_unsigned", False) and tq in ("unsigned long", "unsigned long long", "size_t") and sq in ("long", "int", "long long", "short", "integertype")
            for s, v in self.ev(c, st):
                v = self.coerce(v, "I") if v.sort in ("B", "R") else v
                if wrap64 and not tm.isnum(v):
                    # conversion of a signed value to a 64-bit unsigned type: negative values wrap to 2^64 + v
                    v = tm.ite(tm.lt(v, tm.num(0, "I")), v + tm.num(2 ** 64, "I"), v)
                out_.append((s, v))
            return out_
        if ck in ("IntegralToBoolean", "FloatingToBoolean", "PointerToBoolean"):
            return [(s, tm.to_bool(v)) for s, v in self.ev(c, st)]
        if ck in ("NullToPointer",):
            return [(st, tm.NULL)]
        if ck in ("PointerToIntegral",):
            return [(s, tm.to_int(v)) for s, v in self.ev(c, st)]
        if ck in ("IntegralToPointer",):
            return [(s, self.coerce(v, "P")) for s, v in self.ev(c, st)]
        if ck in ("ToVoid",):
            return self.ev(c, st)
        raise Undecided("cast kind %s" % ck)

    # references
    def lv_DeclRefExpr(self, n, st):
        rd = n["referencedDecl"]
        kind = rd.get("kind")
        if kind in ("VarDecl", "ParmVarDecl"):
            did = rd["id"]
            if did in st.locals or did in self.local_ids:
                v = st.locals.get(did)
                if isinstance(v, tuple) and v[0] == "ref":
                    return [(st, v[1])]
                return [(st, ("local", did, rd.get("name")))]
            return [(st, ("global", rd.get("name")))]
        if kind == "EnumConstantDecl":
            return [(st, ("value", self.enum_const(rd)))]
        if kind in ("FunctionDecl", "CXXMethodDecl"):
            return [(st, ("value", tm.strc("fn:" + rd.get("name"))))]
        if kind == "FieldDecl":
            return [(st, ("field", rd.get("name"), self.ctx.this))]
        raise Undecided("DeclRefExpr to %s" % kind)

    def ev_DeclRefExpr(self, n, st):
        rd = n["referencedDecl"]
        if rd.get("kind") == "EnumConstantDecl":
            return [(st, self.enum_const(rd))]
        if rd.get("kind") in ("FunctionDecl", "CXXMethodDecl"):
            return [(st, tm.strc("fn:" + rd.get("name")))]
        # non-lvalue-to-rvalue uses (e.g. references to arrays)
        out = []
        for s, l in self.lv_DeclRefExpr(n, st):
            if is_record_type(self.qt(n), self.ctx):
                out.append((s, self.address(s, l)))
            else:
                out.append((s, self.load(s, l, sort_of(self.qt(n)))))
        return out

    def enum_const(self, rd):
        self.ctx.enum_types.add(strip_type(rd.get("type", {}).get("qualType", "")))
        name = rd.get("name")
        if name in self.ctx.enum_values:
            return tm.num(self.ctx.enum_values[name], "I")
        return tm.sym("E." + name, "I")

    def lv_MemberExpr(self, n, st):
        name = n.get("name")
        base = n["inner"][0]
        out = []
        if not name:
            # anonymous struct/union member: same object (members of the anonymous aggregate are keyed by their own names)
            if n.get("isArrow"):
                return [(s, ("elem", p, tm.num(0, "I"))) for s, p in self.ev(base, st)]
            return self.lv(base, st)
        if n.get("isArrow"):
            for s, p in self.ev(base, st):
                df = getattr(self.ctx, "deref_fields", None)
                dc = getattr(self.ctx, "deref_calls", None)
                if dc and p.op == "app" and isinstance(p.args[0], str) and p.args[0].startswith("call:") and p.args[0][5:] in dc:
                    e_ = Event("deref", p, [tm.strc(p.args[0][5:] + "()"), tm.strc(name)], tm.num(0, "I"), node=n)
                    e_.snap = list(s.pc)
                    s.events.append(e_)
                if df and p.op == "select" and p.args[0].op in ("sym", "store"):
                    b_ = p.args[0]
                    while b_.op == "store":
                        b_ = b_.args[0]
                    fname = b_.args[0].split(".", 1)[-1].split(":")[0] if b_.op == "sym" else ""
                    if fname in df:
                        e_ = Event("deref", p, [tm.strc(fname), tm.strc(name)], tm.num(0, "I"), node=n)
                        e_.snap = list(s.pc)          # the facts known when the pointer is dereferenced
                        s.events.append(e_)
                out.append((s, ("field", name, p)))
        else:
            for s, l in self.lv(base, st):
                out.append((s, ("field", name, self.address(s, l))))
        return out

    def ev_MemberExpr(self, n, st):
        out = []
        for s, l in self.lv_MemberExpr(n, st):
            if is_record_type(self.qt(n), self.ctx):
                out.append((s, self.address(s, l)))
            else:
                out.append((s, self.load(s, l, sort_of(self.qt(n)))))
        return out

    def lv_ArraySubscriptExpr(self, n, st):
        out = []
        for s1, b in self.ev(n["inner"][0], st):
            for s2, i in self.ev(n["inner"][1], s1):
                if b.sort != "P" and i.sort == "P":
                    b, i = i, b
                i = self.coerce(i, "I")
                if b.op == "+" and b.sort == "P":
                    bb, k = b.args
                    if bb.sort == "P":
                        b, i = bb, tm.add(self.coerce(k, "I"), i)
                out.append((s2, ("elem", b, i)))
        return out

    def ev_ArraySubscriptExpr(self, n, st):
        out = []
        for s, l in self.lv_ArraySubscriptExpr(n, st):
            if is_record_type(self.qt(n), self.ctx):
                out.append((s, self.address(s, l)))
            else:
                out.append((s, self.load(s, l, sort_of(self.qt(n)))))
        return out

    def lv_UnaryOperator(self, n, st):
        op = n["opcode"]
        if op == "*":
            return [(s, self.deref(s, p)) for s, p in self.ev(n["inner"][0], st)]
        if op in ("++", "--") and not n.get("isPostfix"):
            out = []
            for s, v in self.ev_UnaryOperator(n, st):
                for s2, l in self.lv(n["inner"][0], s):
                    out.append((s2, l))
            return out
        return [(s, ("value", v)) for s, v in self.ev_UnaryOperator(n, st)]

    def ev_UnaryOperator(self, n, st):
        op = n["opcode"]
        c = n["inner"][0]
        if op == "-":
            return [(s, tm.neg(self.coerce(v, "I") if v.sort == "B" else v)) for s, v in self.ev(c, st)]
        if op == "+":
            return self.ev(c, st)
        if op == "!":
            return [(s, tm.not_(tm.to_bool(v))) for s, v in self.ev(c, st)]
        if op == "*":
            so = sort_of(self.qt(n))
            return [(s, self.load(s, self.deref(s, p), so)) for s, p in self.ev(c, st)]
        if op == "&":
            return [(s, self.address(s, l)) for s, l in self.lv(c, st)]
        if op in ("++", "--"):
            so = sort_of(self.qt(c))
            out = []
            for s, l in self.lv(c, st):
                old = self.load(s, l, so)
                one = tm.num(1, "I" if so != "R" else "R")
                new = tm.add(old, one) if op == "++" else tm.sub(old, one)
                if so == "P":
                    new = T(new.op, new.args, "P") if new.op in ("+", "-") else new
                self.store(s, l, new, so)
                out.append((s, old if n.get("isPostfix") else new))
            return out
        if op == "~":
            return [(s, tm.app("bitnot", (v,), "I")) for s, v in self.ev(c, st)]
        raise Undecided("unary operator %s" % op)

    def pure_expr(self, n):
        """no calls (other than pure math), assignments or increments inside"""
        k = n.get("kind")
        if k in ("CallExpr", "CXXMemberCallExpr", "CXXOperatorCallExpr"):
            name = self.callee_name(n["inner"][0]) if n.get("inner") else ""
            if name.split("::")[-1] not in self.ctx.pure and name not in self.ctx.pure:
                return False
        if k in ("CompoundAssignOperator", "CXXNewExpr", "CXXDeleteExpr", "CXXThrowExpr", "CXXConstructExpr", "CXXTemporaryObjectExpr"):
            if k in ("CXXConstructExpr", "CXXTemporaryObjectExpr") and len(n.get("inner", [])) <= 1:
                pass
            else:
                return False
        if k == "BinaryOperator" and n.get("opcode") in ("=", ","):
            return False
        if k == "UnaryOperator" and n.get("opcode") in ("++", "--"):
            return False
        return all(self.pure_expr(c) for c in n.get("inner", []) if isinstance(c, dict))

    def ev_BinaryOperator(self, n, st):
        op = n["opcode"]
        a, b = n["inner"]
        if op == "=":
            so = sort_of(self.qt(a))
            out = []
            if is_record_type(self.qt(a), self.ctx):
                h = self.ctx.handlers.get("assign:" + strip_type(self.qt(a)))
                if h:
                    return h(self, st, n)
                raise Undecided("aggregate assignment of type %s" % self.qt(a))
            for s1, v in self.ev(b, st):
                for s2, l in self.lv(a, s1):
                    self.store(s2, l, v, so)
                    out.append((s2, self.coerce(v, so)))
            return out
        if op == ",":
            out = []
            for s1, _ in self.ev(a, st):
                out.extend(self.ev(b, s1))
            return out
        if op in ("&&", "||"):
            out = []
            for s1, va in self.ev(a, st):
                ca = tm.to_bool(va)
                if self.pure_expr(b):
                    n_ev = len(s1.events)
                    stl_ = getattr(self.ctx, "stl", None)
                    n_side = len(stl_.side) if stl_ is not None and hasattr(stl_, "side") else None
                    for s2, vb in self.ev(b, s1):
                        cb = tm.to_bool(vb)
                        if n_side is not None:
                            # bounds side conditions raised by the right operand hold under the short-circuit guard only
                            g_ = ca if op == "&&" else tm.not_(ca)
                            for k_ in range(n_side, len(stl_.side)):
                                w_, pc_, ob_ = stl_.side[k_]
                                stl_.side[k_] = (w_, list(pc_) + [g_], ob_)
                            n_side = len(stl_.side)
                        # short circuit: whatever the right operand dereferences is only dereferenced when the left one lets it be evaluated
                        for e_ in s2.events[n_ev:]:
                            if e_.name == "deref" and e_.snap is not None:
                                e_.snap = list(e_.snap) + [ca if op == "&&" else tm.not_(ca)]
                        out.append((s2, tm.and_(ca, cb) if op == "&&" else tm.or_(ca, cb)))
                else:
                    need = ca if op == "&&" else tm.not_(ca)
                    sa, sb = s1.clone(), s1
                    if sa.assume(tm.not_(need)):
                        out.append((sa, tm.FALSE if op == "&&" else tm.TRUE))
                    if sb.assume(need):
                        for s2, vb in self.ev(b, sb):
                            out.append((s2, tm.to_bool(vb)))
            return out
        out = []
        for s1, va in self.ev(a, st):
            for s2, vb in self.ev(b, s1):
                out.append((s2, self.binop(op, va, vb, n)))
        return out

    def binop(self, op, a, b, n=None):
        if op in ("+", "-", "*", "/", "%"):
            if a.sort == "B": a = self.coerce(a, "I")
            if b.sort == "B": b = self.coerce(b, "I")
            if op == "+":
                r = tm.add(a, b)
            elif op == "-":
                if a.sort == "P" and b.sort == "P":
                    return tm.app("ptrdiff", (a, b), "I")
                r = tm.sub(a, b)
            elif op == "*":
                r = tm.mul(a, b)
            elif op == "/":
                if a.sort == "R" or b.sort == "R":
                    r = tm.div(tm.to_real(a), tm.to_real(b))
                else:
                    r = tm.idiv(a, b)
            else:
                r = tm.imod(a, b)
            return r
        if op in ("<", ">", "<=", ">=", "==", "!="):
            if a.sort == "B" and b.sort != "B": a = self.coerce(a, b.sort)
            if b.sort == "B" and a.sort != "B": b = self.coerce(b, a.sort)
            if a.sort == "P" and b.sort == "I" and tm.isnum(b): b = tm.num(b.args[0], "P")
            if b.sort == "P" and a.sort == "I" and tm.isnum(a): a = tm.num(a.args[0], "P")
            if op == "<": return tm.lt(a, b)
            if op == ">": return tm.lt(b, a)
            if op == "<=": return tm.le(a, b)
            if op == ">=": return tm.le(b, a)
            if op == "==": return tm.eq(a, b)
            return tm.not_(tm.eq(a, b))
        if op in ("&", "|", "^", "<<", ">>"):
            a, b = self.coerce(a, "I"), self.coerce(b, "I")
            if tm.isnum(a) and tm.isnum(b):
                x, y = int(a.args[0]), int(b.args[0])
                return tm.num({"&": x & y, "|": x | y, "^": x ^ y, "<<": x << y, ">>": x >> y}[op], "I")
            if op == "&" and tm.isnum(b) and b.args[0] == 1:
                return tm.app("emod2", (a,), "I")       # x & 1 in two's complement = x mod 2 (Euclidean)
            if op == "&" and tm.isnum(a) and a.args[0] == 1:
                return tm.app("emod2", (b,), "I")
            return tm.app({"&": "bitand", "|": "bitor", "^": "bitxor", "<<": "shl", ">>": "shr"}[op], (a, b), "I")
        raise Undecided("binary operator %s" % op)

    def ev_CompoundAssignOperator(self, n, st):
        op = n["opcode"][:-1]
        a, b = n["inner"]
        so = sort_of(self.qt(a))
        out = []
        for s1, vb in self.ev(b, st):
            for s2, l in self.lv(a, s1):
                old = self.load(s2, l, so)
                # C: computation in the common type
                ct = n.get("computeResultType", {}).get("qualType")
                if ct and sort_of(ct) == "R":
                    new = self.binop(op, tm.to_real(old), tm.to_real(vb))
                else:
                    new = self.binop(op, old, vb)
                if so == "P" and new.sort != "P" and new.op in ("+", "-"):
                    new = T(new.op, new.args, "P")
                self.store(s2, l, new, so)
                out.append((s2, self.coerce(new, so)))
        return out

    lv_CompoundAssignOperator = None

    def ev_ConditionalOperator(self, n, st):
        c, a, b = n["inner"]
        out = []
        for s1, vc in self.ev(c, st):
            cc = tm.to_bool(vc)
            if self.pure_expr(a) and self.pure_expr(b):
                for s2, va in self.ev(a, s1):
                    for s3, vb in self.ev(b, s2):
                        if va.sort != vb.sort:
                            so = sort_of(self.qt(n))
                            va, vb = self.coerce(va, so), self.coerce(vb, so)
                        out.append((s3, tm.ite(cc, va, vb)))
            else:
                sa, sb = s1.clone(), s1
                if sa.assume(cc):
                    out.extend(self.ev(a, sa))
                if sb.assume(tm.not_(cc)):
                    out.extend(self.ev(b, sb))
        return out

    # ------------------------------------------------------------ calls
    def callee_name(self, c):
        k = c.get("kind")
        if k in ("ImplicitCastExpr", "ParenExpr"):
            return self.callee_name(c["inner"][0])
        if k == "DeclRefExpr":
            return c["referencedDecl"].get("name", "?")
        if k == "MemberExpr":
            base = c["inner"][0]
            bt = strip_type(self.qt(base))
            if bt.endswith("*"):
                bt = strip_type(bt[:-1])
            return bt + "::" + c.get("name", "?")
        if k == "UnresolvedLookupExpr":
            return c.get("name", "?")
        return "?" + str(k)

    def ev_args(self, args, st):
        res = [(st, [])]
        for a in args:
            nxt = []
            for s, vs in res:
                q = self.qt(a)
                if a.get("valueCategory") == "lvalue" and not (a.get("kind") == "ImplicitCastExpr"):
                    # passed by reference: the callee sees the object; we pass its current value if scalar else address
                    for s2, l in self.lv(a, s):
                        if is_record_type(q, self.ctx):
                            nxt.append((s2, vs + [self.address(s2, l)]))
                        else:
                            try:
                                v = self.load(s2, l, sort_of(q))
                            except Undecided:
                                v = self.address(s2, l)
                            nxt.append((s2, vs + [v]))
                else:
                    for s2, v in self.ev(a, s):
                        nxt.append((s2, vs + [v]))
            res = nxt
        return res

    def do_call(self, n, st, name, recv_node, arg_nodes, recv_is_ptr=False):
        out = []
        recvs = [(st, None)]
        if recv_node is not None:
            if recv_is_ptr:
                recvs = self.ev(recv_node, st)
            else:
                recvs = []
                for s, l in self.lv(recv_node, st):
                    if strip_type(self.qt(recv_node)) in STRING_T and l[0] in ("local", "value"):
                        recvs.append((s, self.load(s, l, "S")))       # a std::string local is a value
                    else:
                        recvs.append((s, self.address(s, l)))
        for s1, recv in recvs:
            for s2, args in self.ev_args(arg_nodes, s1):
                out.extend(self.apply_call(n, s2, name, recv, args, arg_nodes))
        return out

    def apply_call(self, n, st, name, recv, args, arg_nodes=()):
        short = name.split("::")[-1]
        h = self.ctx.handlers.get(name) or self.ctx.handlers.get(short)
        if h is not None:
            r = h(self, st, n, name, recv, args)
            if r is not None:
                return r
        if self.ctx.stl is not None and "::" in name:
            h = self.ctx.stl.method_handler(name.rsplit("::", 1)[0], short)
            if h is not None:
                r = h(self, st, n, name, recv, args)
                if r is not None:
                    return r
        if short in self.ctx.functional or name in self.ctx.functional:
            rs = "P" if (n.get("valueCategory") == "lvalue" or is_record_type(self.qt(n), self.ctx)) else sort_of(self.qt(n))
            res = tm.app("call:" + short, tuple([recv if recv is not None else tm.NULL] + list(args)), rs)
            st.events.append(Event(name, recv, args, res, n))
            return [(st, res)]
        rs = sort_of(self.qt(n))
        if recv is None and short in MATH_PURE:
            return [(st, self.math(short, args))]
        res = fresh("ret_" + short, rs if self.qt(n) != "void" else "I")
        if is_record_type(self.qt(n), self.ctx):
            res = fresh("retobj_" + short, "P")
        if n.get("valueCategory") == "lvalue":
            res = fresh("retref_" + short, "P")      # a call returning a reference yields the address of an object
        ev_ = Event(name, recv, args, res, n)
        if short in self.ctx.snapshot:
            ev_.snap = {f: tm.select(self.heap_arr(st, ("f", f, so)), self.ctx.this) for f, so in self.ctx.snapshot[short]}
        st.events.append(ev_)
        if name not in self.ctx.pure and short not in self.ctx.pure:
            self.havoc_heap(st, name)
            # address-taken locals passed by pointer are in the heap and thereby havocked
        return [(st, res)]

    def math(self, f, args):
        args = [tm.to_real(a) for a in args]
        if f == "fabs":
            return tm.ite(tm.lt(args[0], tm.num(0)), tm.neg(args[0]), args[0])
        if f == "pow" and tm.isnum(args[1]) and args[1].args[0].denominator == 1 and 1 <= args[1].args[0] <= 6:
            r = args[0]
            for _ in range(int(args[1].args[0]) - 1):
                r = tm.mul(r, args[0])
            return r
        return tm.app(f, args, "R")

    def ev_CallExpr(self, n, st):
        c = n["inner"][0]
        return self.do_call(n, st, self.callee_name(c), None, n["inner"][1:])

    def ev_CXXMemberCallExpr(self, n, st):
        me = n["inner"][0]
        while me.get("kind") in ("ParenExpr", "ImplicitCastExpr"):
            me = me["inner"][0]
        if me.get("kind") != "MemberExpr":
            raise Undecided("member call through %s" % me.get("kind"))
        return self.do_call(n, st, self.callee_name(me), me["inner"][0], n["inner"][1:], recv_is_ptr=bool(me.get("isArrow")))

    def lv_CXXMemberCallExpr(self, n, st):
        # call returning a reference: the result designates an object
        return [(s, self.deref(s, v) if v.sort == "P" else ("value", v)) for s, v in self.ev_CXXMemberCallExpr(n, st)]

    def lv_CallExpr(self, n, st):
        return [(s, self.deref(s, v) if v.sort == "P" else ("value", v)) for s, v in self.ev_CallExpr(n, st)]

    def ev_CXXOperatorCallExpr(self, n, st):
        c = n["inner"][0]
        opname = self.callee_name(c)
        args = n["inner"][1:]
        # member operator: first arg is the object
        objt = strip_type(self.qt(args[0])) if args else ""
        name = objt + "::" + opname
        h = self.ctx.handlers.get(name) or self.ctx.handlers.get(opname + "@" + objt)
        if h is None and self.ctx.stl is not None:
            h = self.ctx.stl.operator_handler(objt, opname)
        if h is not None:
            return h(self, st, n, name, args)
        return self.do_call(n, st, name, args[0], args[1:], recv_is_ptr=False)

    def lv_CXXOperatorCallExpr(self, n, st):
        return [(s, self.deref(s, v) if (isinstance(v, T) and v.sort == "P") else ("value", v)) for s, v in self.ev_CXXOperatorCallExpr(n, st)]

    def ev_CXXNewExpr(self, n, st):
        q = strip_type(self.qt(n))
        p = fresh("new", "P")
        st.assume(tm.not_(tm.eq(p, tm.NULL)))
        args = []
        states = [(st, [])]
        for c in n.get("inner", []):
            if c.get("kind") in ("CXXConstructExpr",):
                states = self.ev_args(c.get("inner", []), st)
        out = []
        for s, a in states:
            s.events.append(Event("new " + q, None, a, p, n))
            out.append((s, p))
        return out

    def ev_CXXDeleteExpr(self, n, st):
        out = []
        for s, p in self.ev(n["inner"][0], st):
            s.events.append(Event("delete", None, [p], tm.num(0, "I"), n))
            out.append((s, tm.num(0, "I")))
        return out

    def ev_CXXThrowExpr(self, n, st):
        st.events.append(Event("throw", None, [], tm.num(0, "I"), n))
        st.status = "throw"
        return [(st, tm.num(0, "I"))]

    # ------------------------------------------------------------ statements
    def run(self, fn, st, params=None):
        """execute a function definition node; returns final states"""
        from . import ast as A
        self.local_ids = set()
        self.addr_taken = set()
        self.loop_ids = {}
        for x in A.walk(fn):
            if x.get("kind") in ("ForStmt", "WhileStmt", "DoStmt"):
                self.loop_ids[x.get("id")] = len(self.loop_ids)
            if x.get("kind") in ("VarDecl", "ParmVarDecl") and "id" in x:
                self.local_ids.add(x["id"])
            if x.get("kind") == "UnaryOperator" and x.get("opcode") == "&":
                c = x["inner"][0]
                while c.get("kind") == "ParenExpr":
                    c = c["inner"][0]
                if c.get("kind") == "DeclRefExpr" and c["referencedDecl"].get("kind") in ("VarDecl", "ParmVarDecl"):
                    self.addr_taken.add(c["referencedDecl"]["id"])
        for i, p in enumerate(A.params_of(fn)):
            q = p["type"].get("desugaredQualType") or p["type"]["qualType"]
            name = p.get("name", "arg%d" % i)
            if params is not None and i < len(params) and params[i] is not None:
                v = params[i]
            elif is_record_type(q, self.ctx) or strip_type(q) != q.strip() and q.strip().endswith("&") and is_record_type(q, self.ctx):
                v = tm.sym("P%d_%s" % (i, name), "P")
            else:
                v = tm.sym("P%d_%s" % (i, name), sort_of(q))
            if q.strip().endswith("&") and not is_record_type(q, self.ctx):
                # reference to scalar: the parameter designates a caller location
                st.locals[p["id"]] = ("ref", ("elem", tm.sym("P%d_%s_ref" % (i, name), "P"), tm.num(0, "I")))
            elif is_record_type(q, self.ctx):
                st.locals[p["id"]] = ("ref", ("elem", v, tm.num(0, "I"))) if False else ("obj", v)
            elif p["id"] in self.addr_taken:
                a = tm.sym("&%s" % name, "P")
                st.locals[p["id"]] = ("obj", a)
                self.store(st, ("local", p["id"], name), v, sort_of(q))
            else:
                st.locals[p["id"]] = v
        fin = self.exec(A.body_of(fn), [st])
        if any(str(s_.status).startswith("goto:") for s_ in fin):
            raise Undecided("goto whose label is not reached in forward statement order")
        return fin

    def exec(self, n, states):
        k = n.get("kind")
        if k is None:
            return states
        self.kinds_seen.add(k)
        if k == "LabelStmt":
            # forward goto: the states that jumped here resume at the label
            for s_ in states:
                if s_.status == "goto:" + str(n.get("declId")):
                    s_.status = "run"
        run = [s for s in states if s.status == "run"]
        rest = [s for s in states if s.status != "run" and s.status != "dead"]
        if not run:
            return rest
        if len(run) + len(rest) > self.ctx.max_paths:
            raise Undecided("path explosion (> %d paths)" % self.ctx.max_paths)
        m = getattr(self, "st_" + k, None)
        if m is None:
            # expression statement
            out = []
            for s in run:
                for s2, _ in self.ev(n, s):
                    out.append(s2)
            return [s for s in out if s.status != "dead"] + rest
        out = []
        for s in run:
            out.extend(m(n, s))
        return [s for s in out if s.status != "dead"] + rest

    def st_CompoundStmt(self, n, st):
        states = [st]
        for c in n.get("inner", []):
            states = self.exec(c, states)
        return states

    def st_NullStmt(self, n, st):
        return [st]

    def st_GotoStmt(self, n, st):
        # forward jumps only: the state is parked until the LabelStmt is reached in statement order; a state still parked at the end of
        # the function (backward jump, or a label inside a construct that was skipped) makes the run undecided
        st.status = "goto:" + str(n.get("targetLabelDeclId"))
        return [st]

    def st_LabelStmt(self, n, st):
        return self.exec(n["inner"][0], [st]) if n.get("inner") else [st]

    def st_DeclStmt(self, n, st):
        states = [st]
        for d in n.get("inner", []):
            if d.get("kind") != "VarDecl":
                continue
            nxt = []
            for s in states:
                nxt.extend(self.decl_var(d, s))
            states = nxt
        return states

    def decl_var(self, d, st):
        q = d["type"].get("desugaredQualType") or d["type"]["qualType"]
        did, name = d["id"], d.get("name", "_")
        init = d["inner"][0] if d.get("init") and d.get("inner") else None
        if d.get("storageClass") == "static":
            raise Undecided("function-local static variable '%s'" % name)
        ik = init
        while ik is not None and ik.get("kind") in ("ExprWithCleanups", "CXXBindTemporaryExpr", "MaterializeTemporaryExpr") and ik.get("inner"):
            ik = ik["inner"][0]
        if ik is not None and ik.get("kind") in ("CXXConstructExpr", "CXXTemporaryObjectExpr") and not q.strip().endswith(("&", "*")):
            self.ctx.record_types.add(strip_type(q))      # only class types are constructed
        if q.strip().endswith("&"):
            out = []
            for s, l in self.lv(init, st):
                s.locals[did] = ("ref", l)
                out.append(s)
            return out
        if is_record_type(q, self.ctx) or q.strip().endswith("]"):
            h = self.ctx.handlers.get("decl:" + strip_type(q))
            if h:
                return h(self, st, d, init)
            a = fresh("&" + name, "P")
            st.locals[did] = ("obj", a)
            if init is not None and init.get("kind") in ("CXXConstructExpr",) and len(init.get("inner", [])) == 0:
                st.events.append(Event("ctor " + strip_type(q), a, [], tm.num(0, "I"), d))
                return [st]
            if init is not None and init.get("kind") == "InitListExpr":
                so = sort_of(strip_type(q).split("[")[0])
                for i, e in enumerate(init.get("inner", [])):
                    for s2, v in self.ev(e, st):
                        self.store(s2, ("elem", a, tm.num(i, "I")), v, so)
                return [st]
            if init is not None:
                out = []
                for s, v in self.ev(init, st):
                    s.events.append(Event("ctor " + strip_type(q), a, [v], tm.num(0, "I"), d))
                    out.append(s)
                return out
            return [st]
        so = sort_of(q)
        if did in self.addr_taken:
            a = fresh("&" + name, "P")
            st.locals[did] = ("obj", a)
            if init is None:
                return [st]
            out = []
            for s, v in self.ev(init, st):
                self.store(s, ("local", did, name), v, so)
                out.append(s)
            return out
        if init is None:
            st.locals[did] = fresh("uninit_" + name, so)
            return [st]
        out = []
        for s, v in self.ev(init, st):
            s.locals[did] = self.coerce(v, so)
            out.append(s)
        return out

    def st_IfStmt(self, n, st):
        inner = [c for c in n["inner"]]
        if n.get("hasInit"):
            raise Undecided("if with init statement")
        if n.get("hasVar"):
            # if (T v = e) S : declare v, the condition is v's value
            decl = inner[0]
            states = self.exec(decl, [st])
            out = []
            for s in states:
                out.extend(self.st_IfStmt({"inner": inner[1:], "kind": "IfStmt"}, s))
            return out
        cond, then = inner[0], inner[1]
        els = inner[2] if len(inner) > 2 else None
        out = []
        for s, v in self.ev(cond, st):
            c = tm.to_bool(v)
            if c is tm.TRUE:
                out.extend(self.exec(then, [s])); continue
            if c is tm.FALSE:
                out.extend(self.exec(els, [s]) if els else [s]); continue
            if self.ctx.merge_ifs:
                base_pc = list(s.pc)
                sa, sb = s.clone(), s.clone()
                ra = self.exec(then, [sa]) if sa.assume(c) else []
                rb = (self.exec(els, [sb]) if els else [sb]) if sb.assume(tm.not_(c)) else []
                if len(ra) == 1 and len(rb) == 1 and ra[0].status == "run" and rb[0].status == "run" and ra[0].hprefix == rb[0].hprefix:
                    out.append(self.merge(c, ra[0], rb[0], base_pc, len(s.events)))
                else:
                    out.extend(ra + rb)
                continue
            sa, sb = s.clone(), s
            if sa.assume(c):
                out.extend(self.exec(then, [sa]))
            if sb.assume(tm.not_(c)):
                out.extend(self.exec(els, [sb]) if els else [sb])
        return out

    def merge(self, c, a, b, base_pc, nev):
        m = a.clone()
        m.pc = base_pc
        for k in set(a.locals) | set(b.locals):
            va, vb = a.locals.get(k), b.locals.get(k)
            if va is vb or va == vb:
                continue
            if isinstance(va, T) and isinstance(vb, T):
                m.locals[k] = tm.ite(c, va, vb) if va.sort == vb.sort else tm.ite(c, self.coerce(va, vb.sort), vb)
            elif va is None or vb is None:
                m.locals[k] = va if va is not None else vb
            else:
                raise Undecided("merge of aggregate local")
        for k in set(a.heap) | set(b.heap):
            ha, hb = self.heap_arr(a, k), self.heap_arr(b, k)
            m.heap[k] = ha if ha is hb else tm.ite(c, ha, hb)
        common = a.events[:nev]
        m.events = list(common)
        for e in a.events[nev:]:
            m.events.append(Event(e.name, e.recv, e.args, e.result, e.node, tm.and_(c, e.guard)))
        for e in b.events[nev:]:
            m.events.append(Event(e.name, e.recv, e.args, e.result, e.node, tm.and_(tm.not_(c), e.guard)))
        m.notes = list(dict.fromkeys(a.notes + b.notes))
        return m

    def st_ReturnStmt(self, n, st):
        if not n.get("inner"):
            st.status = "ret"
            return [st]
        out = []
        e = n["inner"][0]
        if is_record_type(self.qt(e), self.ctx):
            res = self.ev(e, st)
        else:
            res = self.ev(e, st)
        for s, v in res:
            if s.status == "run":
                s.ret = v
                s.status = "ret"
            out.append(s)
        return out

    def st_BreakStmt(self, n, st):
        st.status = "brk"
        return [st]

    def st_ContinueStmt(self, n, st):
        st.status = "cont"
        return [st]

    def st_SwitchStmt(self, n, st):
        cond, body = n["inner"][0], n["inner"][-1]
        # flatten the body into a sequence of (labels, stmt)
        seq = []
        def add(node, labels):
            k = node.get("kind")
            if k == "CaseStmt":
                val = node["inner"][0]
                sub = node["inner"][-1]
                add(sub, labels + [("case", val)])
            elif k == "DefaultStmt":
                add(node["inner"][-1], labels + [("default", None)])
            else:
                seq.append((labels, node))
        if body.get("kind") != "CompoundStmt":
            raise Undecided("switch body is not a compound statement")
        for c in body.get("inner", []):
            add(c, [])
        out = []
        for s, v in self.ev(cond, st):
            v = self.coerce(v, "I")
            label_vals = []
            for i, (labels, _) in enumerate(seq):
                for kind, val in labels:
                    if kind == "case":
                        lv = self.ev(val, s.clone())[0][1]
                        label_vals.append((i, self.coerce(lv, "I")))
            default_pos = [i for i, (labels, _) in enumerate(seq) if any(k == "default" for k, _ in labels)]
            taken_any = []
            for i, lvv in label_vals:
                c = tm.eq(v, lvv)
                if c is tm.FALSE:
                    continue
                sx = s.clone()
                if sx.assume(c):
                    out.extend(self.run_seq(seq, i, sx))
                taken_any.append(c)
                if c is tm.TRUE:
                    break
            else:
                sd = s.clone()
                ok = sd.assume(tm.and_(*[tm.not_(c) for c in taken_any])) if taken_any else True
                if ok and sd.status != "dead":
                    if default_pos:
                        out.extend(self.run_seq(seq, default_pos[0], sd))
                    else:
                        out.append(sd)
        return out

    def run_seq(self, seq, start, st):
        states = [st]
        for labels, node in seq[start:]:
            states = self.exec(node, states)
        for s in states:
            if s.status == "brk":
                s.status = "run"
        return states

    def st_CaseStmt(self, n, st):
        # reached by fall-through inside nested compound: execute the substatement
        return self.exec(n["inner"][-1], [st])

    st_DefaultStmt = st_CaseStmt

    def st_ForStmt(self, n, st):
        return self.loop(n, st)

    def st_WhileStmt(self, n, st):
        return self.loop(n, st)

    def st_DoStmt(self, n, st):
        return self.loop(n, st)

    def loop(self, n, st):
        ordinal = self.loop_ids.get(n.get("id"))
        if ordinal is None:
            raise Undecided("loop statement without a syntactic ordinal")
        if self.ctx.loop is None:
            raise Undecided("loop %d without a loop contract" % ordinal)
        r = self.ctx.loop(self, st, n, ordinal)
        if r is None:
            raise Undecided("loop %d without a loop contract" % ordinal)
        return r

    def loop_parts(self, n):
        k = n["kind"]
        inner = n["inner"]
        if k == "ForStmt":
            init, cond, inc, body = inner[0], inner[2], inner[3], inner[4]
            return (init if init.get("kind") else None, cond if cond.get("kind") else None, inc if inc.get("kind") else None, body)
        if k == "WhileStmt":
            return (None, inner[0], None, inner[-1])
        if k == "DoStmt":
            return (None, inner[1], None, inner[0])
        raise Undecided("loop kind %s" % k)

    def unroll(self, n, st, maxn=64):
        """concrete unrolling: every evaluation of the loop condition must fold to a constant"""
        init, cond, inc, body = self.loop_parts(n)
        states = [st]
        if init is not None:
            states = self.exec(init, states)
        done = []
        first = True
        for it in range(maxn + 1):
            nxt = []
            for s in states:
                if s.status != "run":
                    done.append(s); continue
                if n["kind"] == "DoStmt" and first:
                    nxt.append(s); continue
                if cond is None:
                    nxt.append(s); continue
                for s2, v in self.ev(cond, s):
                    c = tm.to_bool(v)
                    if c is tm.TRUE:
                        nxt.append(s2)
                    elif c is tm.FALSE:
                        done.append(s2)
                    else:
                        raise Undecided("unroll: loop condition does not fold to a constant: %r" % (c,))
            first = False
            if not nxt:
                return done
            if it == maxn:
                raise Undecided("unroll: more than %d iterations" % maxn)
            states = self.exec(body, nxt)
            for s in states:
                if s.status == "cont":
                    s.status = "run"
            brk = [s for s in states if s.status == "brk"]
            for s in brk:
                s.status = "run"
                done.append(s)
            states = [s for s in states if s not in brk]
            if inc is not None:
                cont = [s for s in states if s.status == "run"]
                other = [s for s in states if s.status != "run"]
                outc = []
                for s in cont:
                    for s2, _ in self.ev(inc, s):
                        outc.append(s2)
                states = outc + other
        return done

    def st_CXXTryStmt(self, n, st):
        if not self.ctx.try_body_only:
            raise Undecided("try statement")
        st.notes.append("try: body executed on the no-throw path; catch arms not verified")
        return self.exec(n["inner"][0], [st])

    def st_CXXCatchStmt(self, n, st):
        return [st]


    # ------------------------------------------------------------ loop summaries
    def assigned_locals(self, n):
        """declaration ids of locals assigned anywhere inside node n; and whether memory may be written"""
        from . import ast as A
        ids, writes_mem = {}, False
        for x in A.walk(n):
            k = x.get("kind")
            tgt = None
            if k == "BinaryOperator" and x.get("opcode") == "=":
                tgt = x["inner"][0]
            elif k == "CompoundAssignOperator":
                tgt = x["inner"][0]
            elif k == "UnaryOperator" and x.get("opcode") in ("++", "--"):
                tgt = x["inner"][0]
            elif k == "CXXOperatorCallExpr" and len(x.get("inner", [])) >= 2 and self.callee_name(x["inner"][0]) in ("operator=", "operator++", "operator--", "operator+="):
                t0 = x["inner"][1]
                while t0.get("kind") in ("ParenExpr", "ImplicitCastExpr"):
                    t0 = t0["inner"][0]
                if t0.get("kind") == "DeclRefExpr" and t0["referencedDecl"].get("id") in self.local_ids and "iterator" in self.qt(t0):
                    ids[t0["referencedDecl"]["id"]] = (t0["referencedDecl"].get("name"), self.qt(t0))
                    continue
            elif k in ("CallExpr", "CXXMemberCallExpr", "CXXOperatorCallExpr", "CXXNewExpr", "CXXDeleteExpr"):
                name = self.callee_name(x["inner"][0]) if x.get("inner") else ""
                short = name.split("::")[-1]
                if k in ("CXXNewExpr", "CXXDeleteExpr"):
                    writes_mem = True
                elif short not in self.ctx.pure and name not in self.ctx.pure and not (self.ctx.stl is not None and (
                        self.ctx.stl.method_handler(name.rsplit("::", 1)[0], short) is not None and short in ("size", "empty", "c_str", "length")
                        or short == "operator[]")):
                    writes_mem = True
            if tgt is not None:
                while tgt.get("kind") == "ParenExpr":
                    tgt = tgt["inner"][0]
                if tgt.get("kind") == "DeclRefExpr" and tgt["referencedDecl"].get("kind") in ("VarDecl", "ParmVarDecl") and tgt["referencedDecl"]["id"] in self.local_ids:
                    ids[tgt["referencedDecl"]["id"]] = (tgt["referencedDecl"].get("name"), self.qt(tgt))
                else:
                    writes_mem = True
        return ids, writes_mem

    def havoc_loop(self, n, st):
        """sound over-approximation of a loop: every local it assigns becomes arbitrary; memory is
        havocked if the loop may write it.  Nothing is assumed about the exit condition."""
        init, cond, inc, body = self.loop_parts(n)
        states = [st]
        if init is not None:
            states = self.exec(init, states)
        ids, wm = self.assigned_locals(n)
        for s in states:
            for did, (name, q) in ids.items():
                v = s.locals.get(did)
                if isinstance(v, tuple):
                    wm = True
                else:
                    s.locals[did] = fresh("havoc_" + str(name), sort_of(q))
            if wm:
                self.havoc_heap(s, "loop")
        return states

    def iterate_loop(self, n, st, assume_cond=True, prepare=None):
        """iteration contract: run the body once for an arbitrary value of the induction variable(s)
        on the loop-entry state in which every local the loop assigns is arbitrary.
        Returns the states at the end of the body (before the increment)."""
        init, cond, inc, body = self.loop_parts(n)
        states = [st]
        if init is not None:
            states = self.exec(init, states)
        ids, wm = self.assigned_locals(n)
        pristine = [s.clone() for s in states]

        def one_pass(sts, havoc_keys):
            out = []
            for s in sts:
                for key in havoc_keys:
                    if key[0] == "f":
                        s.heap[key] = tm.sym("Hiter.%s:%s" % (key[1], key[2]), ("A", "P", key[2]))
                    elif key[0] == "m2":
                        s.heap[key] = tm.sym("Hiter.%s:%s[%s]" % (key[1], key[2], key[3]), ("A", "P", key[3], key[2]))
                    else:
                        s.heap[key] = tm.sym("Hiter.mem:%s" % (key[1],), ("A", "P", "I", key[1]))
                for did, (name, q) in ids.items():
                    v = s.locals.get(did)
                    if not isinstance(v, tuple):
                        s.locals[did] = tm.sym("iter_" + str(name), sort_of(q))
                if prepare is not None:
                    prepare(self, s)          # facts about the arbitrary iteration state (a case of the contract)
                s.events.append(Event("iter_begin", None, [], tm.num(0, "I")))
                if cond is not None and assume_cond:
                    for s2, v in self.ev(cond, s):
                        if s2.assume(tm.to_bool(v)):
                            out.append(s2)
                else:
                    out.append(s)
            res = self.exec(body, out)
            return res

        res = one_pass([s.clone() for s in pristine], ())
        written = set()
        entry_arrays = {}
        for e in pristine:
            for key, v in e.heap.items():
                entry_arrays.setdefault(key, set()).add(v)
        for s in res:
            for key, v in s.heap.items():
                if v.op == "store" and v not in entry_arrays.get(key, ()):
                    written.add(key)
        if inc is not None:
            # an induction variable that lives in memory (a member used as loop counter) is written by the increment, not by the body:
            # it is arbitrary at iteration entry like everything else the loop writes
            for s in res:
                if s.status not in ("run", "cont"):
                    continue
                try:
                    s2 = s.clone(); s2.status = "run"
                    before = dict(s2.heap)
                    for s3, _ in self.ev(inc, s2):
                        for key, v in s3.heap.items():
                            if v is not before.get(key) and v.op == "store":
                                written.add(key)
                except Undecided:
                    pass
        if written:
            # the body must be correct from a state in which earlier iterations have already written
            # those components: re-run with them arbitrary at entry
            res = one_pass([s.clone() for s in pristine], sorted(written))
        self.iter_written = written
        self.iter_entry_arrays = entry_arrays
        for s in res:
            s.iter_entry_arrays = entry_arrays
        return res
