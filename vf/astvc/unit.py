"""Unit-level helpers of Engine B: load a function, run the executor, discharge
obligations with the back ends and record them."""
import os, time
from ..core import UnitResult, Obligation, Undecided, DISCHARGED, FAILED, UNDECIDED, REPO, sha256_text
from . import ast as A, terms as tm, backends as B
from .symex import Exec, Ctx, State

ENGINE = "B:astvc"
TIER = {"tier": "quick", "seed": 0}


def fn_source(fn):
    """text of the function definition as it stands in /repo (for the SHA in the evidence)"""
    r = fn.get("range", {})
    b, e = r.get("begin", {}), r.get("end", {})
    f = fn.get("loc", {}).get("file") or b.get("file")
    try:
        bo = b.get("offset"); eo = e.get("offset") + e.get("tokLen", 1)
        return None, bo, eo
    except Exception:
        return None, None, None


def new_unit(uid, rel, qualname, fn=None, kind="proved"):
    r = UnitResult(uid, file=rel, function=qualname, engine=ENGINE, proved_kind=kind)
    if fn is not None:
        _, bo, eo = fn_source(fn)
        try:
            with open(os.path.join(REPO, rel), "rb") as f:
                data = f.read()
            if bo is not None and fn.get("loc", {}).get("file", os.path.join(REPO, rel)).endswith(rel.split("/")[-1]):
                r.sha = sha256_text(data[bo:eo])
            else:
                r.sha = sha256_text(data)
        except Exception:
            pass
    return r


def discharge_valid(r, name, hyps, goal, kind="post", axioms=(), detail_ok=""):
    """goal must follow from hyps (z3). records an obligation; returns status"""
    goal_s = goal
    if goal is tm.TRUE:
        r.add(name, DISCHARGED, "syntactic", 0.0, detail_ok or "goal folded to true", kind=kind)
        return DISCHARGED
    status, model, secs, smt2 = B.z3_prove(hyps, goal, axioms=axioms, seed=TIER["seed"], want_smt2=(TIER["tier"] == "thorough"))
    backend = "z3-5.1"
    if status == "proved" and TIER["tier"] == "thorough" and smt2:
        c = B.cvc5_check(smt2)
        backend = "z3-5.1+cvc5(%s)" % c
        if c == "sat":
            r.add(name, UNDECIDED, backend, secs, "solver disagreement: z3 unsat, cvc5 sat", kind=kind)
            return UNDECIDED
    if status == "proved":
        r.add(name, DISCHARGED, backend, secs, detail_ok, kind=kind)
        return DISCHARGED
    if status == "refuted":
        o = r.add(name, FAILED, backend, secs, "counterexample to: %r" % (goal_s,), model=model, kind=kind)
        o.detail = o.detail[:700]
        return FAILED
    r.add(name, UNDECIDED, backend, secs, "z3 unknown: %s" % (model,), kind=kind)
    return UNDECIDED


def discharge_eq_real(r, name, hyps, lhs, rhs, kind="post", axioms=()):
    """lhs == rhs over the reals: syntactic identity, then exact normalisation, then z3"""
    if lhs is rhs:
        r.add(name, DISCHARGED, "syntactic", 0.0, "identical terms", kind=kind)
        return DISCHARGED
    try:
        ok, res, secs = B.sympy_equal(lhs, rhs)
        if ok:
            r.add(name, DISCHARGED, "sympy.cancel", secs, "difference normalises to 0", kind=kind)
            return DISCHARGED
        residue = res
    except ValueError as e:
        residue = "not a field term (%s)" % e
        secs = 0.0
    # not an identity of rational functions: let z3 decide under the hypotheses (may need pc facts)
    status, model, s2, _ = B.z3_prove(hyps, tm.eq(lhs, rhs), axioms=axioms, seed=TIER["seed"], timeout_ms=8000)
    if status == "proved":
        r.add(name, DISCHARGED, "z3-5.1", secs + s2, "valid under the path condition", kind=kind)
        return DISCHARGED
    if status == "refuted":
        r.add(name, FAILED, "sympy.cancel+z3-5.1", secs + s2, "code - spec = %s" % residue, model=model, kind=kind)
        return FAILED
    # z3 gave up on the nonlinear query; a non-zero normal form of a rational-function identity is a refutation
    if residue and not residue.startswith("not a field term"):
        r.add(name, FAILED, "sympy.cancel", secs + s2, "code - spec normalises to a non-zero term: %s" % residue, kind=kind)
        return FAILED
    r.add(name, UNDECIDED, "sympy.cancel+z3-5.1", secs + s2, "undecided: %s" % residue, kind=kind)
    return UNDECIDED


def witness(r, name, hyps):
    """reachability witness behind a precondition / path: hyps must be satisfiable"""
    t0 = time.time()
    s = B.z3_sat(hyps, seed=TIER["seed"])
    if s == "sat":
        r.add(name, DISCHARGED, "z3-5.1", time.time() - t0, "satisfiable (reachability witness)", kind="vacuity")
    elif s == "unsat":
        r.add(name, UNDECIDED, "z3-5.1", time.time() - t0, "precondition/path is unsatisfiable: vacuous", kind="vacuity")
    else:
        r.add(name, DISCHARGED, "z3-5.1", time.time() - t0, "reachability undetermined (nonlinear); twin guards vacuity", kind="vacuity")


def must_fail_twin(r, name, run_twin):
    """run_twin() -> UnitResult for the perturbed contract; it must contain a failed obligation"""
    t0 = time.time()
    try:
        tw = run_twin()
        failed = [o.name for o in tw.obligations if o.status == FAILED]
    except Undecided as e:
        r.add(name, UNDECIDED, "twin", time.time() - t0, "twin undecided: %s" % e, kind="vacuity")
        return
    if failed:
        r.add(name, DISCHARGED, "twin", time.time() - t0, "perturbed contract fails: " + ", ".join(failed[:3]), kind="vacuity")
    else:
        r.add(name, UNDECIDED, "twin", time.time() - t0, "perturbed contract still verifies: unit is vacuous", kind="vacuity")
