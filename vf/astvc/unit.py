"""Unit-level helpers of Engine B: load a function, run the executor, discharge
obligations with the back ends and record them."""
import os, time
from ..core import UnitResult, Obligation, Undecided, DISCHARGED, FAILED, UNDECIDED, REPO, sha256_text
from . import ast as A, terms as tm, backends as B
from .symex import Exec, Ctx, State

ENGINE = "B:astvc"
TIER = {"tier": "quick", "seed": 0}


def fn_source(fn):
    """text of the function definition as it stands in /repo (for the SHA in the evidence)"""
    r = fn.get("range", {})
    b, e = r.get("begin", {}), r.get("end", {})
    f = fn.get("loc", {}).get("file") or b.get("file")
    try:
        bo = b.get("offset"); eo = e.get("offset") + e.get("tokLen", 1)
        return None, bo, eo
    except Exception:
        return None, None, None


def new_unit(uid, rel, qualname, fn=None, kind="proved"):
    r = UnitResult(uid, file=rel, function=qualname, engine=ENGINE, proved_kind=kind)
    if fn is not None:
        _, bo, eo = fn_source(fn)
        try:
            with open(os.path.join(REPO, rel), "rb") as f:
                data = f.read()
            if bo is not None and fn.get("loc", {}).get("file", os.path.join(REPO, rel)).endswith(rel.split("/")[-1]):
                r.sha = sha256_text(data[bo:eo])
            else:
                r.sha = sha256_text(data)
        except Exception:
            pass
    return r


def discharge_valid(r, name, hyps, goal, kind="post", axioms=(), detail_ok=""):
    """goal must follow from hyps (z3). records an obligation; returns status"""
    goal_s = goal
    if goal is tm.TRUE:
        r.add(name, DISCHARGED, "syntactic", 0.0, detail_ok or "goal folded to true", kind=kind)
        return DISCHARGED
    status, model, secs, smt2 = B.z3_prove(hyps, goal, axioms=axioms, seed=TIER["seed"], want_smt2=(TIER["tier"] == "thorough"))
    backend = "z3-5.1"
    if status == "proved" and TIER["tier"] == "thorough":
        # stability: the verdict must not depend on the solver's random seed
        for extra in (1, 2):
            st2 = B.z3_prove(hyps, goal, axioms=axioms, seed=TIER["seed"] + extra)[0]
            if st2 != "proved":
                r.add(name, UNDECIDED, "z3-5.1(seeds)", secs, "verdict depends on the solver seed: %s with seed+%d" % (st2, extra), kind=kind)
                return UNDECIDED
        backend = "z3-5.1(3 seeds)"
    if status == "proved" and TIER["tier"] == "thorough" and smt2:
        c = B.cvc5_check(smt2)
        backend = backend + "+cvc5(%s)" % c
        if c == "sat":
            r.add(name, UNDECIDED, backend, secs, "solver disagreement: z3 unsat, cvc5 sat", kind=kind)
            return UNDECIDED
    if status == "proved":
        r.add(name, DISCHARGED, backend, secs, detail_ok, kind=kind)
        return DISCHARGED
    if status == "refuted":
        o = r.add(name, FAILED, backend, secs, "counterexample to: %r" % (goal_s,), model=model, kind=kind)
        o.detail = o.detail[:700]
        return FAILED
    r.add(name, UNDECIDED, backend, secs, "z3 unknown: %s" % (model,), kind=kind)
    return UNDECIDED


def discharge_eq_real(r, name, hyps, lhs, rhs, kind="post", axioms=()):
    """lhs == rhs over the reals: syntactic identity, then exact normalisation, then z3"""
    if lhs is rhs:
        r.add(name, DISCHARGED, "syntactic", 0.0, "identical terms", kind=kind)
        return DISCHARGED
    try:
        ok, res, secs = B.sympy_equal(lhs, rhs)
        if ok:
            r.add(name, DISCHARGED, "sympy.cancel", secs, "difference normalises to 0", kind=kind)
            return DISCHARGED
        residue = res
    except ValueError as e:
        residue = "not a field term (%s)" % e
        secs = 0.0
    # not an identity of rational functions: let z3 decide under the hypotheses (may need pc facts)
    status, model, s2, _ = B.z3_prove(hyps, tm.eq(lhs, rhs), axioms=axioms, seed=TIER["seed"], timeout_ms=8000)
    if status == "proved":
        r.add(name, DISCHARGED, "z3-5.1", secs + s2, "valid under the path condition", kind=kind)
        return DISCHARGED
    if status == "refuted":
        r.add(name, FAILED, "sympy.cancel+z3-5.1", secs + s2, "code - spec = %s" % residue, model=model, kind=kind)
        return FAILED
    # z3 gave up on the nonlinear query; a non-zero normal form of a rational-function identity is a refutation
    if residue and not residue.startswith("not a field term"):
        r.add(name, FAILED, "sympy.cancel", secs + s2, "code - spec normalises to a non-zero term: %s" % residue, kind=kind)
        return FAILED
    r.add(name, UNDECIDED, "sympy.cancel+z3-5.1", secs + s2, "undecided: %s" % residue, kind=kind)
    return UNDECIDED


def witness(r, name, hyps):
    """reachability witness behind a precondition / path: hyps must be satisfiable"""
    t0 = time.time()
    s = B.z3_sat(hyps, seed=TIER["seed"])
    if s == "sat":
        r.add(name, DISCHARGED, "z3-5.1", time.time() - t0, "satisfiable (reachability witness)", kind="vacuity")
    elif s == "unsat":
        r.add(name, UNDECIDED, "z3-5.1", time.time() - t0, "precondition/path is unsatisfiable: vacuous", kind="vacuity")
    else:
        r.add(name, DISCHARGED, "z3-5.1", time.time() - t0, "reachability undetermined (nonlinear); twin guards vacuity", kind="vacuity")


def must_fail_twin(r, name, run_twin):
    """run_twin() -> UnitResult for the perturbed contract; it must contain a failed obligation"""
    t0 = time.time()
    try:
        tw = run_twin()
        failed = [o.name for o in tw.obligations if o.status == FAILED]
    except Undecided as e:
        r.add(name, UNDECIDED, "twin", time.time() - t0, "twin undecided: %s" % e, kind="vacuity")
        return
    if failed:
        r.add(name, DISCHARGED, "twin", time.time() - t0, "perturbed contract fails: " + ", ".join(failed[:3]), kind="vacuity")
    else:
        r.add(name, UNDECIDED, "twin", time.time() - t0, "perturbed contract still verifies: unit is vacuous", kind="vacuity")


def _register_head(rel, qualname, node, ordinal):
    try:
        import re as _re
        from .. import core as _core
        if getattr(_core.PENDING, "heads", None) is None:
            return
        src_b = open(os.path.join(REPO, rel), "rb").read()
        def _t(n_):
            if not n_ or not isinstance(n_, dict) or not n_.get("kind"):
                return ""
            b_, e_ = A.src_range_text(n_)
            return A.squeeze(src_b[b_:e_].decode("latin1")) if b_ is not None and e_ else ""
        if node.get("kind") == "ForStmt":
            head = {"init": _t(node["inner"][0]), "cond": _t(node["inner"][2]), "inc": _t(node["inner"][3])}
        else:
            head = {"init": "", "cond": "", "inc": ""}
        head.update(kind=node.get("kind"), function=qualname, ordinal=ordinal, rel=rel)
        _core.PENDING.heads.append(head)
    except Exception:
        pass


def run_function(rel, qualname, modes=None, default="havoc", ctx=None, params=None, pre=None, find_kw=None):
    """Execute a function with per-loop modes: 'iter' (iteration contract: body run once for an arbitrary
    induction value on an arbitrary state; the results are stashed, execution continues after the loop with
    everything the loop may write havocked), 'havoc', 'unroll' or 'skip'.  Returns (fn, ex, finals, info);
    info['iter'][ordinal] = end-of-body states, info['entry'][ordinal] = loop-entry states."""
    from . import stl as STLM, symex as SX
    fn = A.find_function(rel, qualname, **(find_kw or {}))
    if ctx is None:
        ctx = Ctx()
        ctx.stl = STLM.STL(SX)
    modes = modes or {}
    info = {"iter": {}, "entry": {}}

    def loop(ex, st, node, ordinal):
        mode = modes.get(ordinal, default)
        info["entry"].setdefault(ordinal, []).append(st.clone())
        if mode == "iter":
            _register_head(rel, qualname, node, ordinal)
            res = ex.iterate_loop(node, st.clone())
            info["iter"].setdefault(ordinal, []).extend(res)
            return ex.havoc_loop(node, st)
        if mode == "unroll":
            return ex.unroll(node, st)
        if mode == "skip":
            return [st]
        return ex.havoc_loop(node, st)
    ctx.loop = loop
    ex = Exec(ctx)
    st = State()
    if pre:
        st.pc = list(pre)
    finals = ex.run(fn, st, params=params)
    names = {}
    for x in A.walk(fn):
        if x.get("kind") in ("VarDecl", "ParmVarDecl") and "name" in x:
            names.setdefault(x["name"], x["id"])
    info["names"] = names
    return fn, ex, finals, info


def local_of(info, st, name):
    v = st.locals.get(info["names"][name])
    if isinstance(v, tuple):
        raise Undecided("local %s is not a scalar" % name)
    return v


def iter_events(st):
    k0 = max([i for i, e in enumerate(st.events) if getattr(e, "name", "") == "iter_begin"] or [-1])
    return st.events[k0 + 1:]


def iter_writes(st):
    """[(key, index, value)] written during the iteration (stores above the loop-entry arrays)"""
    out = []
    stop = getattr(st, "iter_entry_arrays", {})
    for key, arr in st.heap.items():
        a = arr
        while a.op == "store" and a not in stop.get(key, ()):
            out.append((key, a.args[1], a.args[2]))
            a = a.args[0]
    return out


def run_loop_isolated(rel, qualname, ordinal, ctx=None, find_kw=None, inner_modes=None, prepare=None):
    """Statement contract on one loop: the loop is located by its syntactic ordinal and its body is executed once
    (iteration contract) from an ARBITRARY state: every local of the function is a free symbol L_<name>, the heap is
    arbitrary.  The surrounding function is not executed (and is named as unverified by the caller).
    Returns (fn, ex, states_at_end_of_body, info)."""
    from . import stl as STLM, symex as SX
    fn = A.find_function(rel, qualname, **(find_kw or {}))
    if ctx is None:
        ctx = Ctx()
        ctx.stl = STLM.STL(SX)
    loops = [x for x in A.walk(fn) if x.get("kind") in ("ForStmt", "WhileStmt", "DoStmt")]
    if ordinal >= len(loops):
        raise Undecided("function has %d loops, contract names loop %d" % (len(loops), ordinal))
    node = loops[ordinal]
    inner_modes = inner_modes or {}
    inner_entries = {}
    inner_iters = {}
    def loop(ex, st, n, o):
        inner_entries.setdefault(o, []).append(st.clone())      # states in which an inner loop is reached (for reachability obligations)
        if inner_modes.get(o) == "unroll":
            return ex.unroll(n, st)
        if inner_modes.get(o) == "iter" or inner_modes.get("*") == "iter":
            # iteration contract of the inner loop in the context reached (the facts established outside it are kept)
            inner_iters.setdefault(o, []).extend(ex.iterate_loop(n, st.clone()))
        return ex.havoc_loop(n, st)
    ctx.loop = loop
    ex = Exec(ctx)
    ex.local_ids = set(); ex.addr_taken = set(); ex.loop_ids = {}
    names = {}
    st = State()
    for x in A.walk(fn):
        k = x.get("kind")
        if k in ("ForStmt", "WhileStmt", "DoStmt"):
            ex.loop_ids[x.get("id")] = len(ex.loop_ids)
        if k == "UnaryOperator" and x.get("opcode") == "&":
            c = x["inner"][0]
            while c.get("kind") == "ParenExpr":
                c = c["inner"][0]
            if c.get("kind") == "DeclRefExpr" and c["referencedDecl"].get("kind") in ("VarDecl", "ParmVarDecl"):
                ex.addr_taken.add(c["referencedDecl"]["id"])
    for x in A.walk(fn):
        if x.get("kind") in ("VarDecl", "ParmVarDecl") and "id" in x:
            ex.local_ids.add(x["id"])
            nm = x.get("name", "_")
            names.setdefault(nm, x["id"])
            q = x["type"].get("desugaredQualType") or x["type"]["qualType"]
            from .symex import is_record_type, sort_of
            if q.strip().endswith("&"):
                st.locals[x["id"]] = ("ref", ("elem", tm.sym("L_%s_ref" % nm, "P"), tm.num(0, "I")))
            elif is_record_type(q, ctx) or q.strip().endswith("]") or x["id"] in ex.addr_taken:
                st.locals[x["id"]] = ("obj", tm.sym("&L_%s" % nm, "P"))
            else:
                st.locals[x["id"]] = tm.sym("L_%s" % nm, sort_of(q))
    for x in A.walk(node):
        if x.get("kind") == "VarDecl" and "id" in x and "name" in x:
            names[x["name"]] = x["id"]           # declarations inside the loop shadow same-named ones elsewhere in the function
    info = {"names": names, "node": node, "nloops": len(loops), "inner_entries": inner_entries, "inner_iters": inner_iters, "entry_state": st.clone()}
    try:
        import re as _re
        from .. import core as _core
        src_b = open(os.path.join(REPO, rel), "rb").read()
        def _t(n_):
            if not n_ or not isinstance(n_, dict) or not n_.get("kind"):
                return ""
            b_, e_ = A.src_range_text(n_)
            return A.squeeze(src_b[b_:e_].decode("latin1")) if b_ is not None and e_ else ""
        if node.get("kind") == "ForStmt":
            head = {"init": _t(node["inner"][0]), "cond": _t(node["inner"][2]), "inc": _t(node["inner"][3])}
        else:
            head = {"init": "", "cond": "", "inc": ""}
        head.update(kind=node.get("kind"), function=qualname, ordinal=ordinal, rel=rel)
        if getattr(_core.PENDING, "heads", None) is not None:
            _core.PENDING.heads.append(head)
    except Exception:
        pass
    res = ex.iterate_loop(node, st, prepare=(lambda ex_, s_: prepare(ex_, s_, info)) if prepare is not None else None)
    return fn, ex, res, info


def run_region(rel, qualname, select, ctx=None, find_kw=None, loop_mode="havoc"):
    """Statement contract on a region of a large function: `select(body_statements) -> list of statement nodes`
    picks consecutive top-level statements of the function body; they are executed from an ARBITRARY state
    (every local a free symbol L_<name>, arbitrary heap).  Returns (fn, ex, final_states, info)."""
    from . import stl as STLM, symex as SX
    from .symex import is_record_type, sort_of
    fn = A.find_function(rel, qualname, **(find_kw or {}))
    if ctx is None:
        ctx = Ctx()
        ctx.stl = STLM.STL(SX)
    if ctx.loop is None:
        ctx.loop = (lambda ex, st, n, o: ex.havoc_loop(n, st)) if loop_mode == "havoc" else None
    ex = Exec(ctx)
    ex.local_ids = set(); ex.addr_taken = set(); ex.loop_ids = {}
    names = {}
    st = State()
    for x in A.walk(fn):
        k = x.get("kind")
        if k in ("ForStmt", "WhileStmt", "DoStmt"):
            ex.loop_ids[x.get("id")] = len(ex.loop_ids)
        if k == "UnaryOperator" and x.get("opcode") == "&":
            c = x["inner"][0]
            while c.get("kind") == "ParenExpr":
                c = c["inner"][0]
            if c.get("kind") == "DeclRefExpr" and c["referencedDecl"].get("kind") in ("VarDecl", "ParmVarDecl"):
                ex.addr_taken.add(c["referencedDecl"]["id"])
    for x in A.walk(fn):
        if x.get("kind") in ("VarDecl", "ParmVarDecl") and "id" in x:
            ex.local_ids.add(x["id"])
            nm = x.get("name", "_")
            names.setdefault(nm, x["id"])
            q = x["type"].get("desugaredQualType") or x["type"]["qualType"]
            if q.strip().endswith("&"):
                st.locals[x["id"]] = ("ref", ("elem", tm.sym("L_%s_ref" % nm, "P"), tm.num(0, "I")))
            elif is_record_type(q, ctx) or q.strip().endswith("]") or x["id"] in ex.addr_taken:
                st.locals[x["id"]] = ("obj", tm.sym("&L_%s" % nm, "P"))
            else:
                st.locals[x["id"]] = tm.sym("L_%s" % nm, sort_of(q))
    try:
        stmts = select(A.body_of(fn).get("inner", []))
    except TypeError:
        stmts = None
    if stmts is None and getattr(select, "whole_function", False):
        stmts = select.pick(fn)
    if not stmts:
        raise Undecided("region not found in %s" % qualname)
    states = [st]
    for n in stmts:
        states = ex.exec(n, states)
    return fn, ex, states, {"names": names, "stmts": stmts}
