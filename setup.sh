#!/bin/sh
# MANIFEST.setup_cmd: nothing is fetched or built; verify the tools the checks drive are present.
set -e
for t in cbmc goto-cc goto-instrument clang++ gcc python3-vt z3 cvc5; do command -v $t >/dev/null || { echo "missing tool: $t"; exit 1; }; done
python3-vt -c "import z3, sympy; print('z3', z3.get_version_string(), 'sympy', sympy.__version__)"
cbmc --version
mkdir -p /verif/evidence /verif/replays /verif/.cache
echo setup ok
