/* Contracts for src/Var.c (real file, compiled as C by goto-cc).  Attached to the
 * unmodified definitions through these forward declarations.
 * Oracle: Var.h doxygen + property C05 ("variant copy/clear discipline").
 * VERIF_TWIN perturbs one postcondition per function (must-fail twin, vacuity guard). */
#ifndef VERIF_VAR_CONTRACTS_H
#define VERIF_VAR_CONTRACTS_H
#include <stddef.h>
#include "Var.h"

#ifndef VERIF_MAXN
#define VERIF_MAXN 16
#endif

/* ghost: exact size (strlen+1) of the source C string handed to VarAllocString/VarCopy */
extern size_t g_n;

#define VT_OK(t) ((t)==TT_EMPTY||(t)==TT_ERROR||(t)==TT_LONG||(t)==TT_DOUBLE||(t)==TT_STRING)
/* a C string occupying exactly g_n bytes: NUL at g_n-1 and nowhere before */
#define IS_CSTR_N(p) (1 <= g_n && g_n <= VERIF_MAXN && __CPROVER_is_fresh((p), g_n) && (p)[g_n-1]==0 && \
    __CPROVER_forall { size_t k_; (k_ < VERIF_MAXN) ==> (k_ + 1 < g_n ==> (p)[k_] != 0) })
#define SAME_N(a,b) (__CPROVER_forall { size_t j_; (j_ < VERIF_MAXN) ==> (j_ < g_n ==> (a)[j_] == (b)[j_]) })

/* Case split on the VAR that is cleared (dfcc needs a was_freed pointer to be an
 * unconditional frees target): -DVERIF_CASE_STRING = it holds a non-NULL string (an
 * owned heap object, separate from everything else); otherwise it does not and its
 * union bytes are arbitrary.  Both cases are enforced; together they cover VT_OK. */
#ifdef VERIF_CASE_STRING
#define DEST_CASE(p) __CPROVER_requires((p)->type == TT_STRING && __CPROVER_is_fresh((p)->sVal, 1))
#define DEST_FREES(p) __CPROVER_frees((p)->sVal)
#define DEST_WAS_FREED(p) __CPROVER_ensures(__CPROVER_was_freed(__CPROVER_old((p)->sVal)))
#else
#define DEST_CASE(p) __CPROVER_requires((p)->type != TT_STRING || (p)->sVal == NULL)
#define DEST_FREES(p) __CPROVER_frees()
#define DEST_WAS_FREED(p)
#endif

#ifdef VERIF_TWIN
#define TW(x, y) y
#else
#define TW(x, y) x
#endif

void VarInit(VAR* pvar)
__CPROVER_requires(__CPROVER_is_fresh(pvar, sizeof(VAR)))
__CPROVER_assigns(*pvar)
__CPROVER_ensures(pvar->type == TW(TT_EMPTY, TT_LONG))
__CPROVER_ensures(pvar->sVal == NULL)
;

void VarFreeString(char* pSrc)
__CPROVER_requires(pSrc == NULL || __CPROVER_is_fresh(pSrc, 1))
__CPROVER_assigns()
__CPROVER_frees(pSrc)
__CPROVER_ensures(pSrc != NULL ==> TW(__CPROVER_was_freed(pSrc), !__CPROVER_was_freed(pSrc)))
;

/* valid type: string released exactly when TT_STRING, result TT_EMPTY / VR_OK */
VRESULT VarClear(VAR* pvar)
__CPROVER_requires(__CPROVER_is_fresh(pvar, sizeof(VAR)))
#ifndef VERIF_BADTYPE
__CPROVER_requires(VT_OK(pvar->type))
#endif
DEST_CASE(pvar)
__CPROVER_assigns(*pvar)
DEST_FREES(pvar)
__CPROVER_ensures(VT_OK(__CPROVER_old(pvar->type)) ==> __CPROVER_return_value == VR_OK && pvar->type == TW(TT_EMPTY, TT_ERROR) && pvar->sVal == NULL)
DEST_WAS_FREED(pvar)
__CPROVER_ensures(!VT_OK(__CPROVER_old(pvar->type)) ==> __CPROVER_return_value == VR_BADVARTYPE && pvar->type == __CPROVER_old(pvar->type))
;

char* VarAllocString(const char* pSrc)
__CPROVER_requires(pSrc == NULL || IS_CSTR_N(pSrc))
__CPROVER_assigns()
__CPROVER_ensures(pSrc == NULL ==> __CPROVER_return_value == NULL)
__CPROVER_ensures(pSrc != NULL && __CPROVER_return_value != NULL ==>
                  __CPROVER_is_fresh(__CPROVER_return_value, g_n) && TW(SAME_N(__CPROVER_return_value, pSrc), __CPROVER_return_value[0] != pSrc[0]))
#ifdef VERIF_ALLOC_OK
/* run with --no-malloc-may-fail: when allocation succeeds EVERY non-NULL source string (the empty one included) is copied */
__CPROVER_ensures(pSrc != NULL ==> __CPROVER_return_value != NULL)
#endif
;

/* VarCopy: deep copy; source untouched; old destination string released once;
 * allocation failure -> TT_ERROR / VR_OUTOFMEMORY.  Contract boundary: dest != src (is_fresh). */
VRESULT VarCopy(VAR* pvarDest, const VAR* pvarSrc)
__CPROVER_requires(__CPROVER_is_fresh(pvarDest, sizeof(VAR)) && VT_OK(pvarDest->type))
DEST_CASE(pvarDest)
__CPROVER_requires(__CPROVER_is_fresh(pvarSrc, sizeof(VAR)) && VT_OK(pvarSrc->type))
__CPROVER_requires(pvarSrc->type != TT_STRING || pvarSrc->sVal == NULL || IS_CSTR_N(pvarSrc->sVal))
__CPROVER_assigns(*pvarDest)
DEST_FREES(pvarDest)
__CPROVER_ensures(__CPROVER_return_value == VR_OK || __CPROVER_return_value == VR_OUTOFMEMORY)
__CPROVER_ensures(__CPROVER_return_value == VR_OK ==> pvarDest->type == pvarSrc->type)
__CPROVER_ensures(__CPROVER_return_value == VR_OK && pvarSrc->type == TT_LONG ==> pvarDest->lVal == TW(pvarSrc->lVal, pvarSrc->lVal + 1))
__CPROVER_ensures(__CPROVER_return_value == VR_OK && pvarSrc->type == TT_DOUBLE ==> pvarDest->lVal == pvarSrc->lVal) /* same 64 bits as the double member */
__CPROVER_ensures(__CPROVER_return_value == VR_OK && pvarSrc->type == TT_ERROR ==> pvarDest->vresult == pvarSrc->vresult)
__CPROVER_ensures(__CPROVER_return_value == VR_OK && pvarSrc->type == TT_EMPTY ==> pvarDest->sVal == NULL)
__CPROVER_ensures(__CPROVER_return_value == VR_OK && pvarSrc->type == TT_STRING && pvarSrc->sVal == NULL ==> pvarDest->sVal == NULL)
__CPROVER_ensures(__CPROVER_return_value == VR_OK && pvarSrc->type == TT_STRING && pvarSrc->sVal != NULL ==>
                  pvarDest->sVal != NULL && pvarDest->sVal != pvarSrc->sVal &&
                  !__CPROVER_same_object(pvarDest->sVal, pvarSrc->sVal) && SAME_N(pvarDest->sVal, pvarSrc->sVal))
__CPROVER_ensures(__CPROVER_return_value == VR_OUTOFMEMORY ==> pvarSrc->type == TT_STRING && pvarSrc->sVal != NULL &&
                  pvarDest->type == TT_ERROR && pvarDest->vresult == VR_OUTOFMEMORY)
DEST_WAS_FREED(pvarDest)
;
#endif
