"""C04 (fifth wave): the DUMP block of IPhreeqc::do_run's simulation loop.

The text a simulation contributes to DumpString is exactly what dump_ostream wrote for THAT simulation, whatever call the simulation was
delivered in: the stream handed to dump_ostream is created (or emptied) inside the pass, `-append` alone decides between `+=` and `=`, the
request (dump_info) consumed by the file dump is put back from the copy taken before it, and DumpLines is rebuilt from the updated string.
The statements of the block (from the declaration of the saved request to the `if` that holds the dump_ostream call) are located by what
they DO (calls to dump_entities / dump_ostream), executed symbolically from an arbitrary state, and the obligations are read from the call
events with their receiver / argument terms and from the path conditions.  Nothing is compared as source text."""
from props.c13_ext_util import *

UNITS = []


def _mcalls(n, name):
    return [y for y in A.walk(n) if y.get("kind") == "CXXMemberCallExpr" and y.get("inner") and strip(y["inner"][0]).get("name") == name]


def _dump_region(fn):
    loops = [x for x in A.walk(fn) if x.get("kind") in ("ForStmt", "WhileStmt", "DoStmt")]
    sim = [lp for lp in loops if _mcalls(lp, "read_input") and _mcalls(lp, "dump_ostream")]
    sim = [lp for lp in sim if not any(o is not lp and lp in list(A.walk(o)) for o in sim)]
    if len(sim) != 1:
        raise Undecided("do_run: simulation loop (read_input ... dump_ostream) not found (%d candidates)" % len(sim))
    bodyn = sim[0]["inner"][-1]
    body = bodyn.get("inner", []) if bodyn.get("kind") == "CompoundStmt" else [bodyn]
    ks = [k for k, st in enumerate(body) if _mcalls(st, "dump_ostream") or _mcalls(st, "dump_entities")]
    if not ks or not any(_mcalls(body[k], "dump_ostream") for k in ks):
        raise Undecided("do_run: no statement of the simulation loop body calls dump_ostream")
    lo = min(ks)
    while lo > 0 and body[lo - 1].get("kind") == "DeclStmt":
        lo -= 1
    return sim[0], body[lo:max(ks) + 1]


def unit_dump_block(twin=False):
    q = "IPhreeqc::do_run"
    fn = A.find_function(IPQ, q)
    uid = "C04.do_run.dump_string_gets_exactly_this_simulations_dump(fresh_stream,append_decides,request_restored,lines_rebuilt)"
    r = U.new_unit(uid, IPQ, q, fn)
    sim, stmts = _dump_region(fn)
    stash = {}
    c = ctx(functional=("Get_bool_any", "Get_append")); c.log_stores = True

    def loop(ex, st, n, o):
        stash.setdefault(id(n), []).extend(ex.iterate_loop(n, st.clone()))
        return ex.havoc_loop(n, st)
    c.loop = loop
    f, ex, sts, info = region(IPQ, q, stmts, c)
    PP = tm.select(tm.sym("H0.PhreeqcPtr:P", ("A", "P", "P")), THIS)
    DI = tm.app("fld:dump_info", (PP,), "P")
    on = tm.select(tm.sym("H0.DumpStringOn:B", ("A", "P", "B")), THIS)
    anyreq = tm.to_bool(tm.app("call:Get_bool_any", (DI,), "B"))
    app = tm.to_bool(tm.app("call:Get_append", (DI,), "B"))
    if twin:
        app = tm.not_(app)
    seen = set()
    iss_ok = {}
    for i, s in enumerate(live(sts, ("run",))):
        E = [e for e in s.events if not isinstance(e, tuple) and e.name != "store"]
        pos = {id(e): k for k, e in enumerate(E)}
        dumps = [e for e in E if short(e) == "dump_ostream"]
        upd = [e for e in E if field_of_recv(e.recv) == "DumpString" and short(e) in ("operator+=", "operator=", "append", "assign", "swap", "clear", "push_back", "insert")]
        clr = [e for e in E if field_of_recv(e.recv) == "DumpLines" and short(e).endswith("clear")]
        tag = "[path %d]" % i
        if not dumps:
            seen.add("none")
            ok(r, "no_string_dump_only_when_the_switch_is_off_or_nothing_is_requested" + tag, proved(s.pc, tm.not_(tm.and_(on, anyreq))), repr(s.pc)[:160], backend="z3-5.1")
            ok(r, "without_a_dump_the_string_and_its_lines_are_left_alone" + tag, not upd and not clr, repr([short(e) for e in upd + clr]), kind="frame")
            continue
        ok(r, "string_dump_only_when_the_switch_is_on_and_something_is_requested" + tag, len(dumps) == 1 and proved(s.pc, tm.and_(on, anyreq)), repr(s.pc)[:160], backend="z3-5.1")
        d = dumps[0]
        a = d.args[0] if d.args else None
        ok(r, "dump_written_by_the_engine_of_this_instance" + tag, d.recv is PP, repr(d.recv)[:80], kind="trace")
        # (1) the stream belongs to this pass: constructed empty inside the block, or emptied, before dump_ostream, and untouched in between
        born = [e for e in E if e.name.startswith("ctor ") and "ostringstream" in e.name and e.recv is a and not e.args and pos[id(e)] < pos[id(d)]]
        born += [e for e in E if short(e) == "str" and e.recv is a and len(e.args) == 1 and pos[id(e)] < pos[id(d)] and (strlit(e.args[0]) == "" or "ctor" in repr(e.args[0]) or "basic_string" in repr(e.args[0]))]
        touched = []
        if born:
            b0 = max(pos[id(e)] for e in born)
            touched = [e for e in E[b0 + 1:pos[id(d)]] if e.recv is a or any(x is a for x in e.args if isinstance(x, tm.T))]
        ok(r, "stream_handed_to_dump_ostream_is_created_or_emptied_in_this_pass_and_untouched_before" + tag, bool(born) and not touched,
           "stream %r: %s" % (a, "not constructed / emptied inside the pass: it carries the earlier simulations of the call" if not born else "written before the dump: %r" % [short(e) for e in touched]), kind="trace")
        # (2) the request the file dump consumed is put back from the copy taken before it
        saves = [e for e in E if e.name.startswith("ctor ") and "dumper" in e.name and e.args and e.args[0] is DI]
        des = [e for e in E if short(e) == "dump_entities"]
        rest = [e for e in E if short(e) == "operator=" and e.recv is DI and saves and e.args and any(e.args[0] is sv.recv for sv in saves)]
        readers = [e for e in E if short(e) in ("Get_bool_any", "Get_append", "dump_ostream")]
        good = bool(saves) and bool(rest) and all(pos[id(saves[0])] < pos[id(x)] for x in des) and all(pos[id(x)] < pos[id(rest[-1])] for x in des) \
            and all(pos[id(rest[-1])] < pos[id(x)] for x in readers) and not [e for e in E[pos[id(rest[-1])] + 1:pos[id(d)]] if e.recv is DI and short(e) not in ("Get_bool_any", "Get_append")]
        ok(r, "request_saved_before_the_file_dump_and_restored_before_the_string_dump_reads_it" + tag, good, repr([short(e) for e in E])[:200], kind="trace")
        # (3) `-append` decides between += and =; the text is what this stream holds after dump_ostream
        texts = [e for e in E if short(e) == "str" and e.recv is a and not e.args and pos[id(e)] > pos[id(d)]]
        one = len(upd) == 1 and upd[0].args and any(upd[0].args[0] is t.result for t in texts) and upd[0].recv.args[1] is THIS
        ok(r, "DumpString_updated_once_with_the_text_of_this_stream_taken_after_dump_ostream" + tag, bool(one), repr(upd)[:200], kind="trace")
        if one:
            appended = short(upd[0]) in ("operator+=", "append")
            seen.add("append" if appended else "replace")
            ok(r, ("appended_only_when_-append_is_set" if appended else "replaced_only_when_-append_is_not_set") + tag, proved(s.pc, app if appended else tm.not_(app)), repr(s.pc)[:200], backend="z3-5.1")
            ga = [e for e in E if short(e) == "Get_append"]
            ok(r, "-append_read_from_the_restored_request_of_this_engine" + tag, bool(ga) and all(e.recv is DI for e in ga), repr(ga)[:120], kind="trace")
        # (4) DumpLines rebuilt from the updated string
        cts = [e for e in E if e.name.startswith("ctor ") and "istringstream" in e.name and e.args and "DumpString:" in repr(e.args[0]) and "(this,)" in repr(e.args[0])]
        good = one and len(clr) == 1 and len(cts) == 1 and pos[id(upd[0])] < pos[id(clr[0])] < pos[id(cts[0])]
        ok(r, "DumpLines_cleared_and_split_from_DumpString_after_the_update" + tag, bool(good), repr([short(e) for e in E[pos[id(d)]:]])[:200], kind="trace")
        for e in cts:
            iss_ok[id(e.recv)] = e.recv
    # the splitting loop: one line of that stream per pass into DumpLines
    n = 0; bad = None
    for its in stash.values():
        for s in [x for x in its if x.status in ("run", "cont", "brk") and B.z3_sat(list(x.pc)) != "unsat"]:
            E = [e for e in U.iter_events(s) if not isinstance(e, tuple) and e.name != "store"]
            gl = [e for e in E if short(e) == "getline"]
            pb = [e for e in E if e.name == "vector.push_back"]
            if not gl and not pb:
                continue
            n += 1
            if len(gl) != 1 or len(pb) != 1 or field_of_recv(pb[0].recv) != "DumpLines" or not any(gl[0].args[0] is v for v in iss_ok.values()):
                bad = bad or repr([(short(e), repr(e.recv)[:40]) for e in E])[:200]
    ok(r, "every_line_read_from_the_stream_over_DumpString_goes_into_DumpLines(one_entry_per_getline)", bad is None and n >= 1, bad or "%d iteration paths" % n, kind="trace")
    statics = [x.get("name") for x in A.walk(fn) if x.get("kind") == "VarDecl" and x.get("storageClass") == "static" and "stream" in (x.get("type", {}).get("qualType", ""))]
    ok(r, "no_stream_of_do_run_has_static_storage(it_would_outlive_the_pass)", not statics, repr(statics), kind="structural")
    reach(r, "reach.append_replace_and_no_dump", seen == {"append", "replace", "none"}, repr(sorted(seen)))
    r.assumptions += ["statement contract on the DUMP block of one pass of the simulation loop (arbitrary entry state); its position between COPY and DELETE: unit C04.do_run.each_simulation_takes_the_same_steps...",
                      "std::ostringstream() starts empty; str() returns everything written to the stream since; std::string::operator+= appends, operator= replaces (library)",
                      "dumper::Get_bool_any / Get_append are accessors of the request; dumper's copy constructor / assignment copy every member (not under this unit)",
                      "dump_ostream writes the selected entities to the stream it is given: unit C04.dump_ostream.each_selected_entry_of_each_kind_is_written_exactly_once",
                      "the order of the restore relative to the readers is read from the event sequence (the accessors are modelled as functions of the request object)"]
    return r


UNITS.append(("C04.do_run.dump_string_gets_exactly_this_simulations_dump(fresh_stream,append_decides,request_restored,lines_rebuilt)", unit_dump_block))
