"""C15 (extension 2): the solution-definition path.  Equivalent descriptions of one solution (options in another order, SOLUTION block versus
SOLUTION_SPREAD row, another solution number, other spelling / position of the unit on a concentration line) must leave the same data in the
members that convert_units and initial_solutions read.
 * read_solution / spread_row_to_solution: every option of the option switch stores the number / word read on ITS line in ITS member of the solution
   being defined and touches no other member (so the order of the option lines cannot matter); both readers agree on which member an option means;
 * the fix-up loop after the lines: a component without a unit of its own gets the unit of the block, one with a unit gets that unit normalised
   against the block's unit; the solution is stored under its own number;
 * cxxISolutionComp::read: each token of a concentration line goes to its own member (value, unit, `as` formula, gfw, redox couple, phase, SI);
 * the accessor pairs of cxxISolutionComp / cxxISolution / cxxSolution used on this path read the member their setter writes.
The other units of this extension are in c15_ext2_*.py."""
from props.common import *
from props.c01_ext_util import put, valid, eqr, proved, I, lives
from vf.core import FAILED, DISCHARGED, UNDECIDED
from vf.astvc import symex as SX

READ = "src/phreeqcpp/read.cpp"
SPREAD = "src/phreeqcpp/spread.cpp"
ENUMS = ["TRUE", "FALSE", "OK", "ERROR", "OPTION_EOF", "OPTION_KEYWORD", "OPTION_ERROR", "OPTION_DEFAULT", "EOF", "KEYWORD", "DIGIT", "EMPTY", "UNKNOWN", "CONTINUE",
         "UPPER", "LOWER"]
ONE = tm.num(1, "I")


# ------------------------------------------------------------------------------------------------ models of the by-reference helpers
def scan_handler(ex, st, n, name, recv, args):
    """sscanf(text, "%lf", &x): returns the number of conversions; x holds the number read when that is 1 and keeps its value otherwise"""
    fr = SX.fresh("scanned", "R")
    res = SX.fresh("nconv", "I")
    if len(args) >= 3 and args[2].sort == "P":
        lv = ex.deref(st, args[2])
        old = ex.load(st, lv, "R")
        ex.store(st, lv, tm.ite(tm.eq(res, ONE), fr, old), "R")
    e = SX.Event(name, recv, args, res, n)
    e.snap = {"value": fr, "source": args[0]}
    st.events.append(e)
    return [(st, res)]


def token_handler(ex, st, n, name, recv, args):
    """copy_token(token, &ptr): `token` receives the next word of the text (an arbitrary string), the result is its class"""
    argn = n["inner"][1:]
    tok = SX.fresh("token", "S")
    for s, l in ex.lv(argn[0], st):
        ex.store(s, l, tok, "S")
    e = SX.Event(name, recv, args, SX.fresh("toktype", "I"), n)
    e.snap = {"token": tok}
    st.events.append(e)
    return [(st, e.result)]


def check_units_handler(ex, st, n, name, recv, args):
    """check_units(units, alk, check_compatibility, default_units, print): normalises `units` in place (unit C15.check_units...) and returns OK/ERROR"""
    argn = n["inner"][1:]
    canon = tm.app("canonical_unit", (args[0],), "S")
    for s, l in ex.lv(argn[0], st):
        ex.store(s, l, canon, "S")
    e = SX.Event(name, recv, args, SX.fresh("ret_check_units", "I"), n)
    e.snap = {"canon": canon, "raw": args[0]}
    st.events.append(e)
    return [(st, e.result)]


def lower_handler(ex, st, n, name, recv, args):
    """Utilities::str_tolower(s): s becomes its lower-case form"""
    argn = n["inner"][1:]
    v = tm.app("lower", (args[0],), "S")
    for s, l in ex.lv(argn[0], st):
        ex.store(s, l, v, "S")
    st.events.append(SX.Event(name, recv, args, I(0), n))
    return [(st, I(0))]


def string_assign(ex, st, n, name, *rest):
    """s = expr for a std::string LOCAL s: the local takes the value (other left sides: an event, as without this model)"""
    if len(rest) != 1:
        return None             # reached again through do_call: treat as an opaque call (event)
    arg_nodes = rest[0]
    out = []
    for s1, v in ex.ev(arg_nodes[1], st):
        for s2, l in ex.lv(arg_nodes[0], s1):
            if l[0] == "local" and not isinstance(s2.locals.get(l[1]), tuple):
                ex.store(s2, l, ex.coerce(v, "S"), "S")
                out.append((s2, v))
            else:
                return ex.do_call(n, st, name, arg_nodes[0], arg_nodes[1:], recv_is_ptr=False)
    return out


def reader_ctx(extra_functional=()):
    c = ctx(functional=tuple(extra_functional), enums_from="Phreeqc.h", enums=ENUMS)
    c.record_types.update({"CParser", "CReaction", "defaults", "class defaults", "spread_row", "cxxNumKeyword"})
    c.handlers["sscanf"] = scan_handler
    c.handlers["copy_token"] = token_handler
    c.handlers["check_units"] = check_units_handler
    c.handlers["str_tolower"] = lower_handler
    c.handlers["std::basic_string<char>::operator="] = string_assign
    c.loop = lambda ex_, st, nd, o: ex_.havoc_loop(nd, st)
    return c


def opt_names(fn):
    for x in A.walk(fn):
        if x.get("kind") == "VarDecl" and x.get("name") == "opt_list":
            return [y.get("value", "").strip('"') for y in A.walk(x) if y.get("kind") == "StringLiteral"]
    raise Undecided("option table opt_list not found")


def outer_switch_with(fn, rel, needle):
    sws = [x for x in A.walk(fn) if x.get("kind") == "SwitchStmt" and needle in text_of(rel, x)]
    sws = [x for x in sws if not any(y is not x and any(z is x for z in A.walk(y)) for y in sws)]
    if len(sws) != 1:
        raise Undecided("option switch (containing %s) not found: %d" % (needle, len(sws)))
    return sws[0]


def opt_of(s, optsym):
    ks = [int(c_.args[1].args[0]) for c_ in s.pc if c_.op == "==" and c_.args[0] is optsym and tm.isnum(c_.args[1])]
    return ks[0] if len(ks) == 1 else None


def short(e):
    return e.name.split("::")[-1].split(".")[-1]


def check_iterator_range(r, label, ex, info, its, rel, fn=None):
    info = dict(info); info["fn"] = fn
    """the loop visits every element of the container: its iterator starts at begin() of the container whose end() bounds the loop and is
    advanced by one per pass"""
    node = info["node"]
    init, cond, inc, body = ex.loop_parts(node)
    var = None
    for x in A.walk(inc) if inc else []:
        if x.get("kind") == "DeclRefExpr" and x.get("referencedDecl", {}).get("kind") == "VarDecl":
            var = x["referencedDecl"]["name"]; break
    if var is not None and init is None:
        # `for ( ; it != end; it++)`: the iterator is initialised by its declaration before the loop
        fn_ = info.get("fn")
        for x in A.walk(fn_) if fn_ else []:
            if x.get("kind") == "DeclStmt" and any(y.get("kind") == "VarDecl" and y.get("name") == var and y.get("init") for y in x.get("inner", [])):
                init = x
    if var is None or init is None:
        put(r, label + ".iterator_found", False, "", undecided=True); return
    v0 = cont = None
    for s0 in ex.exec(init, [info["entry_state"].clone()]):
        v0 = local(info, s0, var)
        b = [e for e in s0.events if short(e) == "begin" and e.result is v0]
        cont = b[0].recv if b else None
    ends = [t for s_ in its[:1] for p in s_.pc[:1] for t in tm.subterms(p) if t.op == "app" and t.args[0] == "mend"]
    ok = cont is not None and len(ends) == 1 and ends[0].args[1] is cont and its[0].pc[0].op == "not"
    put(r, label + ".starts_at_begin()_and_runs_to_end()_of_the_same_container", ok, "start %r of %r, bound %r" % (v0, cont, ends), kind="establishment")
    t = text_of(rel, inc)
    put(r, label + ".advances_by_one_element", t in (var + "++", "++" + var), t, kind="establishment")


# what an option may touch: setters of the solution / its initial data, and the three keyed stores
SCALAR = {"temp": "Set_tc", "temperature": "Set_tc", "dens": "Set_density", "density": "Set_density", "water": "Set_mass_water",
          "press": "Set_patm", "pressure": "Set_patm", "potential": "Set_potV"}
ALLOWED = {"temp": {"Set_tc"}, "temperature": {"Set_tc"}, "dens": {"Set_density", "Set_calc_density"}, "density": {"Set_density", "Set_calc_density"},
           "units": {"Set_units"}, "unit": {"Set_units"}, "redox": {"Set_default_pe", "store:Get_pe_reactions"}, "ph": {"Set_ph", "store:Get_comps"},
           "pe": {"Set_pe", "store:Get_comps"}, "isotope": {"store:Get_isotopes"}, "water": {"Set_mass_water"}, "press": {"Set_patm"}, "pressure": {"Set_patm"},
           "potential": {"Set_potV"}, "description": {"Set_description"}, "desc": {"Set_description"}, "descriptor": {"Set_description"},
           "<concentration>": {"store:Get_comps", "store:Get_pe_reactions"}, "<end>": set(), "<error>": set()}
NEUTRAL = {"Set_mass_water": 1, "Set_patm": 1, "Set_potV": 0}        # what an option WITHOUT a number may store (the default of that member)


def effects(s, sol, idata):
    """[(kind, event)] the writes of a path to the solution being defined: setters on the solution / its initial data and assignments into its keyed stores"""
    out = []
    getters = {}
    for e in s.events:
        nm = short(e)
        if nm in ("Get_comps", "Get_pe_reactions", "Get_isotopes") and (e.recv is sol or e.recv is idata):
            getters[e.result] = nm
        if nm.startswith("Set_") and (e.recv is sol or e.recv is idata):
            out.append((nm, e))
        if nm == "operator=" and e.recv is not None and not isinstance(e.recv, tuple):
            for g, gn in getters.items():
                if g in tm.subterms(e.recv):
                    out.append(("store:" + gn, e))
    return out


def unit_option_switch(rel, q, uid, line_of, twin=False):
    fn = A.find_function(rel, q)
    r = U.new_unit(uid, rel, q, fn)
    names = opt_names(fn)
    sw = outer_switch_with(fn, rel, "Set_tc")
    c = reader_ctx()
    f, ex, fin, info = region(rel, q, [sw], c)
    ev = c.enum_values
    cond = strip(sw["inner"][0])
    if cond.get("kind") != "DeclRefExpr":
        raise Undecided("the option switch does not switch on a variable")
    optsym = tm.sym("L_" + cond["referencedDecl"]["name"], "I")
    # the solution being defined / its initial data: the objects the temperature resp. the block unit are stored in
    def recv_of(setter):
        rs = {e.recv for s_ in fin for e in s_.events if short(e) == setter and e.recv is not None and not isinstance(e.recv, tuple)}
        if len(rs) != 1:
            raise Undecided("receiver of %s not unique (%d)" % (setter, len(rs)))
        return rs.pop()
    sol, idata = recv_of("Set_tc"), recv_of("Set_units")
    special = {ev["OPTION_DEFAULT"]: "<concentration>", ev["OPTION_EOF"]: "<end>", ev["OPTION_KEYWORD"]: "<end>", ev["OPTION_ERROR"]: "<error>"}
    scalar = dict(SCALAR)
    if twin:
        scalar["water"] = "Set_density"
    seen = {}
    nread = {}
    for s in lives(fin, ("run", "cont", "brk", "ret")):
        k = opt_of(s, optsym)
        if k is None:
            # the path of an option number that has no case: nothing may be written
            eff = effects(s, sol, idata)
            put(r, "no_case.nothing_written", not eff, repr([x[0] for x in eff]), kind="frame")
            continue
        nm = special.get(k) or (names[k] if 0 <= k < len(names) else None)
        if nm is None:
            continue
        eff = effects(s, sol, idata)
        kinds = [x[0] for x in eff]
        allowed = ALLOWED.get(nm)
        if allowed is None:
            put(r, "option.-%s.known_to_the_contract" % nm, False, "no specification for this option", undecided=True); continue
        tag = "option.-%s" % nm if not nm.startswith("<") else nm
        bad = [x for x in kinds if x not in allowed]
        if bad or nm not in seen:
            put(r, "%s.writes_only_%s" % (tag, "+".join(sorted(allowed)) or "nothing"), not bad, repr(bad), kind="frame")
        seen.setdefault(nm, set()).update(kinds)
        hy = list(s.pc)
        scans = [e for e in s.events if short(e) == "sscanf"]
        toks = [e for e in s.events if short(e) == "copy_token"]
        if nm in scalar:
            setter = scalar[nm]
            sets = [e for kd, e in eff if kd == setter]
            # the number stored is the first number read on this line (from the rest of the line or from its first word)
            first = scans[0] if scans else None
            okscan = first is not None and (not toks or toks[0].snap["token"] in tm.subterms(first.snap["source"]) or len(toks) == 0)
            got_number = hy + [tm.eq(first.result, ONE)] if first is not None else None
            if got_number is not None and B.z3_sat(got_number) != "unsat":
                nread[nm] = 1
                ok = len(sets) == 1 and okscan and proved(got_number, tm.eq(sets[0].args[0], first.snap["value"]))
                put(r, "%s.number_read_on_the_line_is_stored_by_%s#%d" % (tag, setter, len(r.obligations)), ok, repr([e.args for e in sets])[:200])
            else:
                ok = all(tm.isnum(e.args[0]) and setter in NEUTRAL and e.args[0].args[0] == NEUTRAL[setter] for e in sets)
                put(r, "%s.without_a_number_the_member_is_kept_or_reset_to_its_default#%d" % (tag, len(r.obligations)), ok, repr([e.args for e in sets])[:200])
            if nm in ("dens", "density"):
                cd = [e for kd, e in eff if kd == "Set_calc_density"]
                put(r, "%s.calculate_flag_only_switched_on#%d" % (tag, len(r.obligations)), all(e.args[0] is tm.TRUE for e in cd), repr([e.args for e in cd]))
        elif nm in ("units", "unit"):
            sets = [e for kd, e in eff if kd == "Set_units"]
            cu = [e for e in s.events if short(e) == "check_units"]
            if sets:
                nread[nm] = 1
                ok = len(sets) == 1 and len(cu) == 1 and toks and cu[0].snap["raw"] is toks[0].snap["token"] and sets[0].args[0] is cu[0].snap["canon"] and sets[0].recv is idata
                put(r, "%s.word_read_on_the_line_normalised_by_check_units_is_the_block_unit#%d" % (tag, len(r.obligations)), ok, repr([e.args for e in sets + cu])[:200])
                acc = [p for p in s.pc if cu and cu[0].result in tm.subterms(p)]
                put(r, "%s.stored_only_after_the_result_of_check_units_was_tested#%d" % (tag, len(r.obligations)), bool(acc) and not any(p.op == "not" for p in acc), repr(acc)[:200])
        elif nm in ("ph", "pe"):
            setter = "Set_ph" if nm == "ph" else "Set_pe"
            if twin and nm == "pe":
                setter = "Set_ph"
            sets = [e for kd, e in eff if kd in ("Set_ph", "Set_pe")]
            rd = [e for e in s.events if e.name.endswith("cxxISolutionComp::read")]
            gc = [e for e in s.events if short(e) == "Get_input_conc"]
            if sets:
                nread[nm] = 1
                ok = len(sets) == 1 and short(sets[0]) == setter and len(rd) == 1 and gc and sets[0].args[0] is gc[-1].result and gc[-1].recv is rd[0].recv \
                    and rd[0].args[0] is line_of(ex, s, fn) and rd[0].args[1] is sol
                put(r, "%s.value_parsed_from_this_line_is_stored_by_%s#%d" % (tag, setter, len(r.obligations)), ok, repr([e.args for e in sets + rd])[:300])
            st_ = [e for kd, e in eff if kd == "store:Get_comps"]
            if st_:
                sd = [e for e in s.events if short(e) == "Set_description" and rd and e.recv is rd[0].recv]
                want = '"H(1)"' if nm == "ph" else '"E"'
                ok = len(st_) == 1 and len(sd) == 1 and repr(sd[0].args[0]) == want and st_[0].args[0] is rd[0].recv and s.events.index(sd[0]) < s.events.index(st_[0])
                put(r, "%s.with_a_phase_the_component_is_stored_as_%s#%d" % (tag, want.strip('"'), len(r.obligations)), ok, repr([e.args for e in sd + st_])[:300])
        elif nm == "<concentration>":
            rd = [e for e in s.events if e.name.endswith("cxxISolutionComp::read")]
            st_ = [e for kd, e in eff if kd == "store:Get_comps"]
            if st_:
                nread[nm] = 1
                gd = [e for e in s.events if short(e) == "Get_description"]
                key_ok = gd and rd and gd[0].recv is rd[0].recv and gd[0].result in tm.subterms(st_[0].recv)
                ok = len(st_) == 1 and len(rd) == 1 and st_[0].args[0] is rd[0].recv and rd[0].args[0] is line_of(ex, s, fn) and rd[0].args[1] is sol and key_ok
                put(r, "%s.component_parsed_from_this_line_is_stored_under_its_own_name#%d" % (tag, len(r.obligations)), ok, repr([e.args for e in rd + st_])[:300])
        elif nm == "isotope":
            st_ = [e for kd, e in eff if kd == "store:Get_isotopes"]
            if st_:
                nread[nm] = 1
                iso = st_[0].args[0]
                g = lambda f_: [e for e in s.events if short(e) == f_ and e.recv is iso]
                rat, nme = g("Set_ratio"), g("Set_isotope_name")
                ok = len(st_) == 1 and len(rat) == 1 and len(nme) == 1 and len(toks) >= 2 and scans and toks[0].snap["token"] in tm.subterms(nme[0].args[0]) \
                    and toks[1].snap["token"] in tm.subterms(scans[0].snap["source"]) and proved(hy + [tm.eq(scans[0].result, ONE)], tm.eq(rat[0].args[0], scans[0].snap["value"]))
                put(r, "%s.name_from_the_first_word_ratio_from_the_second#%d" % (tag, len(r.obligations)), ok, repr([e.args for e in nme + rat])[:300])
                gi = [e for e in s.events if short(e) == "Get_isotope_name" and e.recv is iso]
                put(r, "%s.stored_under_its_own_isotope_name#%d" % (tag, len(r.obligations)), bool(gi) and gi[0].result in tm.subterms(st_[0].recv), repr(st_[0].recv)[:200])
        elif nm in ("description", "desc", "descriptor"):
            sets = [e for kd, e in eff if kd == "Set_description"]
            rest = [t for e in sets for t in tm.subterms(e.args[0]) if t.op == "select" and ".mem:P" in repr(t.args[0]) and repr(t.args[1][0]).startswith("&L_")]      # the position behind the option word
            put(r, "%s.the_rest_of_the_cell_is_the_description_of_this_row#%d" % (tag, len(r.obligations)), len(sets) == 1 and sets[0].recv is sol and bool(rest), repr([e.args for e in sets])[:200])
        elif nm == "redox":
            sets = [e for kd, e in eff if kd == "Set_default_pe"]
            if sets:
                nread[nm] = 1
                ok = len(sets) == 1 and toks and toks[0].snap["token"] in tm.subterms(sets[0].args[0]) or (sets and any(e.result is sets[0].args[0] and toks[0].snap["token"] in tm.subterms(e.args[0]) for e in s.events if short(e) == "string_hsave"))
                put(r, "%s.couple_read_on_the_line_becomes_the_default_redox_couple#%d" % (tag, len(r.obligations)), bool(ok), repr([e.args for e in sets])[:200])
    must = [n_ for n_ in names if n_ in ALLOWED and n_ not in ("description", "desc", "descriptor")] + ["<concentration>"]
    for n_ in must:
        put(r, "option.-%s.is_handled(a_value_read_on_its_line_reaches_the_solution)" % n_ if not n_.startswith("<") else "%s.is_handled" % n_, n_ in nread, "no path of this option stores what it reads")
    put(r, "reach.options", len(nread) >= 10, repr(sorted(nread)), kind="vacuity", undecided=True)
    r.assumptions += ["get_option returns the index of the matching entry of opt_list (names are read from the table: reordering table and cases together is harmless)",
                      "sscanf(text, \"%lf\", &x) stores the number read in x and returns the number of conversions; copy_token(token, &ptr) puts the next word in `token`",
                      "check_units normalises its first argument in place (unit C15.check_units...); cxxISolutionComp::read parses the line into the component (unit C15.ISolutionComp.read...)",
                      "statement contract on the option switch: the surrounding loop (one line per pass) is not executed; getters / setters of cxxSolution, cxxISolution are events (accessor pairing: unit C15.accessors...)"]
    return r


def _dup_local(ex, s, fn):
    """the local that holds the text assembled for one column (the copy made by string_duplicate)"""
    sw = outer_switch_with(fn, SPREAD, "Set_tc")
    inside = {id(y) for y in A.walk(sw)}
    for x in A.walk(fn):
        if x.get("kind") == "VarDecl" and id(x) not in inside and any(y.get("kind") == "MemberExpr" and y.get("name") == "string_duplicate" for y in A.walk(x)):
            return tm.sym("L_" + x["name"], "P")
    raise Undecided("string_duplicate copy not found")


def unit_read_solution_switch(twin=False):
    return unit_option_switch(READ, "Phreeqc::read_solution", "C15.read_solution.each_option_stores_what_it_reads_in_its_own_member", lambda ex, s, fn: fld0(ex, s, "line", "P"), twin)


def unit_spread_row_switch(twin=False):
    return unit_option_switch(SPREAD, "Phreeqc::spread_row_to_solution", "C15.spread_row_to_solution.each_column_stores_what_it_reads_in_its_own_member", _dup_local, twin)


# ------------------------------------------------------------------------------------------------ the fix-up loop after the lines
def unit_fixup(rel, q, uid, twin=False):
    """after all lines / columns: a component WITHOUT a unit of its own takes the unit of the block (so `-units mg/l` above or below the concentration
    lines means the same); a component WITH a unit keeps it, normalised by check_units against the block unit (compatibility checked, alkalinity
    recognised by the component's own name); a component without a redox couple takes the block's default couple."""
    from props.c01_ext_util import the_loop
    fn = A.find_function(rel, q)
    r = U.new_unit(uid, rel, q, fn)
    k = the_loop(fn, rel, "Set_pe_reaction(", what="fix-up loop over the components")
    c = reader_ctx(("Get_units", "Get_default_pe", "Get_pe_reaction", "Get_comps"))
    f, ex, its, info = U.run_loop_isolated(rel, q, k, ctx=c)
    seen = set()
    for s in lives(its, ("run", "cont")):
        evs = U.iter_events(s)
        hy = list(s.pc)
        it = [v for v in s.locals.values() if isinstance(v, tm.T) and v.op == "sym" and str(v.args[0]).startswith("iter_") and v.sort == "P"]
        if len(it) != 1:
            put(r, "iteration.one_iterator", False, repr(it), undecided=True); continue
        node = tm.app("mnode", (it[0],), "P")
        comp = tm.app("fld:second", (node,), "P")
        key = tm.select(ex.heap_arr(s, ("f", "first", "S")), node)
        su = [e for e in evs if short(e) == "Set_units"]
        cu = [e for e in evs if short(e) == "check_units"]
        own = tm.app("call:Get_units", (comp,), "S")
        gi = [e for e in evs if e.name.endswith("cxxISolution::Get_units")]
        blocks = {e.result for e in gi}
        put(r, "units.only_the_component_of_this_iteration_is_relabelled#%d" % len(r.obligations), all(e.recv is comp for e in su) and len(su) <= 1, repr([e.recv for e in su])[:200], kind="frame") if su else None
        empty = tm.eq(tm.app("strlen", (own,), "I"), I(0))
        if su and not cu:
            seen.add("no_unit")
            ok = len(blocks) == 1 and su[0].args[0] is tm.app("c_str", (list(blocks)[0],), "P") and gi[0].recv is not comp
            put(r, "units[no_own_unit].takes_the_unit_of_the_block#%d" % len(r.obligations), ok, repr(su[0].args)[:200])
            valid(r, "units[no_own_unit].only_when_the_component_has_no_unit#%d" % len(r.obligations), hy, empty if not twin else tm.not_(empty))
        elif cu:
            valid(r, "units[own_unit].checked_only_when_the_component_has_a_unit#%d" % len(r.obligations), hy, tm.not_(empty))
            e = cu[0]
            ok = len(cu) == 1 and e.snap["raw"] is own and e.args[2] is tm.TRUE and len(blocks) == 1 and e.args[3] is tm.app("c_str", (list(blocks)[0],), "P")
            put(r, "units[own_unit].its_own_unit_is_checked_for_compatibility_with_the_block_unit#%d" % len(r.obligations), ok, repr(e.args)[:300])
            # alkalinity flag <=> the component's own (lower-cased) name starts with "alk"
            ss = [x for x in evs if short(x) == "strstr"]
            lk = tm.app("c_str", (tm.app("lower", (key,), "S"),), "P")
            okn = len(ss) == 1 and ss[0].args[0] is lk and repr(ss[0].args[1]) == '"alk"'
            starts = tm.eq(ss[0].result, lk) if ss else tm.FALSE
            flag = tm.to_bool(e.args[1])
            iff = okn and proved(hy + [flag], starts) and proved(hy + [starts], flag)
            put(r, "units[own_unit].alkalinity_flag_iff_the_component's_own_name_starts_with_alk#%d" % len(r.obligations), iff, "%r %r" % (e.args[1], [x.args for x in ss]))
            acc = [p for p in s.pc if e.result in tm.subterms(p)]
            rejected = any(p.op != "not" for p in acc)      # the path on which check_units returned ERROR
            if su:
                seen.add("own_unit_ok")
                put(r, "units[own_unit].relabelled_with_the_normalised_form_of_its_own_unit#%d" % len(r.obligations),
                    su[0].args[0] is tm.app("c_str", (e.snap["canon"],), "P") and bool(acc) and not rejected, repr(su[0].args)[:200])
            else:
                seen.add("own_unit_bad")
                put(r, "units[own_unit].kept_only_when_check_units_rejects_it#%d" % len(r.obligations), bool(acc) and rejected, repr(acc)[:200])
        else:
            put(r, "units.every_component_is_either_relabelled_or_checked#%d" % len(r.obligations), False, repr(hy)[:200])
        sp = [e for e in evs if short(e) == "Set_pe_reaction"]
        nope = tm.eq(tm.app("strlen", (tm.app("call:Get_pe_reaction", (comp,), "S"),), "I"), I(0))
        if sp:
            seen.add("pe")
            gd_ = [e_ for e_ in evs if short(e_) == "Get_default_pe" and e_.recv is not comp]
            dp = gd_[0].result if gd_ else None
            ok = len(sp) == 1 and sp[0].recv is comp and dp is not None and dp in tm.subterms(sp[0].args[0])
            put(r, "redox[no_own_couple].takes_the_default_couple_of_the_block#%d" % len(r.obligations), ok, repr(sp[0].args)[:200])
            valid(r, "redox[no_own_couple].only_when_the_component_names_no_couple#%d" % len(r.obligations), hy, nope)
        else:
            valid(r, "redox[own_couple].kept#%d" % len(r.obligations), hy, tm.not_(nope))
    check_iterator_range(r, "components", ex, info, its, rel)
    put(r, "reach.cases", {"no_unit", "own_unit_ok", "own_unit_bad", "pe"} <= seen, repr(sorted(seen)), kind="vacuity", undecided=True)
    r.assumptions += ["check_units(u, alk, check_compatibility, block_unit, print) normalises u in place and returns ERROR for an unknown or incompatible unit (unit C15.check_units...)",
                      "Utilities::str_tolower lower-cases its argument in place; getters of the component / block functional; strstr(s, \"alk\") == s means `s starts with alk`",
                      "iteration contract on the loop over the block's components; the loop head is checked by the generic full-traversal obligation"]
    return r


def unit_fixup_read_solution(twin=False):
    return unit_fixup(READ, "Phreeqc::read_solution", "C15.read_solution.component_units_default_to_the_block_unit_whatever_the_line_order", twin)


def unit_fixup_spread(twin=False):
    return unit_fixup(SPREAD, "Phreeqc::spread_row_to_solution", "C15.spread_row_to_solution.component_units_default_to_the_row_unit", twin)


# ------------------------------------------------------------------------------------------------ numbering: stored under its own number
def _top_loops(fn):
    body = A.body_of(fn)["inner"]
    return body, [i for i, x in enumerate(body) if x.get("kind") == "ForStmt"]


def _map_stores(s, mapname):
    """[(key, stored object)] assignments  this-><mapname>[key] = obj  of a path"""
    out = []
    for e in s.events:
        if short(e) == "operator=" and e.recv is not None and not isinstance(e.recv, tuple):
            for t in tm.subterms(e.recv):
                if t.op == "app" and t.args[0] == "miter" and t.args[1] is tm.app("fld:" + mapname, (THIS,), "P"):
                    out.append((t.args[2], e.args[0]))
    return out


def unit_read_solution_number(twin=False):
    """SOLUTION n: the block is stored under the number read from ITS keyword line, is marked as new under that same number (initial_solutions visits
    the numbers of Rxn_new_solution), and carries new_def = true; nothing else decides where it goes."""
    q = "Phreeqc::read_solution"
    fn = A.find_function(READ, q)
    r = U.new_unit("C15.read_solution.stored_and_marked_new_under_the_number_of_its_keyword_line", READ, q, fn)
    body, kf = _top_loops(fn)
    if len(kf) != 2:
        raise Undecided("read_solution: expected the line loop and the fix-up loop at top level (%d loops)" % len(kf))
    c = reader_ctx()
    f, ex, fin, info = region(READ, q, body[:kf[0]] + body[kf[1] + 1:], c)
    n = 0
    for s in lives(fin, ("ret", "run")):
        n += 1
        rn = [e for e in s.events if short(e) == "read_number_description"]
        gn = [e for e in s.events if short(e) == "Get_n_user"]
        st_ = _map_stores(s, "Rxn_solution_map")
        ins = [e for e in s.events if short(e) == "insert" and e.recv is tm.app("fld:Rxn_new_solution", (THIS,), "P")]
        nd = [e for e in s.events if short(e) == "Set_new_def"]
        line = fld0(ex, s, "line", "P")
        ok = len(rn) == 1 and line in tm.subterms(rn[0].args[0]) and len(gn) >= 1 and gn[0].recv is rn[0].recv and s.events.index(rn[0]) < s.events.index(gn[0])
        put(r, "number.read_from_the_keyword_line_of_this_block#%d" % n, ok, repr([e.args for e in rn])[:200])
        if not ok:
            continue
        sol, K = rn[0].recv, gn[0].result
        put(r, "stored.once_under_that_number_and_it_is_this_block#%d" % n, len(st_) == 1 and st_[0][0] is (K if not twin else tm.num(1, "I")) and st_[0][1] is sol, repr(st_)[:200])
        put(r, "marked_new.under_the_same_number#%d" % n, len(ins) == 1 and ins[0].args[0] is K, repr([e.args for e in ins])[:200])
        put(r, "new_def.true_so_that_initial_solutions_speciates_it#%d" % n, len(nd) >= 1 and all(e.recv is sol and e.args[0] is tm.TRUE for e in nd), repr([e.args for e in nd])[:100])
    put(r, "reach.paths", n >= 1, "%d" % n, kind="vacuity", undecided=True)
    # the number is not overwritten by the two loops that were skipped
    names = set()
    for lp in (body[kf[0]], body[kf[1]]):
        for x in A.walk(lp):
            if x.get("kind") in ("BinaryOperator", "CompoundAssignOperator") and x.get("opcode", "").endswith("=") and x.get("opcode") not in ("==", "!=", "<=", ">="):
                l = strip(x["inner"][0])
                if l.get("kind") == "DeclRefExpr":
                    names.add(l["referencedDecl"].get("name"))
    nvar = None
    for x in A.walk(body[kf[1] + 1]) if len(body) > kf[1] + 1 else []:
        if x.get("kind") == "DeclRefExpr" and x.get("referencedDecl", {}).get("kind") == "VarDecl":
            nvar = x["referencedDecl"]["name"]; break
    put(r, "number.not_reassigned_while_the_lines_are_read", nvar is not None and nvar not in names, "%r in %r" % (nvar, sorted(names)), kind="frame")
    r.assumptions += ["cxxNumKeyword::read_number_description parses `SOLUTION n[-m] description` (units C14.read_number_description...); Get_n_user returns the number read",
                      "statement contract on the statements before the line loop and after the fix-up loop (the loops themselves: units C15.read_solution.each_option... / ...component_units...)",
                      "std::map operator[] / std::set insert as in the STL model"]
    return r


DEFAULTS = {"Set_tc": "temp", "Set_patm": "pressure", "Set_ph": "ph", "Set_density": "density", "Set_calc_density": "calc_density", "Set_pe": "pe", "Set_mass_water": "water",
            "Set_units": "units", "Set_default_pe": "redox"}


def unit_spread_row_defaults_and_number(twin=False):
    """SOLUTION_SPREAD, one data row: (a) every row starts from the block's defaults - each setter receives the matching member of `defaults`, on every path,
    whatever the row's number; (b) the number comes from the cell of THIS row in the column headed `number`; the row is stored under that number and
    marked new under it when it is non-negative, and queued as unnumbered otherwise (tidy_solutions numbers those: unit C15.tidy_solutions...)."""
    q = "Phreeqc::spread_row_to_solution"
    fn = A.find_function(SPREAD, q)
    r = U.new_unit("C15.spread_row_to_solution.every_row_starts_from_the_block_defaults_and_is_stored_under_its_own_number", SPREAD, q, fn)
    body, kf = _top_loops(fn)
    if len(kf) != 2:
        raise Undecided("spread_row_to_solution: expected the column loop and the fix-up loop at top level (%d loops)" % len(kf))
    parms = [x for x in fn.get("inner", []) if x.get("kind") == "ParmVarDecl"]
    if len(parms) != 4:
        raise Undecided("spread_row_to_solution: 4 parameters expected")
    heading, units_, data, dflt = [tm.sym(("&L_" if i == 3 else "L_") + p["name"], "P") for i, p in enumerate(parms)]
    first = next((i for i, x in enumerate(body) if x.get("kind") not in ("DeclStmt",)), 0)
    c = reader_ctx(("strcmp_nocase",))
    f, ex, fin, info = region(SPREAD, q, body[first:kf[0]] + body[kf[1] + 1:], c)
    # the search loop for the `number` column
    sl = [lp for lp in A.walk(fn) if lp.get("kind") == "ForStmt" and not any(lp is body[k] or any(y is lp for y in A.walk(body[k])) for k in kf)]
    if len(sl) != 1:
        raise Undecided("search loop for the number column not found (%d)" % len(sl))
    ivar = None
    for x in A.walk(sl[0]["inner"][0]) if sl[0]["inner"][0] else []:
        if x.get("kind") == "DeclRefExpr":
            ivar = x["referencedDecl"]["name"]; break
    if ivar is None:
        for x in A.walk(sl[0]["inner"][3]):
            if x.get("kind") == "DeclRefExpr":
                ivar = x["referencedDecl"]["name"]; break
    seen = set(); n = 0
    for s in lives(fin, ("ret", "run")):
        n += 1
        sol = [e.recv for e in s.events if short(e) == "Set_new_def"]
        if len(sol) != 1:
            put(r, "row.one_solution_object#%d" % n, False, repr(sol)); continue
        sol = sol[0]
        gi = [e for e in s.events if short(e) == "Get_initial_data" and e.recv is sol]
        idata = gi[0].result if gi else None
        bad = []
        for setter, member in sorted(DEFAULTS.items()):
            if twin and setter == "Set_pe":
                member = "ph"
            es = [e for e in s.events if short(e) == setter and (e.recv is sol or e.recv is idata)]
            ok = len(es) == 1 and any(t.op == "select" and len(t.args[1]) == 1 and t.args[1][0] is dflt and (".%s:" % member) in repr(t.args[0]) for t in tm.subterms(es[0].args[0]))
            if not ok:
                bad.append("%s(%s)" % (setter, ", ".join(repr(e.args[0])[:60] for e in es)))
        put(r, "defaults.each_setter_receives_its_own_member_of_the_block_defaults#%d" % n, not bad, "; ".join(bad)[:300], kind="pairing")
        st_ = _map_stores(s, "Rxn_solution_map")
        pb = [e for e in s.events if short(e) == "push_back" and e.recv is tm.app("fld:unnumbered_solutions", (THIS,), "P")]
        sn = [e for e in s.events if short(e) == "Set_n_user" and e.recv is sol]
        rn = [e for e in s.events if short(e) == "read_number_description"]
        ins = [e for e in s.events if short(e) == "insert" and e.recv is tm.app("fld:Rxn_new_solution", (THIS,), "P")]
        put(r, "row.stored_exactly_once#%d" % n, len(st_) + len(pb) == 1, "%d numbered, %d unnumbered" % (len(st_), len(pb)))
        if len(sn) != 1:
            put(r, "row.carries_one_number#%d" % n, False, repr(sn)); continue
        K = sn[0].args[0]
        if st_:
            seen.add("numbered")
            put(r, "numbered.stored_under_the_number_it_carries_and_it_is_this_row#%d" % n, st_[0][0] is K and st_[0][1] is sol, repr(st_)[:200])
            valid(r, "numbered.only_for_a_non-negative_number#%d" % n, list(s.pc), tm.le(I(0), K))
            gn = [e for e in s.events if short(e) == "Get_n_user" and e.result is K]
            ap = [e for e in s.events if short(e) == "append"]
            cell = None
            if ivar is not None:
                iv = local(info, s, ivar)
                cell = tm.add(tm.select(entry_arr(ex, s, ("f", "#vdata", "P")), tm.app("fld:str_vector", (data,), "P")), iv)
            ok = len(rn) == 1 and len(gn) == 1 and gn[0].recv is rn[0].recv and len(ap) == 1 and ap[0].recv is rn[0].args[0] and cell is not None and ap[0].args[0] is cell
            put(r, "numbered.number_parsed_from_the_cell_of_this_row_in_the_number_column#%d" % n, ok, repr([e.args for e in ap + rn])[:300])
            put(r, "numbered.marked_new_under_the_same_number#%d" % n, len(ins) == 1 and ins[0].args[0] is K, repr([e.args for e in ins])[:100])
        elif pb:
            seen.add("unnumbered")
            put(r, "unnumbered.queued_object_is_this_row#%d" % n, pb[0].args[-1] is sol, repr(pb[0].args)[:200])
            hy = list(s.pc)
            if not (tm.isnum(K) and K.args[0] < 0):
                valid(r, "unnumbered.only_for_a_row_without_a_usable_number#%d" % n, hy, tm.lt(K, I(0)))
    put(r, "reach.numbered_and_unnumbered", seen == {"numbered", "unnumbered"}, repr(sorted(seen)), kind="vacuity", undecided=True)
    # the search loop stops at the column headed `number`
    k = [x for x in A.walk(fn) if x.get("kind") in ("ForStmt", "WhileStmt", "DoStmt")].index(sl[0])
    f2, ex2, its, info2 = U.run_loop_isolated(SPREAD, q, k, ctx=reader_ctx(("strcmp_nocase",)))
    nb = 0
    for s in lives(its, ("run", "cont", "brk")):
        iv = local(info2, s, ivar)
        name = tm.app("c_str", (tm.select(entry_arr(ex2, s, ("m", "S")), tm.select(entry_arr(ex2, s, ("f", "#vdata", "P")), tm.app("fld:str_vector", (heading,), "P")), iv),), "P")
        cmp_ = [e for e in U.iter_events(s) if short(e) == "strcmp_nocase"]
        isnum = len(cmp_) == 1 and cmp_[0].args[0] is name and repr(cmp_[0].args[1]) == '"number"'
        put(r, "search.compares_heading[i]_with_`number`#%d" % len(r.obligations), isnum, repr([e.args for e in cmp_])[:200])
        if isnum:
            hit = tm.eq(cmp_[0].result, I(0))
            if s.status == "brk":
                nb += 1
                valid(r, "search.stops_only_at_the_number_column#%d" % len(r.obligations), list(s.pc), hit)
            else:
                valid(r, "search.goes_on_past_every_other_column#%d" % len(r.obligations), list(s.pc), tm.not_(hit))
    put(r, "reach.search", nb >= 1, "%d" % nb, kind="vacuity", undecided=True)
    from props.common import check_loop_range
    check_loop_range(r, "search", ex2, None, info2, its, ivar, I(0), lambda v: tm.lt(v, tm.select(entry_arr(ex2, its[0], ("f", "count", "I")), heading)))
    r.assumptions += ["cxxNumKeyword::read_number_description / Get_n_user as in unit C15.read_solution.stored_and_marked_new...; std::string::append(x) appends x to the text it is called on",
                      "statement contract on the statements before the column loop and after the fix-up loop; the column loop may override a default (unit C15.spread_row_to_solution.each_column...)",
                      "strcmp_nocase functional (0 = equal)"]
    return r


# ------------------------------------------------------------------------------------------------ SOLUTION_SPREAD: block defaults and rows
FIELD = {"temp": {"temp"}, "temperature": {"temp"}, "dens": {"density", "calc_density"}, "density": {"density", "calc_density"}, "units": {"units"}, "unit": {"units"},
         "redox": {"redox"}, "ph": {"ph"}, "pe": {"pe"}, "water": {"water"}, "pressure": {"pressure"}, "press": {"pressure"},
         "isotope": {"iso"}, "isotope_uncertainty": {"iso"}, "uncertainty": {"iso"}, "uncertainties": {"iso"}}
SCRATCH = {"input_error", "error_string", "dummy"}


def unit_read_solution_spread(twin=False):
    """SOLUTION_SPREAD block: (a) an option line changes only ITS member of the block defaults, to the number / word read on that line (so the order of
    the option lines is irrelevant and `-temp 30` means for every row what `-temp 30` means in a SOLUTION block); (b) the first non-option line is the
    heading row; the line after it is a units row only if it contains no number; every other line is converted by spread_row_to_solution with the current
    heading row, units row and defaults - the same for every row."""
    q = "Phreeqc::read_solution_spread"
    fn = A.find_function(SPREAD, q)
    r = U.new_unit("C15.read_solution_spread.options_change_only_their_default_and_every_row_is_converted_alike", SPREAD, q, fn)
    names = opt_names(fn)
    sw = outer_switch_with(fn, SPREAD, "spread_row_to_solution(")
    parent = next(x for x in A.walk(fn) if x.get("kind") == "CompoundStmt" and any(y is sw for y in x.get("inner", [])))
    ksw = next(i for i, y in enumerate(parent["inner"]) if y is sw)
    pre = parent["inner"][ksw - 1] if ksw > 0 and parent["inner"][ksw - 1].get("kind") == "IfStmt" else None
    if pre is None:
        raise Undecided("the statement that counts the non-option lines was not found before the switch")
    cond = strip(sw["inner"][0])
    if cond.get("kind") != "DeclRefExpr":
        raise Undecided("the option switch does not switch on a variable")
    optname = cond["referencedDecl"]["name"]
    c = reader_ctx()
    f, ex, fin, info = region(SPREAD, q, [pre, sw], c)
    ev = c.enum_values
    opt0 = tm.sym("L_" + optname, "I")
    sdv = [x for x in A.walk(fn) if x.get("kind") == "VarDecl" and "defaults" in (x.get("type", {}).get("qualType", ""))]
    if len(sdv) != 1:
        raise Undecided("the block defaults object was not found")
    sd = tm.sym("&L_" + sdv[0]["name"], "P")
    line = None
    seen = {}; rows = set()
    hv = uv = None           # the locals that hold the heading row / the units row
    states = lives(fin, ("run", "cont", "brk", "ret"))
    def changed_locals(s, val):
        return [k for k, v in s.locals.items() if v is val]
    for s in states:
        srow = [e for e in s.events if short(e) == "string_to_spread_row"]
        conv = [e for e in s.events if short(e) == "spread_row_to_solution"]
        if srow and not conv:
            ch = changed_locals(s, srow[0].result)
            kfin = local(info, s, optname)
            if tm.isnum(kfin) and int(kfin.args[0]) == 100 and len(ch) == 1:
                hv = ch[0]
            elif len(ch) >= 1:
                uv = [k for k in ch if k != hv] or uv
    if isinstance(uv, list):
        cand = [k for k in uv if k != hv]
        # the data row itself is also held in a local (row_ptr): the units row is the one that is NOT passed on as the row argument elsewhere
        rowlocals = set()
        for s in states:
            for e in s.events:
                if short(e) == "spread_row_to_solution":
                    rowlocals.update(changed_locals(s, e.args[2]))
        cand = [k for k in cand if k not in rowlocals]
        uv = cand[0] if len(cand) == 1 else None
    if hv is None or uv is None:
        raise Undecided("the locals holding the heading row / units row could not be identified")
    def entry_local(k):
        nm = [n_ for n_, i_ in info["names"].items() if i_ == k]
        return tm.sym("L_" + nm[0], "P") if nm else None
    for s in states:
        hy = list(s.pc)
        kfin = local(info, s, optname)
        k = int(kfin.args[0]) if tm.isnum(kfin) else opt_of(s, opt0)
        ws = []
        for key in s.heap:
            if key[0] != "f":
                continue
            for ix, v in writes(s, key):
                o = ix[0]
                if o is sd:
                    ws.append((key[1], v))
                elif o is THIS:
                    ws.append(("this." + key[1], v))
                elif "fld:iso(%r)" % sd in repr(o):
                    ws.append(("iso", v))
                else:
                    ws.append(("?" + key[1] + "@" + repr(o)[:40], v))
        conv = [e for e in s.events if short(e) == "spread_row_to_solution"]
        srow = [e for e in s.events if short(e) == "string_to_spread_row"]
        if k is None:
            put(r, "no_case.nothing_written", not [w for w in ws if w[0] not in {"this." + x for x in SCRATCH}] and not conv, repr(ws)[:200], kind="frame"); continue
        if 0 <= k < len(names):
            nm = names[k]
            allowed = FIELD.get(nm)
            if allowed is None:
                put(r, "option.-%s.known_to_the_contract" % nm, False, "", undecided=True); continue
            if twin and nm == "water":
                allowed = {"density"}
            bad = [w[0] for w in ws if w[0] not in allowed and w[0] not in {"this." + x for x in SCRATCH}]
            if bad or ("frame", nm) not in seen:
                put(r, "option.-%s.changes_only_the_default_%s" % (nm, "+".join(sorted(allowed))), not bad and not conv, repr(bad)[:200], kind="frame")
            seen[("frame", nm)] = 1
            scans = [e for e in s.events if short(e) == "sscanf"]
            toks = [e for e in s.events if short(e) == "copy_token"]
            mine = [w for w in ws if w[0] in allowed and w[0] not in ("calc_density", "iso")]
            if nm in ("units", "unit", "redox"):
                if mine:
                    hs = [e for e in s.events if short(e) == "string_hsave" and e.result is mine[-1][1]]
                    cu = [e for e in s.events if short(e) == "check_units"]
                    src_ = (cu[0].snap["canon"] if cu else None) if nm != "redox" else (toks[0].snap["token"] if toks else None)
                    ok = len(hs) == 1 and toks and src_ is not None and src_ in tm.subterms(hs[0].args[0]) and (nm == "redox" or cu[0].snap["raw"] is toks[0].snap["token"])
                    put(r, "option.-%s.default_becomes_the_word_read_on_the_line%s#%d" % (nm, "" if nm == "redox" else "_normalised_by_check_units", len(r.obligations)), bool(ok), repr(mine)[:200])
                    gate = [p_ for p_ in s.pc if (cu and cu[0].result in tm.subterms(p_)) or any(short(e) == "parse_couple" and e.result in tm.subterms(p_) for e in s.events)]
                    put(r, "option.-%s.only_an_accepted_word_is_stored#%d" % (nm, len(r.obligations)), bool(gate) and not any(p_.op == "not" for p_ in gate), repr(gate)[:200])
                    seen[("value", nm)] = 1
            elif "iso" not in allowed:
                if scans:
                    got = hy + [tm.eq(scans[0].result, ONE)]
                    if B.z3_sat(got) != "unsat" and mine:
                        ok = proved(got, tm.eq(mine[-1][1], scans[0].snap["value"]))
                        put(r, "option.-%s.default_becomes_the_number_read_on_the_line#%d" % (nm, len(r.obligations)), ok, repr(mine)[:200])
                        seen[("value", nm)] = 1
                    elif B.z3_sat(got) != "unsat":
                        put(r, "option.-%s.default_becomes_the_number_read_on_the_line#%d" % (nm, len(r.obligations)), False, "a number was read but no default was changed")
            continue
        if k == 100 and not tm.isnum(kfin):
            continue            # get_option never returns 100 (assumption): the value is only ever assigned by the line counter
        if k == 100:
            rows.add("heading")
            ok = len(srow) == 1 and line_is(ex, s, srow[0].args[0]) and s.locals.get(hv) is srow[0].result and not conv
            put(r, "heading_row.kept_as_the_heading_row#%d" % len(r.obligations), ok, repr([e.args for e in srow])[:200])
            valid(r, "heading_row.is_the_first_line_that_is_not_an_option#%d" % len(r.obligations), hy, tm.and_(tm.eq(opt0, tm.num(ev["OPTION_DEFAULT"], "I"))))
            continue
        if k == ev["OPTION_DEFAULT"]:
            defaults_kept = not [w for w in ws if not w[0].startswith("this.")]
            if conv:
                rows.add("data")
                e = conv[0]
                ok = len(conv) == 1 and len(srow) == 1 and line_is(ex, s, srow[0].args[0]) and e.args[2] is srow[0].result and e.args[0] is entry_local(hv) and e.args[1] is entry_local(uv) and e.args[3] is sd
                put(r, "data_row.converted_once_with_the_current_heading_units_and_defaults#%d" % len(r.obligations), ok and defaults_kept, repr(e.args)[:300])
            else:
                rows.add("units")
                ok = len(srow) == 1 and s.locals.get(uv) is srow[0].result and defaults_kept
                put(r, "units_row.kept_as_the_units_row#%d" % len(r.obligations), ok, repr([e.args for e in srow])[:200])
                nonum = [p_ for p_ in s.pc if p_.op == "==" and tm.isnum(p_.args[1]) and p_.args[1].args[0] == 0 and str(p_.args[0]).startswith("havoc_")]
                put(r, "units_row.only_a_line_without_any_number#%d" % len(r.obligations), len(nonum) == 1, repr(s.pc)[:200])
                cnt = [k_ for k_, v in s.locals.items() if isinstance(v, tm.T) and v.op == "+" and v.sort == "I"]
                second = any(proved(hy, tm.eq(s.locals[k_], tm.num(2, "I"))) for k_ in cnt)
                put(r, "units_row.only_the_line_directly_after_the_heading_row#%d" % len(r.obligations), second, repr(s.pc)[:200])
            continue
        eff_ws = [w for w in ws if not w[0].startswith("this.")]
        put(r, "end_or_error.changes_no_default#%d" % len(r.obligations), not eff_ws and not conv, repr(eff_ws)[:200], kind="frame")
    for nm in ("temp", "temperature", "dens", "density", "units", "unit", "redox", "ph", "pe", "water", "pressure"):
        if nm in names:
            put(r, "option.-%s.is_handled(the_value_read_on_its_line_reaches_the_defaults)" % nm, ("value", nm) in seen, "no path of this option stores what it reads")
    put(r, "reach.rows", rows == {"heading", "units", "data"}, repr(sorted(rows)), kind="vacuity", undecided=True)
    r.assumptions += ["get_option returns the index of the matching entry of opt_list; sscanf / copy_token / check_units as in unit C15.read_solution.each_option...",
                      "string_to_spread_row splits the line into cells (not under contract); the pre-scan that decides whether a first line without hyphen is an option is not under this contract",
                      "get_option returns an index of opt_list or one of the negative OPTION_ codes, never the private code 100 of the heading row",
                      "statement contract on the line counter + option switch of the line loop; `-press` can only arrive as option 14 (get_option returns the first entry that the word abbreviates)"]
    return r


def line_is(ex, s, t):
    return fld0(ex, s, "line", "P") in tm.subterms(t)


# ------------------------------------------------------------------------------------------------ one concentration line
ISC = "src/phreeqcpp/ISolutionComp.cxx"


def _strip_canon(t):
    while isinstance(t, tm.T) and t.op == "app" and t.args[0] in ("canonical_unit", "string_of", "c_str") and len(t.args) == 2:
        t = t.args[1]
    return t


def unit_comp_read(twin=False):
    """cxxISolutionComp::read, one concentration line `names value [unit] [as formula | gfw number] [redox couple] [phase [SI]]`: every word goes to ITS member -
    the number after the names is the input concentration; the word after it, if check_units accepts it (alkalinity judged by the component's own name,
    compatibility with the block's unit), is stored NORMALISED as the unit; the word after `as` is the formula, the number after `gfw` the formula weight;
    then the redox couple, the phase name and the number after it as saturation index.  Words are consumed left to right, none twice."""
    q = "cxxISolutionComp::read"
    fn = A.find_function(ISC, q)
    r = U.new_unit("C15.ISolutionComp.read.each_word_of_a_concentration_line_goes_to_its_own_member", ISC, q, fn)
    c = reader_ctx(("strcmp", "strcmp_nocase", "strstr", "Get_initial_data", "Get_units"))
    c.record_types.update({"std::ostringstream"})
    stop_on_error_msg(c)
    loopstr = {}
    def loop_h(ex_, st, node, o):
        sts = ex_.havoc_loop(node, st)
        for s_ in sts:
            for x in A.walk(node):
                if x.get("kind") == "DeclRefExpr" and x.get("referencedDecl", {}).get("kind") == "VarDecl":
                    d = x["referencedDecl"]
                    if SX.strip_type(d.get("type", {}).get("qualType", "")) in SX.STRING_T:
                        v = loopstr.setdefault(d["name"], tm.sym("after_names_" + d["name"], "S"))
                        s_.locals[d["id"]] = v
        return sts
    c.loop = loop_h
    ex = SX.Exec(c)
    fin = ex.run(fn, SX.State())
    OKs = [s for s in lives(fin, ("ret",)) if "PARSER_OK" in repr(s.ret)]
    ERRs = [s for s in lives(fin, ("ret",)) if "PARSER_ERROR" in repr(s.ret)]
    bad = {}
    cnt = {}
    def chk(name, ok, detail=""):
        cnt[name] = cnt.get(name, 0) + 1
        if not ok:
            bad.setdefault(name, []).append(detail)
    MEMBERS = ("units", "as", "pe_reaction", "equation_name")
    def in_pc(s, t):
        return t in s.pc
    for s in OKs:
        hy = list(s.pc)
        toks = [e for e in s.events if short(e) == "copy_token"]
        seq = [e.snap["token"] for e in toks]
        # the word on which the name loop stopped (first word that is not an element name): the concentration
        scans = [e for e in s.events if short(e) == "sscanf"]
        sic = [e for e in s.events if short(e) == "Set_input_conc"]
        first = scans[0] if scans else None
        T0 = _strip_canon(first.snap["source"]) if first is not None else None
        chk("value.the_number_after_the_names_is_the_input_concentration", len(sic) == 1 and sic[0].recv is THIS and first is not None and T0 in loopstr.values()
            and proved(hy + [tm.eq(first.result, ONE)], tm.eq(sic[0].args[0], first.snap["value"])) and proved(hy, tm.not_(tm.eq(first.result, I(0)))), repr([e.args for e in sic])[:150])
        order = [T0] + seq
        pos = lambda t: next((i for i, x in enumerate(order) if x is t), None)
        asg = {}
        for e in s.events:
            if short(e) == "operator=" and e.recv is not None and not isinstance(e.recv, tuple) and e.recv.op == "app" and e.recv.args[0].startswith("fld:") and e.recv.args[1] is THIS:
                asg.setdefault(e.recv.args[0][4:], []).append(e)
        chk("frame.only_unit_formula_couple_and_phase_are_assigned_as_words", set(asg) <= set(MEMBERS) and all(len(v) == 1 for v in asg.values()), repr(sorted(asg)))
        used = []
        # unit
        cu = [e for e in s.events if short(e) == "check_units"]
        if "units" in asg:
            v = asg["units"][0].args[0]
            raw = _strip_canon(v)
            alk_lower = [e for e in s.events if short(e) == "strstr" and repr(e.args[1]) == '"alk"']
            starts_alk = tm.eq(alk_lower[0].result, alk_lower[0].args[0]) if alk_lower else tm.FALSE
            alk_ok = lambda e_: proved(hy + [tm.to_bool(e_.args[1])], starts_alk) and proved(hy + [starts_alk], tm.to_bool(e_.args[1]))
            okc = len(cu) == 2 and all(any(p_.op == "==" and p_.args[0] is e.result for p_ in s.pc) for e in cu) and all(_strip_canon(e.args[0]) is raw for e in cu) \
                and bool(alk_lower) and all(alk_ok(e) for e in cu) and all("Get_units" in repr(e.args[3]) and "Get_initial_data" in repr(e.args[3]) for e in cu)
            chk("unit.stored_normalised_and_only_when_check_units_accepts_it(alkalinity_by_own_name,block_unit_as_reference)", okc and v is not raw and pos(raw) == 1, repr([e.args for e in cu])[:200])
            used.append(("units", pos(raw)))
        elif cu:
            chk("unit.a_word_that_is_no_unit_is_left_for_the_following_fields", any(p_.op == "not" and cu[0].result in tm.subterms(p_) for p_ in s.pc), repr(s.pc)[:200])
        def kw_before(tok, words, fn_="strcmp"):
            """the word before `tok` in the line was tested equal (lower-cased) to one of `words`"""
            i = pos(tok)
            if i is None or i == 0:
                return False
            prev = order[i - 1]
            for w in words:
                target = 'call:%s(0, c_str(lower(%r)), "%s") == 0' % (fn_, prev, w)
                if any(p_.op != "not" and target in repr(p_) for p_ in s.pc):
                    return True
            return False
        if "as" in asg:
            v = asg["as"][0].args[0]
            chk("as.formula_is_the_word_after_`as`", pos(v) is not None and kw_before(v, ["as"] if not twin else ["gfw"]), repr(v))
            used.append(("as", pos(v)))
        gw = [(ix, val) for ix, val in writes(s, ("f", "gfw", "R")) if ix[0] is THIS]
        if gw:
            sc = [e for e in scans if e.args[2] is tm.app("fld:gfw", (THIS,), "P")]
            tok = _strip_canon(sc[0].snap["source"]) if sc else None
            chk("gfw.weight_is_the_number_after_`gfw`", len(gw) == 1 and len(sc) == 1 and pos(tok) is not None and kw_before(tok, ["gfw", "gfm"])
                and proved(hy + [tm.eq(sc[0].result, ONE)], tm.eq(gw[0][1], sc[0].snap["value"])), repr(gw)[:150])
            used.append(("gfw", pos(tok)))
        if "pe_reaction" in asg:
            v = asg["pe_reaction"][0].args[0]
            is_pe = any(p_.op != "not" and ('call:strcmp_nocase(0, c_str(%r), "pe") == 0' % (v,)) in repr(p_) for p_ in s.pc)
            pcs = [e for e in s.events if short(e) == "parse_couple" and e.args[0] is v]
            is_couple = bool(pcs) and any(p_.op == "==" and p_.args[0] is pcs[0].result for p_ in s.pc)
            chk("redox.couple_is_`pe`_or_a_couple_accepted_by_parse_couple", pos(v) is not None and (is_pe or is_couple), repr(v))
            used.append(("pe_reaction", pos(v)))
        if "equation_name" in asg:
            v = asg["equation_name"][0].args[0]
            chk("phase.name_is_a_word_of_the_line", pos(v) is not None, repr(v))
            used.append(("equation_name", pos(v)))
        si = [(ix, val) for ix, val in writes(s, ("f", "phase_si", "R")) if ix[0] is THIS]
        if si:
            sc = [e for e in scans if e.args[2] is tm.app("fld:phase_si", (THIS,), "P")]
            tok = _strip_canon(sc[0].snap["source"]) if sc else None
            eqp = used[-1][1] if used and used[-1][0] == "equation_name" else None
            chk("SI.number_directly_after_the_phase_name", len(si) == 1 and len(sc) == 1 and eqp is not None and pos(tok) == eqp + 1
                and proved(hy, tm.eq(si[0][1], sc[0].snap["value"])), repr(si)[:150])
            used.append(("phase_si", pos(tok)))
        ps = [p_ for _, p_ in used]
        chk("order.words_are_consumed_left_to_right_none_twice", None not in ps and all(a < b for a, b in zip(ps, ps[1:])) and (not ps or ps[0] >= 1), repr(used))
        rank = {"units": 0, "as": 1, "gfw": 1, "pe_reaction": 2, "equation_name": 3, "phase_si": 4}
        rk = [rank[n_] for n_, _ in used]
        chk("order.fields_in_the_documented_order(unit,as|gfw,couple,phase,SI)", all(a < b for a, b in zip(rk, rk[1:])), repr(used))
    for name in sorted(cnt):
        b = bad.get(name, [])
        put(r, "%s[%d paths]" % (name, cnt[name]), not b, "%d failing, e.g. %s" % (len(b), b[:2]))
    need = {"value.the_number_after_the_names_is_the_input_concentration", "unit.stored_normalised_and_only_when_check_units_accepts_it(alkalinity_by_own_name,block_unit_as_reference)",
            "as.formula_is_the_word_after_`as`", "gfw.weight_is_the_number_after_`gfw`", "redox.couple_is_`pe`_or_a_couple_accepted_by_parse_couple", "phase.name_is_a_word_of_the_line",
            "SI.number_directly_after_the_phase_name"}
    for nm_ in sorted(need):
        put(r, "handled." + nm_.split(".")[0] + "(some_accepted_line_stores_this_field)", nm_ in cnt, "no accepting path assigns this field")
    put(r, "reach.fields", need <= set(cnt) and len(OKs) >= 20, "%d accepting paths, missing %r" % (len(OKs), sorted(need - set(cnt))), kind="vacuity", undecided=True)
    # rejected lines: a concentration that is not a number, an incompatible unit, gfw without a number, a malformed couple, an SI that is not a number
    why = set()
    for s in ERRs:
        scans = [e for e in s.events if short(e) == "sscanf"]
        if not [e for e in s.events if short(e) == "Set_input_conc"]:
            why.add("value" if scans else "names")
        elif any(p_.op == "not" and "ret_check_units" in repr(p_) for p_ in s.pc):
            why.add("unit")
        elif scans and scans[-1].args[2] is tm.app("fld:phase_si", (THIS,), "P"):
            why.add("SI")
            if "SI!" not in why:
                valid(r, "rejected.SI_that_is_not_a_number", list(s.pc), tm.not_(tm.eq(scans[-1].result, ONE)))
            why.add("SI!")
    put(r, "reach.rejections", {"value", "unit", "SI"} <= why, repr(sorted(why)), kind="vacuity", undecided=True)
    r.assumptions += ["CParser::copy_token(token, b, e) puts the next word of the line in `token`; after the name loop `token` holds the first word that is not an element name (loop havocked, words named after_names_*)",
                      "check_units normalises its argument in place (unit C15.check_units...); sscanf as in unit C15.read_solution.each_option...; strcmp / strcmp_nocase / strstr functional; str_tolower lower-cases in place",
                      "error_msg(text, 1) does not return; Utilities::replace (kg spacing) is not under contract; doubles as reals"]
    return r


# ------------------------------------------------------------------------------------------------ accessor pairs
ACCESSORS = [("src/phreeqcpp/Solution.cxx", "cxxSolution", m_, {}) for m_ in ("tc", "ph", "pe", "density", "mass_water", "patm", "potV", "new_def")] + \
            [("src/phreeqcpp/ISolution.h", "cxxISolution", "units", {"param_types": ["const char *"]}), ("src/phreeqcpp/ISolution.h", "cxxISolution", "units", {"param_types": ["std::string"]}),
             ("src/phreeqcpp/ISolution.h", "cxxISolution", "default_pe", {}), ("src/phreeqcpp/ISolution.h", "cxxISolution", "calc_density", {})] + \
            [("src/phreeqcpp/ISolutionComp.h", "cxxISolutionComp", m_, {}) for m_ in ("description", "moles", "input_conc", "units", "equation_name", "pe_reaction", "as", "gfw")]


def _is_parm(t, name):
    nm = str(t.args[0])
    return nm.endswith("_" + name) or nm.endswith("_" + name + "_ref")


def unit_accessors(twin=False):
    """what a reader stores with Set_X is what convert_units / initial_solutions later read with Get_X: Set_X writes its argument to exactly one member and
    Get_X returns that same member (for every accessor pair used on the solution-definition path)."""
    fn0 = A.find_function("src/phreeqcpp/ISolutionComp.h", "cxxISolutionComp::Set_units")
    r = U.new_unit("C15.accessors.Set_X_writes_the_member_Get_X_reads", "src/phreeqcpp/ISolutionComp.h", "cxxISolutionComp / cxxISolution / cxxSolution accessors", fn0)
    n = 0
    for rel, cls, m_, kw in ACCESSORS:
        tag = "%s.%s%s" % (cls, m_, "(%s)" % kw["param_types"][0].replace(" ", "") if kw else "")
        try:
            fs, exs, fins, infos = U.run_function(rel, "%s::Set_%s" % (cls, m_), ctx=ctx(), find_kw=kw)
            fg, exg, fing, infog = U.run_function(rel, "%s::Get_%s" % (cls, m_ if not (twin and m_ == "pe") else "ph"), ctx=ctx())
        except Undecided as e:
            put(r, "%s.accessors_found" % tag, False, str(e)[:200], undecided=True); continue
        parm = [x for x in fs.get("inner", []) if x.get("kind") == "ParmVarDecl"]
        written = set(); okv = True; others = []
        for s in lives(fins, ("run", "ret")):
            for key in s.heap:
                for ix, v in writes(s, key):
                    if key[0] == "f" and ix[0] is THIS:
                        written.add(key[1])
                        okv = okv and len(parm) == 1 and any(t.op == "sym" and _is_parm(t, parm[0]["name"]) for t in tm.subterms(v))
                    else:
                        others.append(key)
            for e in s.events:
                if short(e) in ("operator=", "clear", "assign") and e.recv is not None and not isinstance(e.recv, tuple) and e.recv.op == "app" and e.recv.args[0].startswith("fld:") and e.recv.args[1] is THIS:
                    written.add(e.recv.args[0][4:])
                    if short(e) != "clear":
                        okv = okv and len(parm) == 1 and any(t.op == "sym" and _is_parm(t, parm[0]["name"]) for a in e.args for t in tm.subterms(a))
                    else:
                        okv = okv and any(p_.op == "==" and tm.isnum(p_.args[1]) and p_.args[1].args[0] == 0 for p_ in s.pc)     # cleared only for a null argument
                elif short(e) not in ("operator=", "clear", "assign", "basic_string"):
                    if not e.name.startswith("ctor"):
                        others.append(e.name)
        read = set()
        for s in lives(fing, ("ret",)):
            for t in tm.subterms(s.ret) if isinstance(s.ret, tm.T) else []:
                if t.op == "select" and len(t.args[1]) == 1 and t.args[1][0] is THIS:
                    read.add(str(t.args[0]).split(".", 1)[1].split(":")[0])
        n += 1
        put(r, "%s.Set_stores_its_argument_in_one_member" % tag, len(written) == 1 and okv and not others, "written %r others %r" % (sorted(written), others[:3]))
        put(r, "%s.Get_returns_the_member_Set_writes" % tag, len(read) == 1 and read == written, "written %r read %r" % (sorted(written), sorted(read)), kind="pairing")
    put(r, "reach.accessors", n >= 15, "%d of %d" % (n, len(ACCESSORS)), kind="vacuity", undecided=True)
    r.assumptions += ["std::string assignment / clear are events on the member they are applied to (their argument is the value stored)",
                      "cxxISolutionComp::Set_phase_si(int) is unused (read() scans into the member directly) and not listed"]
    return r


UNITS = [("C15.read_solution.each_option_stores_what_it_reads_in_its_own_member", unit_read_solution_switch),
         ("C15.spread_row_to_solution.each_column_stores_what_it_reads_in_its_own_member", unit_spread_row_switch),
         ("C15.read_solution.component_units_default_to_the_block_unit_whatever_the_line_order", unit_fixup_read_solution),
         ("C15.spread_row_to_solution.component_units_default_to_the_row_unit", unit_fixup_spread),
         ("C15.read_solution.stored_and_marked_new_under_the_number_of_its_keyword_line", unit_read_solution_number),
         ("C15.spread_row_to_solution.every_row_starts_from_the_block_defaults_and_is_stored_under_its_own_number", unit_spread_row_defaults_and_number),
         ("C15.read_solution_spread.options_change_only_their_default_and_every_row_is_converted_alike", unit_read_solution_spread),
         ("C15.ISolutionComp.read.each_word_of_a_concentration_line_goes_to_its_own_member", unit_comp_read),
         ("C15.accessors.Set_X_writes_the_member_Get_X_reads", unit_accessors)]


def _more():
    import importlib
    out = []
    for m in ("c15_ext2_calc",):
        out += list(getattr(importlib.import_module("props." + m), "UNITS", []))
    return out


UNITS = UNITS + _more()
