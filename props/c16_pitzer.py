"""C16: higher-order electrostatic mixing terms of the Pitzer model (pitzer.cpp ETHETAS / ETHETA_PARAMS) — derivative lemmas:
the reported ethetap is d(etheta)/dI, given that ETHETA_PARAMS returns J(x) and x*J'(x); inside ETHETA_PARAMS the Clenshaw
recurrences keep DK[i] = d BK[i]/dz and JPRIME = x * dJAY/dx.  All lemmas are exact (sympy differentiation) over the reals."""
import sympy
from props.common import *
from vf.core import FAILED, DISCHARGED, UNDECIDED

PZ = "src/phreeqcpp/pitzer.cpp"


def _zero(e):
    e = sympy.simplify(sympy.together(sympy.expand(e)))
    return e == 0


def unit_ethetas(twin=False):
    q = "Phreeqc::ETHETAS"
    fn = A.find_function(PZ, q)
    r = U.new_unit("C16.pitzer.ETHETAS.ethetap==d(etheta)/dI", PZ, q, fn)
    c = ctx(pure_all=False)
    f, ex, fin, info = U.run_function(PZ, q, ctx=c)
    n = 0
    for s in [s for s in fin if s.status == "ret"]:
        calls = [e for e in s.events if e.name.endswith("ETHETA_PARAMS")]
        w = dict((ix[0], v) for ix, v in writes(s, ("m", "R")))
        et, etp = w.get(tm.sym("P3_etheta", "P")), w.get(tm.sym("P4_ethetap", "P"))
        if not calls:
            ok = et is not None and etp is not None and tm.isnum(et) and tm.isnum(etp) and et.args[0] == 0 and etp.args[0] == 0
            r.add("equal_charges.no_mixing_term(etheta=ethetap=0)", DISCHARGED if ok else FAILED, "symex", 0, "%r %r" % (et, etp))
            continue
        n += 1
        if len(calls) != 3 or et is None or etp is None:
            r.add("unequal_charges.three_J_evaluations_and_both_results_written", FAILED, "symex", 0, "%d calls" % len(calls)); continue
        cv = B.SymConv()
        E, EP = cv.conv(et), cv.conv(etp)
        I = cv.conv(tm.sym("P2_I", "R"))
        dE = sympy.diff(E, I)
        for e in calls:
            x, j, p = cv.conv(e.args[0]), cv.conv(e.args[1]), cv.conv(e.args[2])
            # J depends on I through x(I); ETHETA_PARAMS returns JPRIME = x*J'(x)
            dE = dE + sympy.diff(E, j) * (p / x) * sympy.diff(x, I)
        if twin:
            dE = dE * 2
        ok = _zero(dE - EP)
        r.add("unequal_charges.ethetap==d(etheta)/dI(chain rule through x=6*A0*z*z'*sqrt(I))", DISCHARGED if ok else FAILED, "sympy.diff", 0,
              "" if ok else "d(etheta)/dI - ethetap = %s" % sympy.simplify(dE - EP))
        # the three arguments are x_jk, x_jj, x_kk = 6 A0 sqrt(I) * (zj zk, zj^2, zk^2)
        zj, zk = cv.conv(tm.sym("P0_ZJ", "R")), cv.conv(tm.sym("P1_ZK", "R"))
        xs = [cv.conv(e.args[0]) for e in calls]
        A0 = cv.conv(fld0(ex, s, "A0", "R"))
        want = [6 * A0 * sympy.sqrt(I) * zj * zk, 6 * A0 * sympy.sqrt(I) * zj * zj, 6 * A0 * sympy.sqrt(I) * zk * zk]
        r.add("unequal_charges.arguments_are_x_jk,x_jj,x_kk", DISCHARGED if all(_zero(a - b) for a, b in zip(xs, want)) else FAILED, "sympy", 0, repr(xs)[:200])
        j = [cv.conv(e.args[1]) for e in calls]
        wantE = zj * zk * (j[0] - j[1] / 2 - j[2] / 2) / (4 * I)
        r.add("unequal_charges.etheta==zz'/(4I)*(J(x_jk)-J(x_jj)/2-J(x_kk)/2)", DISCHARGED if _zero(E - wantE) else FAILED, "sympy", 0, "")
    r.add("reach.unequal_charges", DISCHARGED if n == 1 else UNDECIDED, "symex", 0, "%d" % n, kind="vacuity")
    r.assumptions += ["ETHETA_PARAMS(x, J, J') returns J(x) and x*J'(x) (unit C16.pitzer.ETHETA_PARAMS)", "A0 (Debye-Hueckel parameter) is treated as independent of I", "doubles as reals"]
    return r


def unit_etheta_params(twin=False):
    q = "Phreeqc::ETHETA_PARAMS"
    fn = A.find_function(PZ, q)
    r = U.new_unit("C16.pitzer.ETHETA_PARAMS.JPRIME==x*dJ/dx", PZ, q, fn)
    # L1: in both branches L_DZ == (x/2) * dz/dx
    ifs = find_stmt(fn, PZ, "if(X<=", kinds=("IfStmt",), prefix=True)
    f, ex, fin, info = region(PZ, q, [ifs])
    nb = 0
    for s in live(fin):
        nb += 1
        cv = B.SymConv(); cv.rational_pow = True
        X = sympy.Symbol("X", positive=True)
        z, dz = cv.conv(local(info, s, "L_Z")), cv.conv(local(info, s, "L_DZ"))
        x0 = cv.conv(tm.sym("L_X", "R"))
        z, dz = z.subs(x0, X), dz.subs(x0, X)
        want = X / 2 * sympy.diff(z, X)
        if twin:
            want = X * sympy.diff(z, X)
        r.add("branch%d.L_DZ==(x/2)*dz/dx" % nb, DISCHARGED if _zero(dz - want) else FAILED, "sympy.diff", 0, "z=%s dz=%s" % (z, dz))
    r.add("reach.branches", DISCHARGED if nb == 2 else UNDECIDED, "symex", 0, "%d" % nb, kind="vacuity")
    # L2: recurrences: if DK[i+1], DK[i+2] are the z-derivatives of BK[i+1], BK[i+2] then DK[i] is the z-derivative of BK[i]
    k = loop_ordinal(fn, PZ, init_text="inti=18")
    f, ex, its, info = U.run_loop_isolated(PZ, q, k, ctx=ctx())
    n = 0
    for s in live(its, ("run", "cont")):
        n += 1
        I = tm.sym("iter_i", "I")
        BKp, DKp = tm.app("fld:BK", (THIS,), "P"), tm.app("fld:DK", (THIS,), "P")
        w = dict((ix, v) for ix, v in writes(s, ("m", "R")))
        b, d = w.get((BKp, I)), w.get((DKp, I))
        if b is None or d is None:
            r.add("recurrence.writes_BK[i]_and_DK[i]", FAILED, "symex", 0, repr(list(w))[:200]); continue
        cv = B.SymConv()
        be, de = cv.conv(b), cv.conv(d)
        z = cv.conv(local(info, s, "L_Z"))
        mem = entry_arr(ex, s, ("m", "R"))
        tot = sympy.diff(be, z)
        for off in (1, 2):
            bk = cv.conv(tm.select(mem, BKp, I + tm.num(off, "I"))); dk = cv.conv(tm.select(mem, DKp, I + tm.num(off, "I")))
            tot = tot + sympy.diff(be, bk) * dk
        r.add("recurrence.DK[i]==d(BK[i])/dz(given DK[i+1],DK[i+2])", DISCHARGED if _zero(tot - de) else FAILED, "sympy.diff", 0, "BK[i]=%s" % be)
        ak = cv.conv(tm.select(mem, local(info, s, "AK"), I))
        r.add("recurrence.BK[i]==z*BK[i+1]-BK[i+2]+AK[i](Clenshaw)", DISCHARGED if _zero(be - (z * cv.conv(tm.select(mem, BKp, I + tm.num(1, "I"))) - cv.conv(tm.select(mem, BKp, I + tm.num(2, "I"))) + ak)) else FAILED, "sympy", 0, "")
    r.add("reach.recurrence", DISCHARGED if n == 1 else UNDECIDED, "symex", 0, "%d" % n, kind="vacuity")
    # seeds of the recurrence and the final combination
    for text in ("BK[20]=AK[20]", "BK[19]=L_Z*AK[20]+AK[19]", "DK[19]=AK[20]"):
        ok = bool(find_nodes(fn, PZ, lambda t, x: t == text, kinds=("BinaryOperator",)))
        r.add("seed.%s" % text, DISCHARGED if ok else FAILED, "syntactic", 0, "", kind="structural")
    sj = find_stmt(fn, PZ, "JAY =", prefix=True, kinds=("BinaryOperator",)); sp = find_stmt(fn, PZ, "JPRIME =", prefix=True, kinds=("BinaryOperator",))
    for which, stn in (("JAY", sj), ("JPRIME", sp)):
        f, ex, fin, info = region(PZ, q, [stn])
        for s in live(fin):
            cv = B.SymConv()
            w = writes(s, ("m", "R"))
            if len(w) != 1 or which not in repr(w[0][0]):
                r.add("result.%s_written" % which, FAILED, "symex", 0, repr(w)[:200]); continue
            mem = entry_arr(ex, s, ("m", "R"))
            BKp, DKp = tm.app("fld:BK", (THIS,), "P"), tm.app("fld:DK", (THIS,), "P")
            b0, b2 = cv.conv(tm.select(mem, BKp, tm.num(0, "I"))), cv.conv(tm.select(mem, BKp, tm.num(2, "I")))
            d0, d2 = cv.conv(tm.select(mem, DKp, tm.num(0, "I"))), cv.conv(tm.select(mem, DKp, tm.num(2, "I")))
            X = cv.conv(tm.sym("L_X", "R")); ldz = cv.conv(tm.sym("L_L_DZ", "R"))
            V = cv.conv(w[0][1])
            if which == "JAY":
                r.add("result.JAY==x/4-1+(BK0-BK2)/2", DISCHARGED if _zero(V - (X / 4 - 1 + (b0 - b2) / 2)) else FAILED, "sympy", 0, str(V))
            else:
                # x*dJ/dx = x/4 + (x/2)(dz/dx)(DK0-DK2) = x/4 + L_DZ (DK0-DK2)   using L1 and L2
                r.add("result.JPRIME==x*dJAY/dx(=x/4+L_DZ*(DK0-DK2))", DISCHARGED if _zero(V - (X / 4 + ldz * (d0 - d2))) else FAILED, "sympy", 0, str(V))
    r.assumptions += ["the Chebyshev coefficient table AKX (Pitzer 1975 / Harvie 1981) is not compared with the literature", "X > 0", "doubles as reals"]
    return r


PITZ = "src/phreeqcpp/pitzer.cpp"


def _case_stmts(fn, label):
    for sw in [x for x in A.walk(fn) if x.get("kind") == "SwitchStmt"]:
        sib = sw["inner"][-1].get("inner", [])
        for i, c in enumerate(sib):
            if c.get("kind") != "CaseStmt":
                continue
            names = [y.get("referencedDecl", {}).get("name") for y in A.walk(c["inner"][0]) if y.get("kind") == "DeclRefExpr"]
            if label in names:
                first = c["inner"][-1]
                while first.get("kind") == "CaseStmt":
                    first = first["inner"][-1]
                out = [first]
                for nxt in sib[i + 1:]:
                    if nxt.get("kind") in ("BreakStmt", "CaseStmt", "DefaultStmt"):
                        break
                    out.append(nxt)
                if any("LGAMMA" in text_of(PITZ, o) for o in out):
                    return out
    return None


def unit_pitzer_mixing_terms(twin=False):
    """Pitzer mixing terms in pitzer(): for every parameter type whose contribution to the excess Gibbs energy is a monomial of degree
    d in the molalities (theta d=2, psi/zeta/eta d=3, higher-order electrostatic theta with its ionic-strength derivative), the
    increments to ln gamma_k (L_k) and to the osmotic sum are derivatives of ONE function: osmotic increment ==
    (d-1)/(2d) * sum_k m_k L_k + I * (increment of F)  (Euler's relation; (phi-1) sum m = 2*OSMOT).  lambda terms: the tidy step's
    coefficients satisfy os_coef == (ln_coef[0] + ln_coef[1]) / 4 in both of its branches."""
    import sympy
    q = "Phreeqc::pitzer"
    fn = A.find_function(PITZ, q)
    r = U.new_unit("C16.pitzer.mixing_terms_gamma_and_phi_from_one_excess_function", PITZ, q, fn)
    done = 0
    for label, d in (("TYPE_THETA", 2), ("TYPE_ETHETA", 2), ("TYPE_PSI", 3), ("TYPE_ZETA", 3), ("TYPE_ETA", 3)):
        stmts = _case_stmts(fn, label)
        if not stmts:
            r.add("%s.case_found" % label, UNDECIDED, "syntactic", 0, ""); continue
        # every accumulating statement of the case is executed on its own from an arbitrary state: increment = new - old
        flat = []
        def collect(n_):
            k_ = n_.get("kind")
            if k_ in ("CompoundAssignOperator", "BinaryOperator") and n_.get("opcode") in ("+=", "="):
                flat.append(n_); return
            for c_ in n_.get("inner", []) or []:
                if isinstance(c_, dict) and k_ not in ("CompoundAssignOperator",):
                    collect(c_)
        for st_ in stmts:
            collect(st_)
        cv = B.SymConv()
        tot = 0; dO = 0; Fi = 0; nL = 0
        for st_ in flat:
            lhs = text_of(PITZ, st_["inner"][0])
            if not (lhs.startswith("LGAMMA[") or lhs in ("OSMOT", "F_var")):
                continue
            f, ex, fin, info = region(PITZ, q, [st_], ctx())
            s = live(fin)[0]
            M = tm.select(entry_arr(ex, s, ("f", "#vdata", "P")), tm.app("fld:M", (THIS,), "P"))
            if lhs.startswith("LGAMMA["):
                (ix, v), = writes(s, ("m", "R"))
                old = tm.select(entry_arr(ex, s, ("m", "R")), *ix)
                mk = cv.conv(tm.select(entry_arr(ex, s, ("m", "R")), M, ix[1]))
                tot = tot + mk * (cv.conv(v) - cv.conv(old)); nL += 1
            elif lhs == "OSMOT":
                dO = dO + cv.conv(local(info, s, "OSMOT")) - cv.conv(tm.sym("L_OSMOT", "R"))
            elif lhs == "F_var" and label == "TYPE_ETHETA":
                Fi = cv.conv(local(info, s, "F_var"))
        if nL:
            import sympy as _sp
            I = cv.conv(tm.sym("L_I", "R"))
            want = sympy.Rational(d - 1, 2 * d) * tot + I * Fi
            if twin:
                want = want * 2
            ok = sympy.simplify(sympy.expand(dO - want)) == 0
            done += 1
            r.add("%s.osmotic_increment==(d-1)/(2d)*sum(m_k*L_k)%s" % (label, "+I*F_increment" if label == "TYPE_ETHETA" else ""), DISCHARGED if ok else FAILED, "sympy", 0,
                  "" if ok else "osmotic - Euler = %s" % sympy.simplify(dO - want))
            r.add("%s.updates_%d_activity_coefficients" % (label, d), DISCHARGED if nL == d else FAILED, "symex", 0, "%d" % nL)
    r.add("reach.monomial_terms", DISCHARGED if done >= 5 else UNDECIDED, "symex", 0, "%d" % done, kind="vacuity")
    # lambda coefficients set by pitzer_tidy
    ft = A.find_function(PITZ, "Phreeqc::pitzer_tidy")
    t = text_of(PITZ, ft)
    pairs = re.findall(r"pitz_params\[i\]->os_coef=([\d\.]+);pitz_params\[i\]->ln_coef\[0\]=([\d\.]+);pitz_params\[i\]->ln_coef\[1\]=([\d\.]+);", t) if (re := __import__("re")) else []
    okl = len(pairs) == 2 and all(abs(float(o) - (float(a) + float(b)) / 4) < 1e-12 for o, a, b in pairs)
    r.add("lambda.tidy_coefficients_os==(ln0+ln1)/4_in_both_branches", DISCHARGED if okl else FAILED, "exact", 0, repr(pairs))
    stm = _case_stmts(fn, "TYPE_LAMBDA")
    tl = "".join(text_of(PITZ, x) for x in (stm or []))
    r.add("lambda.uses_the_tidy_coefficients", DISCHARGED if "LGAMMA[i0]+=M[i1]*param*pitz_params[i]->ln_coef[0]" in tl and "LGAMMA[i1]+=M[i0]*param*pitz_params[i]->ln_coef[1]" in tl and "OSMOT+=M[i0]*M[i1]*param*pitz_params[i]->os_coef" in tl else FAILED, "syntactic", 0, "", kind="structural")
    r.assumptions += ["(phi - 1) * sum(m) = 2 * OSMOT (COSMOT = 1 + 2*OSMOT/OSUM, checked textually below)", "distinct species in a monomial term (coincident indices are the lambda / mu coefficient cases)",
                      "binary B / C terms with their g-functions and the mu-type coefficients are not under this unit", "doubles as reals"]
    tf = text_of(PITZ, fn)
    r.add("COSMOT==1+2*OSMOT/OSUM", DISCHARGED if "COSMOT=1.0+2.0*OSMOT/OSUM;" in tf else FAILED, "syntactic", 0, "", kind="structural")
    return r
