"""C04 (helper units, second batch): the per-simulation bookkeeping that must not depend on how the input was cut into calls.

 * cxxUse::init (Use.cpp): every member of the USE record is reset to a constant (called by read_input at the start of every simulation);
 * Phreeqc::read_input, keyword loop: one pass counts exactly the keyword it dispatches (keycount[k] += 1, nothing else), END (and only END)
   leaves the loop, every other keyword calls at most one reader, first_read_input is only ever switched off and is off after any keyword
   other than DATABASE that does not come from the database file; the loop before it returns EOF exactly when the input is exhausted;
 * Phreeqc::cleanup_after_parser: end of input after a RAW/MODIFY-style block is the same as END;
 * Phreeqc::tidy_model: the new_* flags are functions of THIS simulation's keyword counts only (cleared first); the table keyword -> flag;
   a reactant kind is re-tidied only when its flag (or new_model) is set and always when it is."""
import re
from vf.core import Undecided, FAILED, DISCHARGED, UNDECIDED
from vf.astvc import ast as A, terms as tm, unit as U, backends as B
from vf.astvc import symex as SX
from props.common import ctx, fld, fld0, live, writes, stop_on_error_msg, THIS, cases, text_of, region, strip, entry_arr

RD = "src/phreeqcpp/read.cpp"
TIDY = "src/phreeqcpp/tidy.cpp"
USE = "src/phreeqcpp/Use.cpp"
ZERO, ONE = tm.num(0, "I"), tm.num(1, "I")
KW_NAMES = """NONE END SOLUTION_SPECIES SOLUTION_MASTER_SPECIES SOLUTION PHASES REACTION MIX USE SAVE EXCHANGE_SPECIES EXCHANGE_MASTER_SPECIES EXCHANGE SURFACE_SPECIES
SURFACE_MASTER_SPECIES SURFACE REACTION_TEMPERATURE INVERSE_MODELING GAS_PHASE TRANSPORT SELECTED_OUTPUT KNOBS PRINT EQUILIBRIUM_PHASES TITLE ADVECTION KINETICS
INCREMENTAL_REACTIONS RATES USER_PRINT USER_PUNCH SOLID_SOLUTIONS SOLUTION_SPREAD USER_GRAPH LLNL_AQUEOUS_MODEL_PARAMETERS DATABASE NAMED_EXPRESSIONS ISOTOPES
CALCULATE_VALUES ISOTOPE_RATIOS ISOTOPE_ALPHAS COPY PITZER SIT SOLUTION_RAW EXCHANGE_RAW SURFACE_RAW EQUILIBRIUM_PHASES_RAW KINETICS_RAW SOLID_SOLUTIONS_RAW GAS_PHASE_RAW
REACTION_RAW MIX_RAW REACTION_TEMPERATURE_RAW DUMP SOLUTION_MODIFY EQUILIBRIUM_PHASES_MODIFY EXCHANGE_MODIFY SURFACE_MODIFY SOLID_SOLUTIONS_MODIFY GAS_PHASE_MODIFY
KINETICS_MODIFY DELETE RUN_CELLS REACTION_MODIFY REACTION_TEMPERATURE_MODIFY REACTION_PRESSURE REACTION_PRESSURE_RAW REACTION_PRESSURE_MODIFY COUNT_KEYWORDS""".split()
_KW = {}


def kw():
    """compiled values of the Keywords::KEY_* enumerators"""
    if not _KW:
        ev = A.enum_values_compiled("Phreeqc.h", ["Keywords::KEY_" + n for n in KW_NAMES])
        _KW.update({k.split("::")[-1]: v for k, v in ev.items()})
    return _KW


def K(name):
    return tm.num(kw()["KEY_" + name], "I")


def short(e):
    return e.name.split("::")[-1]


def loops_of(fn):
    return [x for x in A.walk(fn) if x.get("kind") in ("ForStmt", "WhileStmt", "DoStmt")]


# ------------------------------------------------------------------------------------------------------------------ cxxUse::init
def unit_use_init(twin=False):
    q = "cxxUse::init"
    fn = A.find_function(USE, q)
    r = U.new_unit("C04.Use.init.every_member_of_the_USE_record_is_reset", USE, q, fn)
    fields = A.class_fields("Use.h", "cxxUse")
    c = ctx()
    f, ex, fin, info = U.run_function(USE, q, ctx=c)
    fin = live(fin, ("run", "ret"))
    r.add("reach.one_path", DISCHARGED if len(fin) == 1 else UNDECIDED, "symex", 0, "%d" % len(fin), kind="vacuity")
    s = fin[0]
    nb = ni = np_ = 0
    for name, ty in fields:
        t = ty.strip()
        if t == "bool":
            so, want, kind = "B", (tm.FALSE if not (twin and name == "kinetics_in") else tm.TRUE), "flag"; nb += 1
        elif t == "int":
            so, want, kind = "I", None, "number"; ni += 1
        elif t.endswith("*"):
            so, want, kind = "P", tm.NULL, "pointer"; np_ += 1
        else:
            r.add("member.%s.kind_known" % name, UNDECIDED, "syntactic", 0, "member of type %s: not a flag, number or pointer" % t); continue
        w = writes(s, ("f", name, so))
        if not w:
            r.add("member.%s.reset" % name, FAILED, "term-inspection", 0, "%s %s is not assigned by init(): it survives from the previous simulation" % (kind, name)); continue
        v = w[-1][1]
        if want is not None:
            ok = v is want or B.z3_prove(list(s.pc), tm.eq(v, want))[0] == "proved"
            r.add("member.%s==%s" % (name, "false" if kind == "flag" else "NULL"), DISCHARGED if ok else FAILED, "term-inspection", 0, repr(v))
        else:
            ok = tm.isnum(v) and v.args[0] < 0
            r.add("member.%s==a_negative_constant_(no_user_number)" % name, DISCHARGED if ok else FAILED, "term-inspection", 0, repr(v))
    r.add("reach.members", DISCHARGED if nb >= 12 and ni >= 12 and np_ >= 12 else UNDECIDED, "syntactic", 0, "%d flags %d numbers %d pointers" % (nb, ni, np_), kind="vacuity")
    r.assumptions += ["the members are taken from the class definition in Use.h (a member added later must be reset too)", "user numbers are non-negative or the scratch numbers -1/-2-k; a negative constant below them means 'none'"]
    return r


# --------------------------------------------------------------------------------------------------------------- read_input loops
def unit_read_input_loop(twin=False):
    q = "Phreeqc::read_input"
    fn = A.find_function(RD, q)
    r = U.new_unit("C04.read_input.one_pass_counts_and_dispatches_exactly_the_keyword_read_and_only_END_ends_the_simulation", RD, q, fn)
    ls = loops_of(fn)
    outer = [k for k, l in enumerate(ls) if l.get("kind") == "ForStmt" and not l["inner"][2].get("kind") and any(x.get("kind") == "SwitchStmt" for x in A.walk(l))]
    if len(outer) != 1:
        raise Undecided("keyword loop of read_input not found")
    kw()
    c = stop_on_error_msg(ctx(enums_from="Phreeqc.h", enums=["Keywords::KEY_" + n for n in KW_NAMES]))
    c.log_stores = True
    f, ex, res, info = U.run_loop_isolated(RD, q, outer[0], ctx=c)
    KC = tm.select(tm.sym("H0.#vdata:P", ("A", "P", "P")), tm.app("fld:keycount", (THIS,), "P"))
    nk = tm.select(tm.sym("H0.next_keyword:I", ("A", "P", "I")), THIS)
    END = K("END") if not twin else K("NONE")
    n = ng = ncount = nnocount = 0; bad = {}
    def fail(k, msg, s):
        if k not in bad and B.z3_sat(list(s.pc)) != "unsat":
            bad[k] = msg
    for s in res:
        if s.status == "throw" or s.status == "dead":
            continue
        n += 1
        ev = U.iter_events(s)
        st = [e for e in ev if e.name == "store"]
        # keyword counter
        kc = [e for e in st if e.recv is KC]
        inrange = tm.and_(tm.lt(ZERO, nk), tm.lt(nk, K("COUNT_KEYWORDS")))
        for hy, counted in cases(list(s.pc), inrange):
            if counted:
                ncount += 1
                old = tm.select(entry_arr(ex, s, ("m", "I")), KC, nk)
                ok = len(kc) == 1 and B.z3_prove(hy, tm.and_(tm.eq(kc[0].args[0], nk), tm.eq(kc[0].args[1], tm.add(old, ONE))))[0] == "proved"
                if not ok:
                    fail("keyword_in_range.its_own_counter_incremented_by_one_and_no_other", repr([(e.args[0], e.args[1]) for e in kc])[:200], s)
            else:
                nnocount += 1
                if kc:
                    fail("keyword_out_of_range.no_counter_written", repr(kc)[:160], s)
        # END and only END leaves
        isgoto = str(s.status).startswith("goto")
        if isgoto:
            ng += 1
            if B.z3_prove(list(s.pc), tm.eq(nk, END))[0] != "proved":
                fail("leaves_the_loop_only_on_END", "left with next_keyword %r" % ([p for p in s.pc if "next_keyword" in repr(p)][-1:],), s)
        elif s.status in ("ret", "brk"):
            fail("leaves_the_loop_only_on_END", "status %s" % s.status, s)
        else:
            if B.z3_prove(list(s.pc), tm.not_(tm.eq(nk, END)))[0] != "proved":
                fail("END_always_leaves_the_loop", "a pass with next_keyword == END goes on", s)
        # at most one reader per pass
        rd = [short(e) for e in ev if e.name != "store" and (short(e).startswith("read_") or short(e).startswith("Rxn_read"))]
        if len(rd) > 1:
            fail("at_most_one_reader_per_keyword", repr(rd), s)
        # first_read_input
        fw = [e for e in st if e.recv is THIS and e.args[0].op == "str" and e.args[0].args[0] == "first_read_input"]
        if any(not (tm.isnum(e.args[1]) and e.args[1].args[0] == 0) for e in fw):
            fail("first_read_input_only_switched_off", repr(fw)[:160], s)
        rdb = [e for e in ev if short(e) == "reading_database"]
        fri = fld(ex, s, "first_read_input", "I")
        hyp = [tm.lt(ZERO, nk), tm.not_(tm.eq(nk, K("DATABASE")))] + [tm.eq(tm.to_int(e.result) if e.result.sort != "I" else e.result, ZERO) for e in rdb[:1]]
        if rdb and B.z3_sat(list(s.pc) + hyp) != "unsat":
            if B.z3_prove(list(s.pc) + hyp, tm.eq(fri, ZERO))[0] != "proved":
                fail("off_after_a_keyword_other_than_DATABASE_from_the_input", repr(fri)[:120], s)
    for k in ("keyword_in_range.its_own_counter_incremented_by_one_and_no_other", "keyword_out_of_range.no_counter_written", "leaves_the_loop_only_on_END", "END_always_leaves_the_loop",
              "at_most_one_reader_per_keyword", "first_read_input_only_switched_off", "off_after_a_keyword_other_than_DATABASE_from_the_input"):
        r.add("every_pass." + k, FAILED if k in bad else (DISCHARGED if n else UNDECIDED), "symex+z3", 0, bad.get(k, "%d paths" % n))
    r.add("reach.passes", DISCHARGED if n >= 60 and ng >= 1 and ncount >= 60 and nnocount >= 1 else UNDECIDED, "symex", 0, "%d paths, %d leave, %d counted, %d not counted" % (n, ng, ncount, nnocount), kind="vacuity")
    # the loop that looks for the first keyword: EOF is returned exactly when the input is exhausted
    pre = [k for k, l in enumerate(ls) if l.get("kind") == "WhileStmt" and k < outer[0]]
    if not pre:
        raise Undecided("first-keyword loop of read_input not found")
    c2 = stop_on_error_msg(ctx())
    f2, ex2, res2, info2 = U.run_loop_isolated(RD, q, pre[-1], ctx=c2)
    nr = nc_ = 0
    EOF_ = tm.num(-1, "I")
    for s in live(res2):
        cl = [e for e in U.iter_events(s) if short(e) == "check_line"]
        if not cl:
            r.add("first_keyword_loop.reads_a_line", FAILED, "trace", 0, ""); continue
        if s.status == "ret":
            nr += 1
            U.discharge_valid(r, "first_keyword_loop.return#%d_is_EOF_at_end_of_input" % nr, list(s.pc), tm.and_(tm.eq(s.ret, EOF_), tm.eq(cl[0].result, EOF_)))
        else:
            nc_ += 1
            U.discharge_valid(r, "first_keyword_loop.goes_on#%d_only_if_not_at_end_of_input" % nc_, list(s.pc), tm.not_(tm.eq(cl[0].result, EOF_)))
    r.add("reach.first_keyword_loop", DISCHARGED if nr >= 1 and nc_ >= 1 else UNDECIDED, "symex", 0, "%d/%d" % (nr, nc_), kind="vacuity")
    r.assumptions += ["EOF == -1 (stdio)", "the readers themselves (read_solution, ...) and check_line are not under this contract; each sets next_keyword for the next pass",
                      "iteration contract: one arbitrary pass of the keyword loop from an arbitrary state", "the per-simulation reset before the loops is C04.read_input.per_simulation_reset_touches_only_transient_state"]
    return r


# --------------------------------------------------------------------------------------------------------- cleanup_after_parser
def unit_cleanup_after_parser(twin=False):
    q = "Phreeqc::cleanup_after_parser"
    fn = A.find_function(RD, q)
    r = U.new_unit("C04.cleanup_after_parser.end_of_input_after_a_block_is_END", RD, q, fn)
    c = stop_on_error_msg(ctx(enums_from="Phreeqc.h", enums=["Keywords::KEY_END", "Keywords::KEY_NONE"], functional=("get_m_line_type", "line", "line_save", "c_str")))
    f, ex, fin, info = U.run_function(RD, q, ctx=c)
    ne = nk = 0
    for s in live(fin, ("ret",)):
        lt = [e for e in s.events if short(e) == "get_m_line_type"]
        if not lt:
            r.add("line_type_consulted", FAILED, "trace", 0, ""); continue
        iseof = tm.eq(lt[0].result, tm.sym("E.LT_EOF", "I"))
        ck = [e for e in s.events if short(e) == "check_key"]
        for hy, eof in cases(list(s.pc), iseof):
            if eof:
                ne += 1
                nkw = fld(ex, s, "next_keyword", "I")
                U.discharge_valid(r, "EOF#%d.next_keyword=END" % ne, hy, tm.eq(nkw, K("END") if not twin else K("NONE")))
                r.add("EOF#%d.no_keyword_search_on_a_stale_line" % ne, DISCHARGED if not ck else FAILED, "trace", 0, repr(ck)[:100])
            else:
                nk += 1
                ok = len(ck) == 1 and B.z3_prove(hy, tm.eq(s.ret, ck[0].result))[0] == "proved"
                r.add("line#%d.returns_what_check_key_found_on_the_parser's_line" % nk, DISCHARGED if ok else FAILED, "trace+z3", 0, repr(ck)[:120])
    r.add("reach.both", DISCHARGED if ne >= 1 and nk >= 1 else UNDECIDED, "symex", 0, "%d/%d" % (ne, nk), kind="vacuity")
    r.assumptions += ["check_key sets next_keyword from the line (KEY_END for an empty line); not under this contract", "the copy of the parser's line into line/line_save (buffer growth) is C08 territory"]
    return r


# ------------------------------------------------------------------------------------------------------------------- tidy_model
# keyword of this simulation -> flag that must be set (the keywords that define or change a reactant of the kind; *_MIX keywords are applied by do_mixes)
TABLE = {
    "new_solution": ["SOLUTION", "SOLUTION_SPREAD", "SOLUTION_RAW", "SOLUTION_MODIFY"],
    "new_pp_assemblage": ["EQUILIBRIUM_PHASES", "EQUILIBRIUM_PHASES_RAW", "EQUILIBRIUM_PHASES_MODIFY"],
    "new_exchange": ["EXCHANGE", "EXCHANGE_RAW", "EXCHANGE_MODIFY"],
    "new_surface": ["SURFACE", "SURFACE_RAW", "SURFACE_MODIFY"],
    "new_gas_phase": ["GAS_PHASE", "GAS_PHASE_RAW", "GAS_PHASE_MODIFY"],
    "new_ss_assemblage": ["SOLID_SOLUTIONS", "SOLID_SOLUTIONS_RAW", "SOLID_SOLUTIONS_MODIFY"],
    "new_kinetics": ["KINETICS"],
    "new_reaction": ["REACTION"],
    "new_temperature": ["REACTION_TEMPERATURE"],
    "new_mix": ["MIX", "MIX_RAW"],
    "new_inverse": ["INVERSE_MODELING"],
    "new_punch": ["SELECTED_OUTPUT", "USER_PUNCH"],
    "new_pitzer": ["PITZER"],
    "new_copy": ["COPY"],
    "new_model": ["SOLUTION_SPECIES", "SOLUTION_MASTER_SPECIES", "PHASES", "EXCHANGE_SPECIES", "EXCHANGE_MASTER_SPECIES", "SURFACE_SPECIES", "SURFACE_MASTER_SPECIES", "RATES",
                  "LLNL_AQUEOUS_MODEL_PARAMETERS", "NAMED_EXPRESSIONS", "ISOTOPES", "CALCULATE_VALUES", "ISOTOPE_RATIOS", "ISOTOPE_ALPHAS", "PITZER", "SIT"],
}
# keywords that may switch a flag on at all (necessity side): the sufficiency table plus the other keywords of the same kind
MAY = {k: list(v) for k, v in TABLE.items()}
MAY["new_kinetics"] += ["KINETICS_RAW", "KINETICS_MODIFY"]
MAY["new_reaction"] += ["REACTION_RAW", "REACTION_MODIFY"]
MAY["new_temperature"] += ["REACTION_TEMPERATURE_RAW", "REACTION_TEMPERATURE_MODIFY"]
MAY["new_model"] += ["DATABASE"]
PERSISTENT = {"new_copy"}       # consumed (and cleared) by copy_entities, not by tidy_model


def _flags_region():
    q = "Phreeqc::tidy_model"
    fn = A.find_function(TIDY, q)
    body = A.body_of(fn).get("inner", [])
    def assigned(st):
        out = set()
        for x in A.walk(st):
            if x.get("kind") == "BinaryOperator" and x.get("opcode") == "=":
                t = text_of(TIDY, x["inner"][0]).replace("this->", "")
                if t.startswith("new_"):
                    out.add(t)
        return out
    idx = [k for k, st in enumerate(body) if assigned(st)]
    if not idx:
        raise Undecided("tidy_model: no assignment to a new_* flag at the top level")
    return fn, body, max(idx)


def kc_of(name):
    KC = tm.select(tm.sym("H0.#vdata:P", ("A", "P", "P")), tm.app("fld:keycount", (THIS,), "P"))
    return tm.select(tm.sym("H0.mem:I", ("A", "P", "I", "I")), KC, K(name))


def unit_tidy_flags(twin=False):
    q = "Phreeqc::tidy_model"
    fn, body, last = _flags_region()
    r = U.new_unit("C04.tidy_model.new_flags_are_functions_of_this_simulations_keyword_counts_only", TIDY, q, fn)
    kw()
    c = ctx(enums_from="Phreeqc.h", enums=["Keywords::KEY_" + n for n in KW_NAMES]); c.merge_ifs = True
    f, ex, fin, info = region(TIDY, q, body[:last + 1], c)
    fin = live(fin, ("run",))
    r.add("reach.one_merged_path", DISCHARGED if len(fin) == 1 else UNDECIDED, "symex", 0, "%d" % len(fin), kind="vacuity")
    s = fin[0]
    nonneg = [tm.le(ZERO, kc_of(n)) for n in KW_NAMES if n != "COUNT_KEYWORDS"]
    nflag = 0
    for key, arr in sorted(s.heap.items(), key=repr):
        if key[0] != "f" or not key[1].startswith("new_") or key[2] != "I":
            continue
        name = key[1]
        v = fld(ex, s, name, "I")
        if v is tm.select(tm.sym("H0.%s:I" % name, ("A", "P", "I")), THIS):
            continue            # not written in the region
        nflag += 1
        deps = {repr(x) for x in tm.free_syms(v)}
        allowed = {"this", "H0.#vdata:P", "H0.mem:I"} | ({"H0.simulation:I"} if name == "new_model" else set()) | ({"H0.%s:I" % name} if name in PERSISTENT else set())
        extra = sorted(deps - allowed)
        r.add("%s.depends_on_nothing_but_the_keyword_counts%s" % (name, "_(and_its_pending_value)" if name in PERSISTENT else ""), DISCHARGED if not extra else FAILED, "term-inspection", 0, "also depends on %s" % extra if extra else "")
        if name not in TABLE:
            r.add("%s.in_the_table" % name, UNDECIDED, "syntactic", 0, "flag without a row in the keyword table of this unit"); continue
        tab = TABLE[name] if not (twin and name == "new_surface") else TABLE[name] + ["SURFACE_SPECIES"]
        for k_ in tab:
            U.discharge_valid(r, "%s.set_when_%s_was_read" % (name, k_), nonneg + [tm.lt(ZERO, kc_of(k_))], tm.eq(v, ONE))
        none = [tm.eq(kc_of(k_), ZERO) for k_ in MAY[name]]
        old = tm.select(tm.sym("H0.%s:I" % name, ("A", "P", "I")), THIS)
        U.discharge_valid(r, "%s.%s_when_no_keyword_of_its_kind_was_read" % (name, "unchanged" if name in PERSISTENT else "clear"), nonneg + none, tm.eq(v, old if name in PERSISTENT else ZERO))
    # the local new_named_logk
    r.add("reach.flags", DISCHARGED if nflag >= 14 else UNDECIDED, "symex", 0, "%d member flags" % nflag, kind="vacuity")
    r.assumptions += ["keyword counters are non-negative (read_input zeroes them and only increments)", "new_model additionally reacts to DATABASE in the first simulation of a call sequence (IPhreeqc ignores the keyword)",
                      "the sufficiency table lists the keywords that define or change a reactant of the kind; *_MIX keywords are applied by do_mixes, KINETICS_RAW/_MODIFY and REACTION*_RAW/_MODIFY need no tidy step",
                      "new_copy is consumed by copy_entities (mainsubs.cpp), which clears it"]
    return r


# tidy step -> the flags under which it must run (any of them), and under which alone it may run
GUARDS = {
    "tidy_surface": ("new_surface", "new_model"), "tidy_min_surface": ("new_surface",), "tidy_kin_surface": ("new_surface",),
    "tidy_inverse": ("new_inverse",), "tidy_gas_phase": ("new_gas_phase",),
    "tidy_pp_assemblage": ("new_pp_assemblage", "new_model"), "tidy_ss_assemblage": ("new_ss_assemblage", "new_model"),
    "tidy_exchange": ("new_exchange",), "tidy_min_exchange": ("new_exchange",), "tidy_kin_exchange": ("new_exchange",),
    "tidy_isotopes": ("new_solution",), "tidy_solutions": ("new_solution",),
}


def unit_tidy_guards(twin=False):
    q = "Phreeqc::tidy_model"
    fn = A.find_function(TIDY, q)
    r = U.new_unit("C04.tidy_model.a_reactant_kind_is_retidied_exactly_when_its_keyword_was_read_or_the_model_changed", TIDY, q, fn)
    body = A.body_of(fn).get("inner", [])
    n = 0
    for callee, flags in GUARDS.items():
        def calls(x):
            return any(y.get("kind") == "CXXMemberCallExpr" and strip(y["inner"][0]).get("name") == callee for y in A.walk(x))
        sites = [x for x in body if calls(x)]
        if len(sites) != 1:
            r.add("%s.called_from_one_top_level_statement" % callee, UNDECIDED if not sites else FAILED, "syntactic", 0, "%d top-level statements call it" % len(sites)); continue
        c = ctx(functional=("get_input_errors",))
        f, ex, fin, info = region(TIDY, q, sites, c)
        want = tm.or_(*[tm.not_(tm.eq(tm.select(tm.sym("H0.%s:I" % fl, ("A", "P", "I")), THIS), ZERO)) for fl in (flags if not (twin and callee == "tidy_exchange") else ("new_surface",))])
        okc = oks = True; nc = ns = 0
        for s in live(fin, ("run", "ret")):
            called = any(short(e) == callee for e in s.events)
            if called:
                nc += 1
                if B.z3_prove(list(s.pc), want)[0] != "proved":
                    okc = False
            else:
                ns += 1
                if B.z3_prove(list(s.pc), tm.not_(want))[0] != "proved":
                    oks = False
        n += 1
        r.add("%s.runs_only_if_%s" % (callee, "_or_".join(flags)), DISCHARGED if okc and nc else (FAILED if nc else UNDECIDED), "symex+z3", 0, "%d calling paths" % nc)
        r.add("%s.runs_whenever_%s" % (callee, "_or_".join(flags)), DISCHARGED if oks and ns else (FAILED if ns else UNDECIDED), "symex+z3", 0, "%d skipping paths" % ns)
    r.add("reach.steps", DISCHARGED if n >= 10 else UNDECIDED, "symex", 0, str(n), kind="vacuity")
    r.assumptions += ["the flags are those of C04.tidy_model.new_flags_are_functions_of_this_simulations_keyword_counts_only", "the tidy steps themselves are not under this contract",
                      "tidy_punch (guarded additionally by the error count) is C04.tidy_model.rebinds_after_model_change / C04.tidy_punch.*"]
    return r


UNITS = [
    ("C04.Use.init.every_member_of_the_USE_record_is_reset", unit_use_init),
    ("C04.read_input.one_pass_counts_and_dispatches_exactly_the_keyword_read_and_only_END_ends_the_simulation", unit_read_input_loop),
    ("C04.cleanup_after_parser.end_of_input_after_a_block_is_END", unit_cleanup_after_parser),
    ("C04.tidy_model.new_flags_are_functions_of_this_simulations_keyword_counts_only", unit_tidy_flags),
    ("C04.tidy_model.a_reactant_kind_is_retidied_exactly_when_its_keyword_was_read_or_the_model_changed", unit_tidy_guards),
]
