"""C01/C02: the equations of model.cpp that turn master-species activities into species amounts and sums
(molalities, sum_species) — statement and iteration contracts."""
from props.common import *
from vf.core import FAILED, DISCHARGED, UNDECIDED
from vf.astvc import hdr

MODEL = "src/phreeqcpp/model.cpp"
GS = "src/phreeqcpp/global_structures.h"


def _sxi(ex, s, ivar="L_i"):
    return vec_elem(ex, s, "s_x", tm.sym(ivar, "I"))


def _call(s, name, args):
    """result term of the call name(args) recorded on this path (functional calls: equal arguments give equal results)"""
    for e in s.events:
        if e.name.split("::")[-1] == name:
            ok, _, _ = B.sympy_equal(tm.and_(*[tm.eq(a, b) for a, b in zip(e.args, args)]), tm.TRUE) if False else (all(B.sympy_equal(a, b)[0] for a, b in zip(e.args, args)), 0, 0)
            if ok and len(e.args) == len(args):
                return e.result
    return tm.sym("?no_call_%s" % name, "R")


def unit_molalities(twin=False):
    q = "Phreeqc::molalities"
    fn = A.find_function(MODEL, q)
    r = U.new_unit("C01.molalities.mass_action", MODEL, q, fn)
    # (1) lm starts as lk - lg
    st = find_stmt(fn, MODEL, "s_x[i]->lm =", prefix=True, kinds=("BinaryOperator",))
    f, ex, fin, info = region(MODEL, q, [st])
    for s in live(fin):
        sp = _sxi(ex, s)
        w = writes(s, ("f", "lm", "R"))
        if len(w) != 1 or w[0][0] != (sp,):
            r.add("init.writes_lm_of_species_i", FAILED, "symex", 0, repr(w)[:300]); continue
        U.discharge_eq_real(r, "init.lm==logK-log_gamma", list(s.pc), w[0][1], fld0(ex, s, "lk", "R", sp) - (fld0(ex, s, "lg", "R", sp) if not twin else tm.num(0)))
    # (2) token walk: lm += coef*la of every master species of the reaction in the model's form (rxn_x)
    k = loop_ordinal(fn, MODEL, init_text="rxn_ptr=&s_x[i]->rxn_x.token[0]+1")
    f, ex, its, info = U.run_loop_isolated(MODEL, q, k, ctx=ctx())
    n = 0
    for s in live(its, ("run", "cont")):
        n += 1
        sp = _sxi(ex, s)
        rp = tm.sym("iter_rxn_ptr", "P")
        w = writes(s, ("f", "lm", "R"))
        if len(w) != 1 or w[0][0] != (sp,):
            r.add("walk.writes_lm_of_species_i_once", FAILED, "symex", 0, repr(w)[:300]); continue
        old = tm.select(entry_arr(ex, s, ("f", "lm", "R")), sp)
        la = fld0(ex, s, "la", "R", fld0(ex, s, "s", "P", rp)); coef = fld0(ex, s, "coef", "R", rp)
        U.discharge_eq_real(r, "walk.lm+=coef*log_activity(master)", list(s.pc), w[0][1], old + coef * la)
        r.add("walk.frame_only_lm", DISCHARGED if all(not writes(s, key) for key in s.heap if key != ("f", "lm", "R")) else FAILED, "symex", 0, "", kind="frame")
    r.add("reach.walk", DISCHARGED if n else UNDECIDED, "symex", 0, "%d" % n, kind="vacuity")
    # (3) amount from log molality
    # the outermost if whose first arm computes the amount with safe_exp: located by effect, so a changed kind test is decided
    cand = [x for x in A.walk(fn) if x.get("kind") == "IfStmt" and len(x["inner"]) >= 2 and text_of(MODEL, x["inner"][1]).replace("{", "").startswith("s_x[i]->moles=Utilities::safe_exp(")]
    if not cand:
        raise Undecided("amount statement of molalities not found")
    ifs = cand[0]
    c = ctx(functional=("under", "safe_exp")); c.enum_values.update({})
    f, ex, fin, info = region(MODEL, q, [ifs], c)
    EX = hdr.define_value(GS, "EX"); SURF = hdr.define_value(GS, "SURF")
    seen = set()
    for s in live(fin, ("run", "ret")):
        sp = _sxi(ex, s)
        w = [x for x in writes(s, ("f", "moles", "R"))]
        if len(w) != 1 or w[0][0] != (sp,):
            r.add("amount.writes_moles_of_species_i_once", FAILED, "symex", 0, repr(w)[:300]); continue
        ty = fld0(ex, s, "type", "I", sp); lm = fld0(ex, s, "lm", "R", sp)
        sorbed = tm.or_(tm.eq(ty, tm.num(EX, "I")), tm.eq(ty, tm.num(SURF, "I")))
        hy = list(s.pc)
        if B.z3_sat(hy + [sorbed]) != "unsat":
            seen.add("sorbed")
            U.discharge_eq_real(r, "amount.exchange_surface.moles==exp(lm*ln10)", hy + [sorbed], w[0][1], _call(s, "safe_exp", (lm * fld0(ex, s, "LOG_10", "R"),)))
        if B.z3_sat(hy + [tm.not_(sorbed)]) != "unsat":
            seen.add("aqueous")
            mw = fld0(ex, s, "mass_water_aq_x", "R")
            U.discharge_eq_real(r, "amount.aqueous.moles==10^lm*kg_water", hy + [tm.not_(sorbed)], w[0][1], _call(s, "under", (lm,)) * (mw if not twin else tm.num(1)))
    r.add("reach.amount_cases", DISCHARGED if seen == {"sorbed", "aqueous"} else UNDECIDED, "symex", 0, repr(seen), kind="vacuity")
    # (4) master species of rewritten elements: la = lm + lg
    st = find_stmt(fn, MODEL, "master[i]->s->la =", prefix=True, kinds=("BinaryOperator",))
    f, ex, fin, info = region(MODEL, q, [st])
    for s in live(fin):
        sp = fld0(ex, s, "s", "P", vec_elem(ex, s, "master", tm.sym("L_i", "I")))
        w = writes(s, ("f", "la", "R"))
        if len(w) != 1 or w[0][0] != (sp,):
            r.add("master.writes_la", FAILED, "symex", 0, repr(w)[:300]); continue
        U.discharge_eq_real(r, "master.log_activity==log_molality+log_gamma", list(s.pc), w[0][1], fld0(ex, s, "lm", "R", sp) + fld0(ex, s, "lg", "R", sp))
    r.assumptions += ["under(lm) is 10^lm with an underflow guard and safe_exp is exp with an overflow guard (bodies not under contract)",
                      "the diffuse-layer part of molalities (g_moles etc.) is not under contract here", "doubles as reals"]
    return r


def unit_sum_species(twin=False):
    q = "Phreeqc::sum_species"
    fn = A.find_function(MODEL, q)
    r = U.new_unit("C01.sum_species.totals_charge_alkalinity", MODEL, q, fn)
    # read-out identities
    for text, field, spec in [("ph_x = -s_hplus->la", "ph_x", lambda ex, s: tm.neg(fld0(ex, s, "la", "R", fld0(ex, s, "s_hplus", "P")))),
                              ("solution_pe_x = -s_eminus->la", "solution_pe_x", lambda ex, s: tm.neg(fld0(ex, s, "la", "R", fld0(ex, s, "s_eminus", "P")))),
                              ("ah2o_x = exp(s_h2o->la * LOG_10)", "ah2o_x", lambda ex, s: tm.app("exp", (fld0(ex, s, "la", "R", fld0(ex, s, "s_h2o", "P")) * fld0(ex, s, "LOG_10", "R"),), "R"))]:
        st = find_stmt(fn, MODEL, text.split("=")[0] + "=", prefix=True, kinds=("BinaryOperator",))
        f, ex, fin, info = region(MODEL, q, [st])
        for s in live(fin):
            w = writes(s, ("f", field, "R"))
            if len(w) != 1:
                r.add("readout.%s_written" % field, FAILED, "symex", 0, repr(w)[:200]); continue
            U.discharge_eq_real(r, "readout.%s" % text.replace(" ", ""), list(s.pc), w[0][1], spec(ex, s) if not (twin and field == "ph_x") else fld0(ex, s, "la", "R", fld0(ex, s, "s_hplus", "P")))
    # species loop: each aqueous species adds z*m to the charge, alk*m to alkalinity, h*m / o*m to H and O
    k = loop_ordinal(fn, MODEL, init_text="i=0", cond_text="i<(int)this->s_x.size()")
    c = ctx(functional=("Get_surface_ptr", "Get_debye_lengths"))
    f, ex, its, info = U.run_loop_isolated(MODEL, q, k, ctx=c)
    EX = hdr.define_value(GS, "EX"); SURF = hdr.define_value(GS, "SURF"); H2O = hdr.define_value(GS, "H2O")
    nrun = nskip = 0
    sums = [("cb_x", "z"), ("total_alkalinity", "alk"), ("total_carbon", "carbon"), ("total_co2", "co2"), ("total_h_x", "h"), ("total_o_x", "o")]
    for s in live(its, ("run", "cont")):
        sp = vec_elem(ex, s, "s_x", tm.sym("iter_i", "I"))
        ty = fld0(ex, s, "type", "I", sp); m = fld0(ex, s, "moles", "R", sp)
        sorbed = tm.or_(tm.eq(ty, tm.num(EX, "I")), tm.eq(ty, tm.num(SURF, "I")))
        for hy, is_sorbed in cases(list(s.pc), sorbed):
            if is_sorbed:
                nskip += 1
                ok = all(not writes(s, key) for key in s.heap)
                r.add("species.exchange_and_surface_species_add_nothing", DISCHARGED if ok else FAILED, "symex", 0, "", kind="frame")
                continue
            nrun += 1
            REACTION = hdr.define_value(GS, "REACTION")
            sp_ev = [e.result for e in s.events if e.name.endswith("Get_surface_ptr")]
            db_ev = [e.result for e in s.events if e.name.endswith("Get_debye_lengths")]
            if sp_ev and db_ev:
                C = tm.and_(tm.not_(tm.eq(sp_ev[0], tm.num(0, "P"))), tm.lt(tm.num(0), db_ev[0]), tm.le(tm.num(REACTION, "I"), fld0(ex, s, "state", "I")), tm.eq(ty, tm.num(H2O, "I")))
                sub = cases(hy, C)
            else:
                sub = [(hy, False)]
            for hy2, corr in sub:
                for field, coef in sums:
                    w = writes(s, ("f", field, "R"))
                    if not w:
                        r.add("species.%s_updated" % field, FAILED, "symex", 0, "not written on an aqueous-species path"); continue
                    old = fld0(ex, s, field, "R")
                    add = fld0(ex, s, coef, "R", sp) * m
                    if twin and field == "cb_x":
                        add = m
                    if field in ("total_h_x", "total_o_x") and corr:
                        # diffuse-layer water with Debye lengths: water held by the surfaces is taken out (H2O species only)
                        msw = fld0(ex, s, "mass_water_surfaces_x", "R"); gw = fld0(ex, s, "gfw_water", "R")
                        add = add - (tm.num(2) if field == "total_h_x" else tm.num(1)) * msw / gw
                    U.discharge_eq_real(r, "species.%s+=%s*moles" % (field, coef), hy2, w[-1][1], old + add)
        w = writes(s, ("f", "total_ions_x", "R"))
    for field, coef in sums:
        check_accumulator_init(r, fn, MODEL, loop_node(fn, k), field, "species")
    r.add("reach.species_cases", DISCHARGED if nrun and nskip else UNDECIDED, "symex", 0, "%d aqueous, %d sorbed paths" % (nrun, nskip), kind="vacuity")
    # valence-state totals: master->total += moles*coef, master = secondary if present else primary
    k = loop_ordinal(fn, MODEL, init_text="i=0", cond_text="i<(int)species_list.size()")
    f, ex, its, info = U.run_loop_isolated(MODEL, q, k, ctx=ctx())
    n = 0
    for s in live(its, ("run", "cont")):
        n += 1
        data = tm.select(entry_arr(ex, s, ("f", "#vdata", "P")), tm.app("fld:species_list", (THIS,), "P"))
        w = writes(s, ("f", "total", "R"))
        if len(w) != 1:
            r.add("valence_totals.one_total_written", FAILED, "symex", 0, repr(w)[:200]); continue
        (mp,), val = w[0]
        old = tm.select(entry_arr(ex, s, ("f", "total", "R")), mp)
        ent = data + tm.sym("iter_i", "I")                # &species_list[i] (vector of records)
        ms = fld0(ex, s, "master_s", "P", ent)
        sec, pri = fld0(ex, s, "secondary", "P", ms), fld0(ex, s, "primary", "P", ms)
        mo = fld0(ex, s, "moles", "R", fld0(ex, s, "s", "P", ent)); co = fld0(ex, s, "coef", "R", ent)
        U.discharge_eq_real(r, "valence_totals.total+=moles*coef", list(s.pc), val, old + (mo * co if not twin else mo))
        hy = list(s.pc)
        has_sec = tm.not_(tm.eq(sec, tm.num(0, "P")))
        if B.z3_sat(hy + [has_sec]) != "unsat":
            U.discharge_valid(r, "valence_totals.secondary_master_receives_when_present", hy + [has_sec], tm.eq(mp, sec))
        if B.z3_sat(hy + [tm.not_(has_sec)]) != "unsat":
            U.discharge_valid(r, "valence_totals.primary_master_receives_otherwise", hy + [tm.not_(has_sec)], tm.eq(mp, pri))
    r.add("reach.valence_totals", DISCHARGED if n >= 2 else UNDECIDED, "symex", 0, "%d paths" % n, kind="vacuity")
    r.assumptions += ["total_ions_x (a scaling aid) is not under contract", "the order in which species are visited is irrelevant over the reals", "doubles as reals"]
    return r
