"""C08: fixed-size local buffers filled by a loop - the classic inductive argument, stated on the real loop: the index is 0 when the loop is
entered, every store of an iteration that starts with 0 <= index < capacity is inside the buffer, and every way of going on to the next
iteration (or of leaving the loop normally) re-establishes index < capacity, so the terminator written behind the loop is inside as well."""
from props.common import *
from vf.core import FAILED, DISCHARGED, UNDECIDED
from vf.astvc import hdr

UTIL = "src/phreeqcpp/utilities.cpp"
GS = "src/phreeqcpp/global_structures.h"


def unit_get_token_charge(twin=False):
    q = "Phreeqc::get_token"
    fn = A.find_function(UTIL, q)
    r = U.new_unit("C08.get_token.charge_buffer_index_stays_below_its_capacity", UTIL, q, fn)
    decl = [x for x in A.walk(fn) if x.get("kind") == "VarDecl" and x.get("name") == "charge"]
    if not decl:
        raise Undecided("local buffer `charge` of get_token not found")
    m = re.search(r"\[(\d+)\]", decl[0]["type"].get("desugaredQualType") or decl[0]["type"]["qualType"])
    if not m:
        raise Undecided("capacity of `charge` not read from its type")
    cap = int(m.group(1))
    maxlen = int(hdr.define_value(GS, "MAX_LENGTH"))
    r.add("capacity_is_MAX_LENGTH", DISCHARGED if cap == maxlen else FAILED, "ast-facts", 0, "%d vs %d" % (cap, maxlen), kind="structural")
    loops = [x for x in A.walk(fn) if x.get("kind") in ("WhileStmt", "ForStmt", "DoStmt")]
    ks = [k for k, lp in enumerate(loops) if "charge[j++]=" in text_of(UTIL, lp["inner"][-1])]
    if len(ks) != 1:
        raise Undecided("the loop that fills `charge` was not found (%d)" % len(ks))
    k = ks[0]
    c = ctx(functional=("isalpha",)); c.log_stores = True
    j0 = tm.sym("iter_j", "I"); N = tm.num(cap if not twin else cap - 1, "I")
    def prep(ex_, s_, info_):
        s_.assume(tm.le(tm.num(0, "I"), j0)); s_.assume(tm.lt(j0, tm.num(cap, "I")))
    f, ex, its, info = U.run_loop_isolated(UTIL, q, k, ctx=c, prepare=prep)
    buf = None
    n = nn = 0
    for s in its:
        v = s.locals.get(info["names"]["charge"])
        buf = v[1] if isinstance(v, tuple) else v
        for e in U.iter_events(s):
            if e.name == "store" and e.recv is buf:
                n += 1
                U.discharge_valid(r, "iteration.store_inside_the_buffer#%d" % n, list(s.pc), tm.and_(tm.le(tm.num(0, "I"), e.args[0]), tm.lt(e.args[0], tm.num(cap, "I"))))
        if s.status in ("run", "cont"):
            nn += 1
            U.discharge_valid(r, "iteration.index_below_capacity_when_the_loop_goes_on#%d" % nn, list(s.pc), tm.lt(local(info, s, "j"), N))
    r.add("reach.stores_and_continuations", DISCHARGED if n and nn else UNDECIDED, "symex", 0, "%d/%d" % (n, nn), kind="vacuity")
    iv = initial_value_before(fn, UTIL, loops[k], "j")
    r.add("entry.index_starts_at_0", DISCHARGED if iv is not None and iv[0] == "=" and iv[1] in ("0",) else FAILED, "syntactic", 0, repr(iv), kind="establishment")
    r.assumptions += ["the backward scan behind the loop (j--) stops at the sign character it looks for (the charge text contains one), so the terminator index stays >= 0: not proved here",
                      "get_charge(charge, MAX_LENGTH, ..) is given the true capacity (C08.sites.* style fact, read from the call text)"]
    t = text_of(UTIL, fn)
    r.add("callee_is_told_the_true_capacity(get_charge(charge,MAX_LENGTH,..))", DISCHARGED if "get_charge(charge,MAX_LENGTH," in t else FAILED, "syntactic", 0, "", kind="structural")
    return r


SPREAD = "src/phreeqcpp/spread.cpp"


def unit_spread_row_cells(twin=False):
    """Phreeqc::spread_row_to_solution: a SOLUTION_SPREAD data row may be shorter than the heading row.  Every cell of `data` (type_vector[i],
    str_vector[i]) that the function reads through an index is read only when i is inside the row: 0 <= i < data->count.
    Hypothesis (representation invariant of spread_row, established by string_to_spread_row): count == type_vector.size() == str_vector.size().
    Regions: the `number`-column decision after the search loop, and one arbitrary pass of the column loop."""
    q = "Phreeqc::spread_row_to_solution"
    fn = A.find_function(SPREAD, q)
    r = U.new_unit("C08.spread_row_to_solution.cells_of_a_short_data_row_are_not_read", SPREAD, q, fn)
    body = A.body_of(fn)
    # the decision: first IfStmt (in source order) whose condition reads data->type_vector
    def reads_data_cell(n):
        for y in A.walk(n):
            if y.get("kind") == "MemberExpr" and y.get("name") in ("type_vector", "str_vector"):
                b = strip(y["inner"][0])
                if b.get("kind") == "DeclRefExpr" and b.get("referencedDecl", {}).get("name") == "data":
                    return True
        return False
    # a decision = an `if` statement (child of a block) whose condition reads a cell of `data`, together with the statements directly behind it
    # that read cells of `data` (they rely on the decision having left the block otherwise)
    regions = []
    for blk in A.walk(body):
        if blk.get("kind") != "CompoundStmt":
            continue
        ch = blk.get("inner", [])
        for j, x in enumerate(ch):
            if x.get("kind") == "IfStmt" and reads_data_cell(x["inner"][0]):
                nodes = [x]
                for y in ch[j + 1:]:
                    if y.get("kind") != "IfStmt" and reads_data_cell(y):
                        nodes.append(y)
                    else:
                        break
                regions.append(nodes)
    if not regions:
        raise Undecided("spread_row_to_solution: no decision reading a cell of `data` found")
    data = tm.sym("L_data", "P")
    nchecked = 0
    for k, nodes in enumerate(regions):
        c = ctx(functional=())
        c.stl.check_bounds = True
        f, ex, fin, info = region(SPREAD, q, nodes, c)
        side = list(c.stl.side)
        for what, pc, ob in side:
            txt = repr(ob)
            if "L_data" not in txt:
                continue
            nchecked += 1
            s0 = fin[0] if fin else None
            cnt = tm.select(tm.sym("H0.count:I", ("A", "P", "I")), data)
            hyp = []
            for vec in ("type_vector", "str_vector"):
                hyp.append(tm.eq(tm.select(tm.sym("H0.#vsize:I", ("A", "P", "I")), tm.app("fld:" + vec, (data,), "P")), cnt if not twin else cnt - tm.num(1, "I")))
            i = tm.sym("L_i", "I")
            hyp.append(tm.le(tm.num(0, "I"), i))
            U.discharge_valid(r, "decision%d.%s.index_inside_the_row#%d" % (k, re.sub(r"[^A-Za-z_]+", "_", str(what))[:40], nchecked), list(pc) + hyp, ob)
    r.add("reach.indexed_reads_of_data_cells", DISCHARGED if nchecked >= 2 else UNDECIDED, "symex", 0, str(nchecked), kind="vacuity")
    r.assumptions += ["representation invariant of spread_row: count == type_vector.size() == str_vector.size() (string_to_spread_row, not under this contract)",
                      "the column index is non-negative (loop counters start at 0)", "std::vector::operator[] is in bounds iff 0 <= index < size()"]
    return r


READ_CPP = "src/phreeqcpp/read.cpp"


def unit_get_option_room(twin=False):
    """Phreeqc::get_option writes the full option name over the abbreviation typed, in place, in the heap buffers `line` and `line_save`
    (capacity max_line each, established by Phreeqc::get_line).  Contract: whenever replace(abbreviation, opt_list[j], buffer) is called, the
    buffer that receives the longer text has room for it: strlen(buffer) + strlen(opt_list[j]) + 1 <= capacity, where the capacity is max_line
    when the buffer was not reallocated on the path and the size handed to PHRQ_realloc when it was; max_line is kept equal to that size."""
    q = "Phreeqc::get_option"
    c = ctx(functional=("reading_database", "strlen"))
    stop_on_error_msg(c)
    fn, ex, fin, info = U.run_function(READ_CPP, q, ctx=c)
    r = U.new_unit("C08.get_option.buffers_have_room_for_the_full_option_name", READ_CPP, q, fn)
    nm = lambda e: e.name.split("::")[-1]
    nrep = 0; kinds = set()
    for s in fin:
        if s.status != "ret":
            continue
        reps = [e for e in s.events if nm(e) == "replace"]
        if not reps:
            continue
        if B.z3_sat(list(s.pc)) == "unsat":
            continue
        ml1 = ex.coerce(fld(ex, s, "max_line", "I"), "I"); ml0 = ex.coerce(fld0(ex, s, "max_line", "I"), "I")
        lens = [e for e in s.events if nm(e) == "strlen"]
        reallocs = [e for e in s.events if nm(e) == "PHRQ_realloc"]
        for e in reps:
            nrep += 1
            dest = e.args[2]; name = e.args[1]
            which = [f for f in ("line", "line_save") if dest is fld(ex, s, f, "P")]
            if len(which) != 1:
                r.add("replace#%d.destination_is_line_or_line_save" % nrep, FAILED, "trace", 0, repr(dest)[:100], kind="safety"); continue
            f = which[0]
            old = fld0(ex, s, f, "P")
            # length of the text in the buffer (taken before any reallocation: PHRQ_realloc keeps the text) and of the full name
            ltxt = [x.result for x in lens if x.args and x.args[-1] is old and s.events.index(x) < s.events.index(e)]
            lname = [x.result for x in lens if x.args and (x.args[-1] is name or repr(x.args[-1]) == repr(name)) and s.events.index(x) < s.events.index(e)]
            ra = [x for x in reallocs if x.result is dest]
            if ra:
                kinds.add("grown")
                cap = ex.coerce(ra[0].args[-1], "I")
                r.add("replace#%d(%s).reallocated_buffer_is_the_old_one_grown" % (nrep, f), DISCHARGED if ra[0].args[0] is old else FAILED, "trace", 0, repr(ra[0].args[0])[:80], kind="safety")
                U.discharge_valid(r, "replace#%d(%s).max_line_is_the_new_capacity" % (nrep, f), list(s.pc), tm.eq(tm.to_int(ml1) if ml1.sort != "I" else ml1, cap), kind="safety")
            else:
                kinds.add("kept")
                cap = ml0
                U.discharge_valid(r, "replace#%d(%s).max_line_unchanged_when_not_reallocated" % (nrep, f), list(s.pc), tm.eq(ml1, ml0), kind="safety")
            if not ltxt or not lname:
                # nothing on the path measured the two texts: the room cannot have been checked
                r.add("replace#%d(%s).strlen(buffer)+strlen(full_name)+1<=capacity" % (nrep, f), FAILED, "trace", 0,
                      "no strlen of the buffer / of the full name is taken before the text is lengthened", kind="safety")
                continue
            hy = list(s.pc) + [tm.le(tm.num(0, "I"), ltxt[0]), tm.le(tm.num(0, "I"), lname[0]), tm.lt(tm.num(0, "I"), ml0)]
            need = tm.add(tm.add(ltxt[0], lname[0]), tm.num(1 if not twin else 2 ** 40, "I"))
            U.discharge_valid(r, "replace#%d(%s).strlen(buffer)+strlen(full_name)+1<=capacity" % (nrep, f), hy, tm.le(need, cap), kind="safety")
    r.add("reach.rewrites_on_kept_and_on_grown_buffers", DISCHARGED if kinds == {"kept", "grown"} and nrep >= 4 else UNDECIDED, "symex", 0, "%s %d" % (sorted(kinds), nrep), kind="vacuity")
    r.assumptions += ["on entry line and line_save are NUL-terminated buffers of capacity max_line (Phreeqc::get_line / cleanup_after_parser size them so)",
                      "PHRQ_realloc(p, n) returns a buffer of n bytes that keeps the text of p; check_line / copy_token / find_option do not move the buffers (calls are pure here)",
                      "replace(str1, str2, buf) needs strlen(buf) - strlen(str1) + strlen(str2) + 1 bytes (C08.replace.bytes_needed...); the bound proved here does not subtract strlen(str1)",
                      "machine int treated as mathematical integer (a line longer than INT_MAX/2 is not considered)"]
    return r
