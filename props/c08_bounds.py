"""C08: fixed-size local buffers filled by a loop - the classic inductive argument, stated on the real loop: the index is 0 when the loop is
entered, every store of an iteration that starts with 0 <= index < capacity is inside the buffer, and every way of going on to the next
iteration (or of leaving the loop normally) re-establishes index < capacity, so the terminator written behind the loop is inside as well."""
from props.common import *
from vf.core import FAILED, DISCHARGED, UNDECIDED
from vf.astvc import hdr

UTIL = "src/phreeqcpp/utilities.cpp"
GS = "src/phreeqcpp/global_structures.h"


def unit_get_token_charge(twin=False):
    q = "Phreeqc::get_token"
    fn = A.find_function(UTIL, q)
    r = U.new_unit("C08.get_token.charge_buffer_index_stays_below_its_capacity", UTIL, q, fn)
    decl = [x for x in A.walk(fn) if x.get("kind") == "VarDecl" and x.get("name") == "charge"]
    if not decl:
        raise Undecided("local buffer `charge` of get_token not found")
    m = re.search(r"\[(\d+)\]", decl[0]["type"].get("desugaredQualType") or decl[0]["type"]["qualType"])
    if not m:
        raise Undecided("capacity of `charge` not read from its type")
    cap = int(m.group(1))
    maxlen = int(hdr.define_value(GS, "MAX_LENGTH"))
    r.add("capacity_is_MAX_LENGTH", DISCHARGED if cap == maxlen else FAILED, "ast-facts", 0, "%d vs %d" % (cap, maxlen), kind="structural")
    loops = [x for x in A.walk(fn) if x.get("kind") in ("WhileStmt", "ForStmt", "DoStmt")]
    ks = [k for k, lp in enumerate(loops) if "charge[j++]=" in text_of(UTIL, lp["inner"][-1])]
    if len(ks) != 1:
        raise Undecided("the loop that fills `charge` was not found (%d)" % len(ks))
    k = ks[0]
    c = ctx(functional=("isalpha",)); c.log_stores = True
    j0 = tm.sym("iter_j", "I"); N = tm.num(cap if not twin else cap - 1, "I")
    def prep(ex_, s_, info_):
        s_.assume(tm.le(tm.num(0, "I"), j0)); s_.assume(tm.lt(j0, tm.num(cap, "I")))
    f, ex, its, info = U.run_loop_isolated(UTIL, q, k, ctx=c, prepare=prep)
    buf = None
    n = nn = 0
    for s in its:
        v = s.locals.get(info["names"]["charge"])
        buf = v[1] if isinstance(v, tuple) else v
        for e in U.iter_events(s):
            if e.name == "store" and e.recv is buf:
                n += 1
                U.discharge_valid(r, "iteration.store_inside_the_buffer#%d" % n, list(s.pc), tm.and_(tm.le(tm.num(0, "I"), e.args[0]), tm.lt(e.args[0], tm.num(cap, "I"))))
        if s.status in ("run", "cont"):
            nn += 1
            U.discharge_valid(r, "iteration.index_below_capacity_when_the_loop_goes_on#%d" % nn, list(s.pc), tm.lt(local(info, s, "j"), N))
    r.add("reach.stores_and_continuations", DISCHARGED if n and nn else UNDECIDED, "symex", 0, "%d/%d" % (n, nn), kind="vacuity")
    iv = initial_value_before(fn, UTIL, loops[k], "j")
    r.add("entry.index_starts_at_0", DISCHARGED if iv is not None and iv[0] == "=" and iv[1] in ("0",) else FAILED, "syntactic", 0, repr(iv), kind="establishment")
    r.assumptions += ["the backward scan behind the loop (j--) stops at the sign character it looks for (the charge text contains one), so the terminator index stays >= 0: not proved here",
                      "get_charge(charge, MAX_LENGTH, ..) is given the true capacity (C08.sites.* style fact, read from the call text)"]
    t = text_of(UTIL, fn)
    r.add("callee_is_told_the_true_capacity(get_charge(charge,MAX_LENGTH,..))", DISCHARGED if "get_charge(charge,MAX_LENGTH," in t else FAILED, "syntactic", 0, "", kind="structural")
    return r


SPREAD = "src/phreeqcpp/spread.cpp"


def unit_spread_row_cells(twin=False):
    """Phreeqc::spread_row_to_solution: a SOLUTION_SPREAD data row may be shorter than the heading row.  Every cell of `data` (type_vector[i],
    str_vector[i]) that the function reads through an index is read only when i is inside the row: 0 <= i < data->count.
    Hypothesis (representation invariant of spread_row, established by string_to_spread_row): count == type_vector.size() == str_vector.size().
    Regions: the `number`-column decision after the search loop, and one arbitrary pass of the column loop."""
    q = "Phreeqc::spread_row_to_solution"
    fn = A.find_function(SPREAD, q)
    r = U.new_unit("C08.spread_row_to_solution.cells_of_a_short_data_row_are_not_read", SPREAD, q, fn)
    body = A.body_of(fn)
    # the decision: first IfStmt (in source order) whose condition reads data->type_vector
    def reads_data_cell(n):
        for y in A.walk(n):
            if y.get("kind") == "MemberExpr" and y.get("name") in ("type_vector", "str_vector"):
                b = strip(y["inner"][0])
                if b.get("kind") == "DeclRefExpr" and b.get("referencedDecl", {}).get("name") == "data":
                    return True
        return False
    # a decision = an `if` statement (child of a block) whose condition reads a cell of `data`, together with the statements directly behind it
    # that read cells of `data` (they rely on the decision having left the block otherwise)
    regions = []
    for blk in A.walk(body):
        if blk.get("kind") != "CompoundStmt":
            continue
        ch = blk.get("inner", [])
        for j, x in enumerate(ch):
            if x.get("kind") == "IfStmt" and reads_data_cell(x["inner"][0]):
                nodes = [x]
                for y in ch[j + 1:]:
                    if y.get("kind") != "IfStmt" and reads_data_cell(y):
                        nodes.append(y)
                    else:
                        break
                regions.append(nodes)
    if not regions:
        raise Undecided("spread_row_to_solution: no decision reading a cell of `data` found")
    data = tm.sym("L_data", "P")
    nchecked = 0
    for k, nodes in enumerate(regions):
        c = ctx(functional=())
        c.stl.check_bounds = True
        f, ex, fin, info = region(SPREAD, q, nodes, c)
        side = list(c.stl.side)
        for what, pc, ob in side:
            txt = repr(ob)
            if "L_data" not in txt:
                continue
            nchecked += 1
            s0 = fin[0] if fin else None
            cnt = tm.select(tm.sym("H0.count:I", ("A", "P", "I")), data)
            hyp = []
            for vec in ("type_vector", "str_vector"):
                hyp.append(tm.eq(tm.select(tm.sym("H0.#vsize:I", ("A", "P", "I")), tm.app("fld:" + vec, (data,), "P")), cnt if not twin else cnt - tm.num(1, "I")))
            i = tm.sym("L_i", "I")
            hyp.append(tm.le(tm.num(0, "I"), i))
            U.discharge_valid(r, "decision%d.%s.index_inside_the_row#%d" % (k, re.sub(r"[^A-Za-z_]+", "_", str(what))[:40], nchecked), list(pc) + hyp, ob)
    r.add("reach.indexed_reads_of_data_cells", DISCHARGED if nchecked >= 2 else UNDECIDED, "symex", 0, str(nchecked), kind="vacuity")
    r.assumptions += ["representation invariant of spread_row: count == type_vector.size() == str_vector.size() (string_to_spread_row, not under this contract)",
                      "the column index is non-negative (loop counters start at 0)", "std::vector::operator[] is in bounds iff 0 <= index < size()"]
    return r
