"""C08: fixed-size local buffers filled by a loop - the classic inductive argument, stated on the real loop: the index is 0 when the loop is
entered, every store of an iteration that starts with 0 <= index < capacity is inside the buffer, and every way of going on to the next
iteration (or of leaving the loop normally) re-establishes index < capacity, so the terminator written behind the loop is inside as well."""
from props.common import *
from vf.core import FAILED, DISCHARGED, UNDECIDED
from vf.astvc import hdr

UTIL = "src/phreeqcpp/utilities.cpp"
GS = "src/phreeqcpp/global_structures.h"


def unit_get_token_charge(twin=False):
    q = "Phreeqc::get_token"
    fn = A.find_function(UTIL, q)
    r = U.new_unit("C08.get_token.charge_buffer_index_stays_below_its_capacity", UTIL, q, fn)
    decl = [x for x in A.walk(fn) if x.get("kind") == "VarDecl" and x.get("name") == "charge"]
    if not decl:
        raise Undecided("local buffer `charge` of get_token not found")
    m = re.search(r"\[(\d+)\]", decl[0]["type"].get("desugaredQualType") or decl[0]["type"]["qualType"])
    if not m:
        raise Undecided("capacity of `charge` not read from its type")
    cap = int(m.group(1))
    maxlen = int(hdr.define_value(GS, "MAX_LENGTH"))
    r.add("capacity_is_MAX_LENGTH", DISCHARGED if cap == maxlen else FAILED, "ast-facts", 0, "%d vs %d" % (cap, maxlen), kind="structural")
    loops = [x for x in A.walk(fn) if x.get("kind") in ("WhileStmt", "ForStmt", "DoStmt")]
    ks = [k for k, lp in enumerate(loops) if "charge[j++]=" in text_of(UTIL, lp["inner"][-1])]
    if len(ks) != 1:
        raise Undecided("the loop that fills `charge` was not found (%d)" % len(ks))
    k = ks[0]
    c = ctx(functional=("isalpha",)); c.log_stores = True
    j0 = tm.sym("iter_j", "I"); N = tm.num(cap if not twin else cap - 1, "I")
    def prep(ex_, s_, info_):
        s_.assume(tm.le(tm.num(0, "I"), j0)); s_.assume(tm.lt(j0, tm.num(cap, "I")))
    f, ex, its, info = U.run_loop_isolated(UTIL, q, k, ctx=c, prepare=prep)
    buf = None
    n = nn = 0
    for s in its:
        v = s.locals.get(info["names"]["charge"])
        buf = v[1] if isinstance(v, tuple) else v
        for e in U.iter_events(s):
            if e.name == "store" and e.recv is buf:
                n += 1
                U.discharge_valid(r, "iteration.store_inside_the_buffer#%d" % n, list(s.pc), tm.and_(tm.le(tm.num(0, "I"), e.args[0]), tm.lt(e.args[0], tm.num(cap, "I"))))
        if s.status in ("run", "cont"):
            nn += 1
            U.discharge_valid(r, "iteration.index_below_capacity_when_the_loop_goes_on#%d" % nn, list(s.pc), tm.lt(local(info, s, "j"), N))
    r.add("reach.stores_and_continuations", DISCHARGED if n and nn else UNDECIDED, "symex", 0, "%d/%d" % (n, nn), kind="vacuity")
    iv = initial_value_before(fn, UTIL, loops[k], "j")
    r.add("entry.index_starts_at_0", DISCHARGED if iv is not None and iv[0] == "=" and iv[1] in ("0",) else FAILED, "syntactic", 0, repr(iv), kind="establishment")
    r.assumptions += ["the backward scan behind the loop (j--) stops at the sign character it looks for (the charge text contains one), so the terminator index stays >= 0: not proved here",
                      "get_charge(charge, MAX_LENGTH, ..) is given the true capacity (C08.sites.* style fact, read from the call text)"]
    t = text_of(UTIL, fn)
    r.add("callee_is_told_the_true_capacity(get_charge(charge,MAX_LENGTH,..))", DISCHARGED if "get_charge(charge,MAX_LENGTH," in t else FAILED, "syntactic", 0, "", kind="structural")
    return r
