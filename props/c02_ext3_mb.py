"""C02 / C20 / C01, third batch: prep.cpp mb_for_species_aq / _ex / _surf - WHICH balances a species enters, under which condition, and with
WHICH amount (the element coefficients are C02.mb_for_species.element_coefficient..., the H / O / charge coefficients C02.mb_for_species.same_H_O...).

What the properties need (C02: the conserved sums carried by the solver cover solution + sorbed + diffuse-layer amounts exactly once; C20: surface
charge plus the ion excess of an explicit diffuse layer is balanced per surface):

* an aqueous species (type AQ or HPLUS - the species the diffuse-layer code places in a layer: molalities(), sum_diffuse_layer, calc_all_donnan test
  `type <= HPLUS`) enters charge balance / alkalinity / water activity / ionic strength with its FREE-solution moles only; water enters none of
  them, e- enters nothing at all;
* total H, total O and every element mole balance take, for reaction steps with an explicit layer, the amount summed over solution AND layers
  (tot_g_moles); otherwise the species' moles;
* with an explicit layer every aqueous species adds  z * (moles held by the layer of record R)  to the (surface + layer) charge balance of the
  potential unknown of the SAME record R: the SURFACE_CB unknown itself (DDL / CCM), its plane-2 row x[i+2] for CD-MUSIC;
* a surface species puts its charge into the surface's potential balance (z; CD-MUSIC: dz[0], dz[1], dz[2] into planes 0, 1, 2) and into the solution
  charge balance only when there is NO explicit layer (with a layer, surface + layer are neutral together);
* exchange / surface species are summed into element balances during reaction steps, into their own EXCH / SURFACE balance always; an exchange
  master species (the bare site) enters nothing."""
from props.c20_ext_util import *
from props.c16_ext import norm_key

PREP = "src/phreeqcpp/prep.cpp"
Q0 = "Phreeqc::mb_for_species_"
FUN = {"Get_surface_ptr", "Find_charge", "Get_name", "Get_type"}


def _ctx():
    c = ctx(functional=FUN)
    surface_enums(c)
    return c


def _enum(name):
    ev = A.enum_values_compiled("Phreeqc.h", [name])
    return tm.num(list(ev.values())[0], "I")


def run_marked(rel, q, c):
    """whole function, every loop replaced by its frame (havoc) and an event `loop#k` that says the loop was reached on the path"""
    fn = A.find_function(rel, q)
    entries = {}
    def loop(ex, st, node, o):
        entries.setdefault(o, []).append(st.clone())
        st.events.append(SX.Event("loop#%d" % o, None, [], tm.num(0, "I"), node))
        return ex.havoc_loop(node, st)
    c.loop = loop
    ex = SX.Exec(c)
    fin = ex.run(fn, SX.State())
    return fn, ex, fin, entries


def _sp(ex, s, fn):
    p0 = A.params_of(fn)[0]["name"]
    return vec_elem(ex, s, "s", tm.sym("P0_" + p0, "I"))


def _stores(evs):
    return [e for e in evs if e.name.split("::")[-1] == "store_mb_unknowns"]


class Tally(object):
    """one obligation per distinct (name) unless it fails: a few hundred paths repeat the same few facts"""
    def __init__(self, r):
        self.r, self.seen, self.n = r, set(), {}
    def put(self, name, ok, detail=""):
        self.n[name] = self.n.get(name, 0) + 1
        if ok and name in self.seen:
            return ok
        if not ok and self.n.get("!" + name, 0) >= 3:
            return ok
        if not ok:
            self.n["!" + name] = self.n.get("!" + name, 0) + 1
        self.seen.add(name)
        self.r.add(name if ok else "%s#%d" % (name, self.n[name]), DISCHARGED if ok else FAILED, "symex+z3", 0, detail[:300] if isinstance(detail, str) else repr(detail)[:300])
        return ok


class PathSolver(object):
    """the path condition loaded once into one z3 solver; every question about the path is a push / check / pop on it (the generic helpers
    build a new solver and convert the whole path condition for every question: too slow for a few hundred paths x a dozen questions).
    Used as `with PathSolver(pc) as P:` - z3's default context is not thread-safe, so the back ends' lock is held from the creation of the
    solver to its destruction (both inside the with block)."""
    def __init__(self, hyps):
        self.hyps = list(hyps)

    def __enter__(self):
        import z3
        B._Z3LOCK.acquire()
        try:
            self.cv = B.Z3Conv()
            self.s = z3.Solver()
            self.s.set("timeout", B.Z3_TIMEOUT_MS)
            self.s.set("random_seed", U.TIER["seed"])
            for h in self.hyps:
                self.s.add(self.cv.conv(h))
        except BaseException:
            self.s = self.cv = None
            B._Z3LOCK.release()
            raise
        return self

    def __exit__(self, *exc):
        self.s = None
        self.cv = None
        B._Z3LOCK.release()
        return False

    def possible(self, cond):
        """can the path be in the case `cond`?  (unknown counts as possible: the specification is then demanded there)"""
        import z3
        self.s.push()
        try:
            self.s.add(self.cv.conv(cond))
            return self.s.check() != z3.unsat
        finally:
            self.s.pop()

    def proves(self, goal):
        return not self.possible(tm.not_(goal))


def _amount(e, sp, which):
    """is the amount the entry sums the species' own `moles` (which='free') or `tot_g_moles` (which='total')?  (the derivative handed over with it only
    feeds the Jacobian, which no property constrains: not demanded)"""
    a = "moles" if which == "free" else "tot_g_moles"
    return e.args[1] is tm.app("fld:" + a, (sp,), "P")


# ------------------------------------------------------------------------------------------------ aqueous species: scalar balances
def unit_aq_scalar_balances(twin=False):
    q = Q0 + "aq"
    fn, ex, fin, entries = run_marked(PREP, q, _ctx())
    r = U.new_unit("C02.mb_for_species_aq.balances_entered_and_amount_summed(free_moles_vs_moles_incl_diffuse_layers)", PREP, q, fn)
    T = Tally(r)
    HPLUS, EMINUS, NO_DL, REACTION = KI("HPLUS"), KI("EMINUS"), _enum("cxxSurface::NO_DL"), _enum("REACTION")
    seen = set()
    for s in fin:
        if s.status != "ret":
            continue
        with PathSolver(s.pc) as P:
            if not P.possible(tm.TRUE):
                continue
            sp = _sp(ex, s, fn)
            ty = fld0(ex, s, "type", "I", sp)
            st = _stores(s.events)
            M = lambda nm: fld0(ex, s, nm, "P")
            # e- enters nothing, not even the loops
            em = tm.eq(ty, EMINUS)
            if P.possible(em):
                seen.add("e-")
                T.put("electron.enters_no_balance", not [e for e in s.events if e.name.startswith("loop#") or e in st], repr([e.name for e in s.events])[:200])
            ne = tm.not_(em)
            if not P.possible(ne):
                continue
            aq = tm.le(ty, HPLUS) if not twin else tm.le(ty, KI("H2O"))
            layer = tm.and_(tm.not_(tm.eq(fld0(ex, s, "dl_type_x", "I"), NO_DL)), tm.le(REACTION, fld0(ex, s, "state", "I")))
            used = []
            for member, label in (("charge_balance_unknown", "charge_balance"), ("alkalinity_unknown", "alkalinity"), ("ah2o_unknown", "water_activity"), ("mu_unknown", "ionic_strength")):
                ent = [e for e in st if e.args[0] is M(member)]
                used += ent
                on = tm.and_(tm.not_(tm.eq(M(member), tm.NULL)), aq)
                if P.possible(tm.and_(ne, on)):
                    seen.add(label)
                    T.put("%s.aqueous_species(AQ,H+)_entered_once_with_its_free_moles" % label, len(ent) == 1 and _amount(ent[0], sp, "free"), repr([e.args for e in ent]))
                if P.possible(tm.and_(ne, tm.not_(on))):
                    seen.add(label + ".off")
                    T.put("%s.water_and_absent_unknown:no_entry" % label, not ent, repr([e.args for e in ent]))
            for member, label in (("mass_hydrogen_unknown", "total_H"), ("mass_oxygen_unknown", "total_O")):
                ent = [e for e in st if e.args[0] is M(member)]
                used += ent
                on = tm.not_(tm.eq(M(member), tm.NULL))
                if P.possible(tm.and_(ne, tm.not_(on))):
                    T.put("%s.absent_unknown:no_entry" % label, not ent, repr([e.args for e in ent]))
                if P.possible(tm.and_(ne, on, layer)):
                    seen.add(label + ".layer")
                    T.put("%s.reaction_step_with_explicit_layer:amount_summed_over_solution_and_layers(tot_g_moles)" % label, len(ent) == 1 and _amount(ent[0], sp, "total"), repr([e.args for e in ent]))
                if P.possible(tm.and_(ne, on, tm.not_(layer))):
                    seen.add(label + ".free")
                    T.put("%s.otherwise:the_species'_moles" % label, len(ent) == 1 and _amount(ent[0], sp, "free"), repr([e.args for e in ent]))
            rest = [e for e in st if e not in used]
            T.put("frame.no_other_entry_outside_the_layer_and_element_loops", not rest, repr([e.args for e in rest]))
    want = {"e-", "charge_balance", "alkalinity", "water_activity", "ionic_strength", "charge_balance.off", "total_H.layer", "total_H.free", "total_O.layer", "total_O.free"}
    r.add("reach.cases", DISCHARGED if want <= seen else UNDECIDED, "symex", 0, "missing %r" % sorted(want - seen), kind="vacuity")
    # element loop: the amount summed
    k = _element_loop(fn)
    f2, ex2, its, info = U.run_loop_isolated(PREP, q, k, ctx=_ctx())
    seen2 = set()
    for s in live(its, ("run", "cont")):
        st = _stores(U.iter_events(s))
        sp = vec_elem(ex2, s, "s", local(info, s, A.params_of(fn)[0]["name"]))
        layer = tm.and_(tm.not_(tm.eq(fld0(ex2, s, "dl_type_x", "I"), NO_DL)), tm.le(REACTION, fld0(ex2, s, "state", "I")))
        for e in st:
            for h, lay in cases(list(s.pc), layer):
                seen2.add(lay)
                T.put("element.%s" % ("reaction_step_with_explicit_layer:amount_summed_over_solution_and_layers(tot_g_moles)" if lay else "otherwise:the_species'_moles"), _amount(e, sp, "total" if lay else "free"), repr(e.args))
        T.put("element.at_most_one_entry_per_element", len(st) <= 1, "%d" % len(st))
    r.add("reach.element_loop", DISCHARGED if seen2 == {True, False} else UNDECIDED, "symex", 0, repr(seen2), kind="vacuity")
    early = live(its, ("brk", "ret", "throw"))
    r.add("element.no_element_left_out_by_leaving_the_loop", DISCHARGED if not early else FAILED, "symex", 0, "%d" % len(early))
    r.assumptions += ["store_mb_unknowns(unknown, &amount, coef, &derivative) books coef*amount into the unknown's sum (its body, build_mb_sums and the zero-coefficient shortcut are not under this contract)",
                      "tot_g_moles = moles + sum over layers of g_moles (molalities(); unit C20.molalities.moles_held_by_each_diffuse_layer)", "entries are attributed to a balance by the member the unknown pointer is read from",
                      "which elements are skipped in the element loop: unit C02.mb_for_species.elements_entered...", "coefficients: units C02.mb_for_species.same_H_O_charge... / element_coefficient..."]
    return r


def _element_loop(fn):
    ks = [k for k, lp in enumerate(loops_of(fn)) if "elt_list[" in text_of(PREP, lp["inner"][-1]) and "store_mb_unknowns(" in text_of(PREP, lp["inner"][-1])]
    if len(ks) != 1:
        raise Undecided("element loop of %s not found" % fn.get("name"))
    return ks[0]


# ------------------------------------------------------------------------------------------------ aqueous species: charge of the diffuse layers
def unit_aq_layer_charge(twin=False):
    q = Q0 + "aq"
    fn, ex, fin, entries = run_marked(PREP, q, _ctx())
    r = U.new_unit("C02.mb_for_species_aq.diffuse_layer_charge_enters_the_surface+layer_balance_of_its_own_record", PREP, q, fn)
    T = Tally(r)
    lps = loops_of(fn)
    ks = [k for k, lp in enumerate(lps) if "store_mb_unknowns(" in text_of(PREP, lp["inner"][-1]) and "elt_list[" not in text_of(PREP, lp["inner"][-1])]
    if len(ks) != 1:
        raise Undecided("mb_for_species_aq: the loop over the potential unknowns was not found (%r)" % ks)
    k = ks[0]
    HPLUS, NO_DL, CD = KI("HPLUS"), _enum("cxxSurface::NO_DL"), _enum("cxxSurface::CD_MUSIC")
    SCB = KI("SURFACE_CB")
    surf = tm.app("call:Get_surface_ptr", (tm.app("fld:use", (THIS,), "P"),), "P")
    # (1) the loop is reached exactly for aqueous species of a model with a surface and an explicit layer
    seen = set()
    for s in live(fin, ("ret",)):
        sp = _sp(ex, s, fn)
        ty = fld0(ex, s, "type", "I", sp)
        want = tm.and_(tm.not_(tm.eq(surf, tm.NULL)), tm.le(ty, HPLUS) if not twin else tm.lt(ty, HPLUS), tm.not_(tm.eq(fld0(ex, s, "dl_type_x", "I"), NO_DL)))
        reached = any(e.name == "loop#%d" % k for e in s.events)
        for h, on in cases(list(s.pc), want):
            seen.add(on)
            if on:
                T.put("layer_charge.every_aqueous_species(AQ,H+)_of_a_model_with_explicit_layer_is_entered", reached, "path %r" % (h[-3:],))
            else:
                T.put("layer_charge.no_entry_for_water_e-_or_without_surface_or_layer", not reached, "path %r" % (h[-3:],))
    r.add("reach.both_sides_of_the_guard", DISCHARGED if seen == {True, False} else UNDECIDED, "symex", 0, repr(seen), kind="vacuity")
    # (2) one potential unknown
    f2, ex2, its, info = U.run_loop_isolated(PREP, q, k, ctx=_ctx())
    ind = induction_name(lps[k])
    nname = A.params_of(fn)[0]["name"]
    seen = set()
    for s in live(its, ("run", "cont")):
        i = tm.sym("iter_" + ind, "I")
        xi = x_elem(ex2, s, i)
        n = local(info, s, nname)
        sp = vec_elem(ex2, s, "s", n)
        st = _stores(U.iter_events(s))
        for h, cb in cases(list(s.pc), tm.eq(fld0(ex2, s, "type", "I", xi), SCB)):
            if not cb:
                seen.add("other")
                T.put("unknown_of_another_kind:no_entry", not st, repr([e.args for e in st])); continue
            if not T.put("potential_unknown:one_entry", len(st) == 1, "%d" % len(st)):
                continue
            e = st[0]
            fc = ev_named(s, "Find_charge")
            okr = len(fc) >= 1 and all(fld0(ex2, s, "surface_charge", "P", xi) in tm.subterms(a) for c_ in fc for a in c_.args) and len({c_.result for c_ in fc}) == 1 and all(c_.recv is surf for c_ in fc)
            if not T.put("potential_unknown:charge_record==Find_charge(x[i]->surface_charge)_of_the_surface_in_use", okr, repr([c_.args for c_ in fc])):
                continue
            ch = fc[0].result
            mobj = tm.select(entry_arr(ex2, s, ("f", "#vdata", "P")), tm.app("fld:s_diff_layer", (THIS,), "P")) + n
            ga = [g for g in ev_named(s, "Get_g_moles_address") if g.result is e.args[1]]
            def own(g):
                names = [t for t in tm.subterms(g.recv) if t.op == "app" and t.args[0] == "call:Get_name"]
                return mobj in tm.subterms(g.recv) and len(names) >= 1 and all(t.args[1] is ch for t in names)
            T.put("potential_unknown:amount_is_the_moles_of_THIS_species_held_by_the_layer_of_THAT_record(s_diff_layer[n][name].g_moles)", len(ga) == 1 and own(ga[0]), repr(e.args[1]) + " " + repr(ga)[:200])
            z = fld0(ex2, s, "z", "R", sp)
            T.put("potential_unknown:coefficient==charge_z_of_the_species", same_real_(e.args[2], z if not twin else z * z), repr(e.args[2]))
            for h2, cd in cases(h, tm.eq(tm.app("call:Get_type", (surf,), "I"), CD)):
                seen.add("cd" if cd else "ddl")
                want = x_elem(ex2, s, tm.add(i, tm.num(2, "I"))) if cd else xi
                ok = e.args[0] is want or proved(h2, tm.eq(e.args[0], want))
                T.put("potential_unknown:%s" % ("CD-MUSIC:balance_of_plane_2(x[i+2])" if cd else "DDL/CCM:balance_of_the_potential_unknown_itself"), ok, repr(e.args[0]))
    r.add("reach.unknown_kinds", DISCHARGED if seen == {"other", "cd", "ddl"} else UNDECIDED, "symex", 0, repr(sorted(seen)), kind="vacuity")
    early = live(its, ("brk", "ret", "throw"))
    r.add("potential_unknowns.none_left_out_by_leaving_the_loop", DISCHARGED if not early else FAILED, "symex", 0, "%d" % len(early))
    check_loop_range(r, "potential_unknowns", ex2, None, info, its, ind, tm.num(0, "I"), lambda v: tm.lt(v, fld0(ex2, its[0], "count_unknowns", "I")) if its else tm.TRUE)
    r.assumptions += ["the species placed in a layer are those with type <= HPLUS (molalities, sum_diffuse_layer, calc_all_donnan: units C20.molalities..., C20.diffuse_layer.composition..., C20.calc_all_donnan...)",
                      "the CD-MUSIC rows of one record are consecutive unknowns SURFACE_CB, SURFACE_CB1, SURFACE_CB2 (setup_surface: unit C20.setup_surface.site_and_charge_unknowns_per_model)",
                      "std::map<std::string, cxxSpeciesDL>::operator[] designates the entry of that name; cxxSpeciesDL::Get_g_moles_address / Get_dg_g_moles_address return the addresses of g_moles / dg_g_moles",
                      "store_mb_unknowns books coef*amount into the unknown's sum (not under this contract)"]
    return r


def same_real_(a, b):
    try:
        return a is b or B.sympy_equal(a, b)[0]
    except ValueError:
        return False


def proved(hy, goal):
    return B.z3_prove(list(hy), goal)[0] == "proved"


# ------------------------------------------------------------------------------------------------ which elements are entered (aq / ex / surf)
def unit_elements_entered(twin=False):
    fn0 = A.find_function(PREP, Q0 + "aq")
    r = U.new_unit("C02.mb_for_species.elements_entered_into_their_mole_balance(reaction_steps:all;initial:own_sites_only)", PREP, Q0 + "aq/ex/surf", fn0)
    T = Tally(r)
    AQ, HPLUS, SOLID, EX, SURF = KI("AQ"), KI("HPLUS"), KI("SOLID"), KI("EX"), KI("SURF")
    PSI = [KI("SURF_PSI"), KI("SURF_PSI1"), KI("SURF_PSI2")]
    SPB = KI("SOLUTION_PHASE_BOUNDARY")
    REACTION = _enum("REACTION")
    for kind in ("aq", "ex", "surf"):
        q = Q0 + kind
        fn = A.find_function(PREP, q)
        k = _element_loop(fn)
        ind = induction_name(loops_of(fn)[k])
        f, ex, its, info = U.run_loop_isolated(PREP, q, k, ctx=_ctx())
        seen = set()
        for s in live(its, ("run", "cont")):
            st = _stores(U.iter_events(s))
            ent = tm.select(entry_arr(ex, s, ("f", "#vdata", "P")), tm.app("fld:elt_list", (THIS,), "P")) + tm.sym("iter_" + ind, "I")
            m0 = fld0(ex, s, "master", "P", fld0(ex, s, "elt", "P", ent))
            s0 = fld0(ex, s, "s", "P", m0)
            t0 = fld0(ex, s, "type", "I", s0)
            sec = fld0(ex, s, "secondary", "P", s0)
            TRUE_ = tm.num(int(K("TRUE")), "I")
            m = tm.ite(tm.and_(tm.eq(fld0(ex, s, "primary", "I", m0), TRUE_), tm.not_(tm.eq(sec, tm.NULL))), sec, m0)
            un = fld0(ex, s, "unknown", "P", m)
            mt = fld0(ex, s, "type", "I", fld0(ex, s, "s", "P", m))
            M = lambda nm: fld0(ex, s, nm, "P")
            hoe = tm.and_(tm.lt(AQ, t0), tm.lt(t0, SOLID))           # H+, H2O, e-: carried by the H / O / charge sums
            if twin and kind == "ex":
                hoe = tm.and_(tm.lt(AQ, t0), tm.lt(t0, KI("H2O")))
            special = [tm.eq(un, M("ph_unknown")), tm.eq(un, M("pe_unknown")), tm.eq(un, M("alkalinity_unknown"))]
            step = tm.le(REACTION, fld0(ex, s, "state", "I"))
            if kind == "aq":
                skip = tm.or_(hoe, tm.eq(un, M("charge_balance_unknown")), tm.eq(un, tm.NULL), tm.eq(fld0(ex, s, "type", "I", un), SPB), *special)
                cls = lambda dec: "skipped" if dec(skip) else "entered"
            elif kind == "ex":
                cls = lambda dec: "skipped" if dec(hoe) or dec(tm.or_(*special)) or not dec(tm.or_(step, tm.eq(mt, EX))) else "entered"
            else:
                def cls(dec):
                    if dec(hoe): return "skipped"
                    if dec(tm.or_(*[tm.eq(mt, p) for p in PSI])): return "potential"
                    return "skipped" if dec(tm.or_(*special)) or not dec(tm.or_(step, tm.eq(mt, SURF))) else "entered"
            def body(dec, hyps, s=s, st=st, cls=cls, un=un, kind=kind):
                c_ = cls(dec)
                seen.add(c_)
                if c_ == "skipped":
                    T.put("%s.element_not_a_mole_balance_of_this_calculation:no_entry" % kind, not st, repr([e.args for e in st]))
                elif c_ == "entered":
                    ok = len(st) == 1 and (st[0].args[0] is un or proved(hyps, tm.eq(st[0].args[0], un)))
                    T.put("%s.element_entered_once_into_the_balance_of_its_master(secondary_when_the_primary_has_one)" % kind, ok, repr([e.args[0] for e in st]))
            from props.c16_ext import case_split
            case_split(list(s.pc), body)
        need = {"skipped", "entered"} | ({"potential"} if kind == "surf" else set())
        r.add("reach.%s" % kind, DISCHARGED if need <= seen else UNDECIDED, "symex", 0, repr(sorted(seen)), kind="vacuity")
        early = live(its, ("brk", "ret", "throw"))
        r.add("%s.no_element_left_out_by_leaving_the_loop" % kind, DISCHARGED if not early else FAILED, "symex", 0, "%d" % len(early))
        if its:
            check_loop_range(r, kind + ".elements", ex, None, info, its, ind, tm.num(0, "I"), lambda v, ex=ex, s=its[0]: tm.lt(v, fld0(ex, s, "count_elts", "I")))
    r.assumptions += ["elt_list holds the species' composition in master species, potential terms included (build_model; units C01/C20.build_model.*)",
                      "H+, H2O and e- are carried by the total-H / total-O / charge sums; the pH, pe, alkalinity unknowns (and for aqueous species the charge-balance unknown, an absent unknown, a phase-boundary unknown) are not mole balances",
                      "initial exchange / surface calculations (state < REACTION) keep the solution fixed: sorbed species are summed only into their own EXCH / SURFACE balance",
                      "an exchange / surface element whose master has no unknown at all is not specified here", "entry coefficient and amount: units C02.mb_for_species.element_coefficient..., C02.mb_for_species_aq.balances_entered..."]
    return r


# ------------------------------------------------------------------------------------------------ exchange and surface species: scalar balances, plane charges
def unit_ex_surf_balances(twin=False):
    fn0 = A.find_function(PREP, Q0 + "surf")
    r = U.new_unit("C02.mb_for_species_ex_surf.sorbed_charge_H_O_entered_with_own_moles_and_plane_charges_into_the_potential_balances", PREP, Q0 + "ex/surf", fn0)
    T = Tally(r)
    EX, NO_DL, CD = KI("EX"), _enum("cxxSurface::NO_DL"), _enum("cxxSurface::CD_MUSIC")
    surf = tm.app("call:Get_surface_ptr", (tm.app("fld:use", (THIS,), "P"),), "P")
    seen = set()
    for kind in ("ex", "surf"):
        q = Q0 + kind
        fn, ex, fin, entries = run_marked(PREP, q, _ctx())
        k = _element_loop(fn)
        for s in live(fin, ("ret",)):
            sp = _sp(ex, s, fn)
            st = _stores(s.events)
            hy = list(s.pc)
            M = lambda nm: fld0(ex, s, nm, "P")
            reached = any(e.name == "loop#%d" % k for e in s.events)
            if kind == "ex":
                bare = tm.and_(tm.eq(fld0(ex, s, "type", "I", sp), EX), tm.not_(tm.eq(fld0(ex, s, "primary", "P", sp), tm.NULL)))
                done = False
                for h, b in cases(hy, bare):
                    if b:
                        seen.add("ex.master")
                        T.put("ex.exchange_master_species(bare_site)_enters_no_balance", not st and not reached, repr([e.args for e in st])); done = proved(hy, bare)
                if done:
                    continue
                hy = hy + [tm.not_(bare)]
            T.put("%s.element_balances_follow" % kind, reached, "element loop not reached")
            used = []
            for member, label in (("charge_balance_unknown", "charge_balance"), ("mass_hydrogen_unknown", "total_H"), ("mass_oxygen_unknown", "total_O")):
                ent = [e for e in st if e.args[0] is M(member)]
                used += ent
                on_c = tm.not_(tm.eq(M(member), tm.NULL))
                if kind == "surf" and label == "charge_balance":
                    # with an explicit layer the surface and its layer are neutral together: neither enters the solution charge balance
                    nodl = tm.eq(fld0(ex, s, "dl_type_x", "I"), NO_DL)
                    on_c = tm.and_(on_c, nodl if not twin else tm.not_(nodl))
                for h, on in cases(hy, on_c):
                    if on:
                        seen.add("%s.%s" % (kind, label))
                        T.put("%s.%s:entered_once_with_the_species'_own_moles" % (kind, label), len(ent) == 1 and _amount(ent[0], sp, "free"), repr([e.args for e in ent]))
                    else:
                        seen.add("%s.%s.off" % (kind, label))
                        T.put("%s.%s:%s" % (kind, label, "no_entry_with_explicit_layer_or_absent_unknown" if kind == "surf" and label == "charge_balance" else "absent_unknown:no_entry"), not ent, repr([e.args for e in ent]))
            rest = [e for e in st if e not in used]
            T.put("%s.frame.no_other_entry_outside_the_element_loop" % kind, not rest, repr([e.args for e in rest]))
    # plane charges of a surface species
    q = Q0 + "surf"
    fn = A.find_function(PREP, q)
    k = _element_loop(fn)
    ind = induction_name(loops_of(fn)[k])
    f, ex, its, info = U.run_loop_isolated(PREP, q, k, ctx=_ctx())
    PSI = [KI("SURF_PSI"), KI("SURF_PSI1"), KI("SURF_PSI2")]
    TRUE_ = tm.num(int(K("TRUE")), "I")
    for s in live(its, ("run", "cont")):
        st = _stores(U.iter_events(s))
        sp = vec_elem(ex, s, "s", local(info, s, A.params_of(fn)[0]["name"]))
        ent = tm.select(entry_arr(ex, s, ("f", "#vdata", "P")), tm.app("fld:elt_list", (THIS,), "P")) + tm.sym("iter_" + ind, "I")
        m0 = fld0(ex, s, "master", "P", fld0(ex, s, "elt", "P", ent))
        s0 = fld0(ex, s, "s", "P", m0)
        sec = fld0(ex, s, "secondary", "P", s0)
        m = tm.ite(tm.and_(tm.eq(fld0(ex, s, "primary", "I", m0), TRUE_), tm.not_(tm.eq(sec, tm.NULL))), sec, m0)
        mt = fld0(ex, s, "type", "I", fld0(ex, s, "s", "P", m))
        un = fld0(ex, s, "unknown", "P", m)
        t0 = fld0(ex, s, "type", "I", s0)
        if not sat(list(s.pc) + [tm.or_(*[tm.eq(mt, p) for p in PSI])]) or proved(list(s.pc), tm.and_(tm.lt(KI("AQ"), t0), tm.lt(t0, KI("SOLID")))):
            continue
        dz = lambda j: tm.select(entry_arr(ex, s, ("m", "R")), tm.app("fld:dz", (sp,), "P"), tm.num(j, "I"))
        z = fld0(ex, s, "z", "R", sp)
        cdm = tm.eq(tm.app("call:Get_type", (surf,), "I"), CD)
        for plane in (0, 1, 2):
            for h, on in cases(list(s.pc), tm.eq(mt, PSI[plane])):
                if not on:
                    continue
                if plane == 0:
                    sub = cases(h, cdm)
                else:
                    sub = [(h, True)]
                for h2, cd in sub:
                    want = dz(plane) if cd else z
                    if twin and plane == 1:
                        want = dz(2)
                    tag = "plane%d(%s)" % (plane, ("CD-MUSIC:dz[%d]" % plane) if cd else "DDL/CCM:z")
                    seen.add(tag)
                    ok = len(st) == 1 and (st[0].args[0] is un or proved(h2, tm.eq(st[0].args[0], un))) and _amount(st[0], sp, "free")
                    T.put("surf.%s.entered_once_into_that_potential's_balance_with_the_species'_own_moles" % tag, ok, repr([e.args for e in st]))
                    if len(st) == 1:
                        T.put("surf.%s.coefficient_is_the_charge_placed_in_that_plane" % tag, same_real_(st[0].args[2], want) or proved(h2, tm.eq(st[0].args[2], want)), repr(st[0].args[2]))
    want = {"ex.master", "ex.charge_balance", "ex.total_H", "ex.total_O", "surf.charge_balance", "surf.charge_balance.off", "surf.total_H", "surf.total_O",
            "plane0(DDL/CCM:z)", "plane0(CD-MUSIC:dz[0])", "plane1(CD-MUSIC:dz[1])", "plane2(CD-MUSIC:dz[2])"}
    r.add("reach.cases", DISCHARGED if want <= seen else UNDECIDED, "symex", 0, "missing %r" % sorted(want - seen), kind="vacuity")
    r.assumptions += ["store_mb_unknowns books coef*amount into the unknown's sum (not under this contract)", "SURF_PSI1 / SURF_PSI2 master species exist only for CD-MUSIC surfaces (setup_surface)",
                      "the potential unknown's f of a DDL / CCM surface is the full charge of its species (residual rows C20.residuals.DDL_/CCM_*); CD-MUSIC planes get the charge distribution dz[0..2] of the species (read_surface_species unit)",
                      "sorbed species are not placed in a diffuse layer: they are summed with their own moles"]
    return r


UNITS = [
    ("C02.mb_for_species_aq.balances_entered_and_amount_summed(free_moles_vs_moles_incl_diffuse_layers)", unit_aq_scalar_balances),
    ("C02.mb_for_species_aq.diffuse_layer_charge_enters_the_surface+layer_balance_of_its_own_record", unit_aq_layer_charge),
    ("C02.mb_for_species.elements_entered_into_their_mole_balance(reaction_steps:all;initial:own_sites_only)", unit_elements_entered),
    ("C02.mb_for_species_ex_surf.sorbed_charge_H_O_entered_with_own_moles_and_plane_charges_into_the_potential_balances", unit_ex_surf_balances),
]
