"""C18 (second extension, isotopes): set_isotope_unknowns and check_isotopes of inverse.cpp.

The isotope mole balance (unit C18.isotope_balance_equation...) has one adjustable ratio per solution and isotope unknown, bounded by
x_ratio_uncertainty (unit C18.setup_inverse.solution_isotope_rows...).  These two functions decide WHICH unknowns exist and WHICH
uncertainty bounds each of them."""
from props.common import *
from vf.core import FAILED, DISCHARGED, UNDECIDED
from props.c18_ext import (INV, I0, I1, mkctx, all_loops, ordinal, nested, head, same, F, spec_cases, at, vdata, vsize, vdata0, vsize0)
from props.c18_ext2_search import proves, short, start_value


def pref(ents, s):
    c = [e for e in ents if len(e.pc) <= len(s.pc) and all(a is b for a, b in zip(e.pc, s.pc[:len(e.pc)]))]
    return max(c, key=lambda e: len(e.pc)) if c else None


# ------------------------------------------------------------------------------------------------ set_isotope_unknowns
def unit_isotope_unknowns(twin=False):
    """For every isotope named under -isotopes: the element must be a primary master species (else input error, no unknowns);
       an element without valence states gets ONE unknown (master = the element itself); a redox element gets one unknown per valence state:
       the master species that follow it in the master list, starting right behind it and at least as far as they belong to the element.
       Every unknown carries the isotope number of the declaration and the name of its master species' element entry."""
    q = "Phreeqc::set_isotope_unknowns"
    fn = A.find_function(INV, q)
    r = U.new_unit("C18.set_isotope_unknowns.one_unknown_per_element_or_per_valence_state", INV, q, fn)
    L = all_loops(fn)
    if len(L) != 3:
        raise Undecided("set_isotope_unknowns has %d loops, contract written for 3" % len(L))
    c = stop_on_error_msg(mkctx(functional=("master_bsearch",)))
    f, ex, its, info = U.run_loop_isolated(INV, q, 0, ctx=c, inner_modes={1: "iter", 2: "iter"})
    i = tm.sym("iter_i", "I")
    ISO = None
    seen = set()
    FIELDS = (("primary", "P"), ("master", "P"), ("isotope_number", "R"), ("elt_name", "P"))

    def appended(s, cnt0, prim, mast, num):
        """the record written at index cnt0 of the unknown list"""
        res = {}
        for fld_, so in FIELDS:
            for ix, v in writes(s, ("f", fld_, so)):
                res.setdefault(fld_, []).append((ix[0] if isinstance(ix, tuple) else ix, v))
        return res

    for s in live(its, ("run", "cont", "brk")):
        hy = list(s.pc)
        inv = local(info, s, "inv_ptr")
        dec = at(vdata0(ex, s, "isotopes", inv), i)
        lk = [e for e in U.iter_events(s) if short(e) == "master_bsearch"]
        if len(lk) != 1 or lk[0].args[0] is not fld0(ex, s, "elt_name", "P", dec):
            r.add("declaration.element_looked_up_by_its_name", FAILED, "trace", 0, repr([e.args for e in lk])[:200]); continue
        pp = lk[0].result
        num = fld0(ex, s, "isotope_number", "R", dec)
        cnt0 = tm.sym("iter_count_isotopes", "I")
        conds = [("unknown", tm.eq(pp, tm.NULL)), ("secondary", tm.not_(tm.eq(fld0(ex, s, "primary", "I", pp), I1))), ("redox", tm.not_(tm.eq(fld0(ex, s, "secondary", "P", fld0(ex, s, "s", "P", pp)), tm.NULL)))]
        rs = [e for e in U.iter_events(s) if e.name == "vector.resize"]
        through = pref([e for k_ in (1, 2) for e in info["inner_entries"].get(k_, [])], s)
        for case, h in spec_cases(hy, conds):
            if case["unknown"] or case["secondary"]:
                seen.add("rejected")
                r.add("declaration.%s_is_an_input_error_and_adds_no_unknown" % ("unknown_element" if case["unknown"] else "valence_state"),
                      DISCHARGED if not rs and through is None and writes(s, ("f", "input_error", "I")) and s.status == "brk" else FAILED, "symex", 0, s.status)
            elif not case["redox"]:
                seen.add("plain")
                w = appended(s, cnt0, pp, pp, num)
                base = None
                ok = len(rs) == 1 and same(h, rs[0].args[1], cnt0 + I1)
                r.add("plain_element.one_unknown_appended", DISCHARGED if ok and through is None else FAILED, "trace", 0, repr([e.args for e in rs])[:200])
                if ok:
                    slot = at(tm.select(ex.heap_arr(s, ("f", "#vdata", "P")), rs[0].recv), cnt0)
                    want = {"primary": pp, "master": pp if not twin else tm.NULL, "isotope_number": num, "elt_name": F(ex, s, "name", "P", F(ex, s, "elt", "P", pp))}
                    for fld_, so in FIELDS:
                        ws = w.get(fld_, [])
                        okf = len(ws) == 1 and same(h, ws[0][0], slot) and (ws[0][1] is want[fld_] or same(h, ws[0][1], want[fld_]))
                        r.add("plain_element.%s_of_the_unknown" % fld_, DISCHARGED if okf else FAILED, "symex", 0, repr(ws)[:200])
                    U.discharge_valid(r, "plain_element.count+=1", h, tm.eq(local(info, s, "count_isotopes"), cnt0 + I1))
            else:
                seen.add("redox")
                r.add("redox_element.valence_states_scanned", DISCHARGED if through is not None and not rs or through is not None else FAILED, "symex", 0, "")
    r.add("reach.declarations", DISCHARGED if seen == {"rejected", "plain", "redox"} else UNDECIDED, "symex", 0, repr(sorted(seen)), kind="vacuity")
    # the two inner loops: find the element in the master list, then one unknown per following master species
    finds = live(info["inner_iters"].get(1, []), ("run", "cont", "brk"))
    for s in finds:
        kk = [t for t in tm.subterms(s.pc[-1]) if t.op == "sym" and str(t.args[0]) == "iter_k"]
        k = tm.sym("iter_k", "I")
        mk = tm.select(ex.heap_arr(s, ("m", "P")), vdata(ex, s, "master"), k)
        pp = local(info, s, "primary_ptr")
        for h, hit in cases(list(s.pc), tm.eq(mk, pp)):
            r.add("find.%s" % ("stops_at_the_element's_own_master_species" if hit else "passes_other_master_species"), DISCHARGED if (s.status == "brk") == hit else FAILED, "symex", 0, s.status)
    adds = live(info["inner_iters"].get(2, []), ("run", "cont", "brk"))
    ents2 = [e for e in info["inner_entries"].get(2, []) if B.z3_sat(list(e.pc)) != "unsat"]
    n = 0
    for s in adds:
        e = pref(ents2, s)
        if e is None:
            continue
        n += 1
        hy = list(s.pc)
        cond = s.pc[len(e.pc)]
        k = tm.sym("iter_k", "I")
        pp = local(info, s, "primary_ptr")
        mk = tm.select(ex.heap_arr(s, ("m", "P")), vdata(ex, s, "master"), k)
        same_elt = tm.eq(F(ex, s, "primary", "P", F(ex, s, "elt", "P", mk)), pp)
        inlist = tm.lt(k, vsize0(ex, s, "master"))
        okc = proves(list(e.pc) + [inlist, same_elt, tm.le(I0, k)], cond) and proves(list(e.pc) + [cond], inlist)
        r.add("valence_states.loop_covers_every_master_species_of_the_element_behind_it", DISCHARGED if okc else FAILED, "z3", 0, repr(cond)[:200])
        inv = local(info, s, "inv_ptr")
        cnt0 = tm.sym("iter_count_isotopes", "I")
        rs = [x for x in U.iter_events(s) if x.name == "vector.resize"]
        if s.status == "brk":
            r.add("valence_states.scan_may_stop_only_at_another_element", DISCHARGED if proves(hy, tm.not_(same_elt)) and not rs else FAILED, "symex", 0, ""); continue
        ok = len(rs) == 1 and same(hy, rs[0].args[1], cnt0 + I1)
        r.add("valence_state.one_unknown_appended", DISCHARGED if ok else FAILED, "trace", 0, repr([x.args for x in rs])[:200])
        if ok:
            slot = at(tm.select(ex.heap_arr(s, ("f", "#vdata", "P")), rs[0].recv), cnt0)
            num = local(info, s, "isotope_number")
            want = {"primary": pp, "master": mk, "isotope_number": num, "elt_name": F(ex, s, "name", "P", F(ex, s, "elt", "P", mk))}
            for fld_, so in FIELDS:
                ws = [(ix[0] if isinstance(ix, tuple) else ix, v) for ix, v in writes(s, ("f", fld_, so))]
                okf = len(ws) == 1 and same(hy, ws[0][0], slot) and (ws[0][1] is want[fld_] or same(hy, ws[0][1], want[fld_]))
                r.add("valence_state.%s_of_the_unknown" % fld_, DISCHARGED if okf else FAILED, "symex", 0, repr(ws)[:200])
            U.discharge_valid(r, "valence_state.count+=1", hy, tm.eq(local(info, s, "count_isotopes"), cnt0 + I1))
    r.add("reach.valence_states", DISCHARGED if n else UNDECIDED, "symex", 0, "%d" % n, kind="vacuity")
    # the scan starts right behind the element: k is advanced by one between the two loops
    for e in ents2:
        e1 = [x for x in info["inner_entries"].get(1, [])]
        kv = e.locals.get(info["names"]["k"])
        okk = kv is not None and not isinstance(kv, tuple) and kv.op == "+" and any(str(a.args[0]).startswith("havoc_k") for a in kv.args if a.op == "sym") and any(tm.isnum(a) and a.args[0] == 1 for a in kv.args)
        r.add("valence_states.scan_starts_right_behind_the_element(k+1)", DISCHARGED if okk else FAILED, "symex", 0, repr(kv)[:100])
        init2 = L[2]["inner"][0]
        r.add("valence_states.scan_does_not_restart(no_initialiser)", DISCHARGED if not init2.get("kind") else FAILED, "syntactic", 0, text_of(INV, init2) if init2.get("kind") else "", kind="structural")
    a = initial_value_before(fn, INV, L[0], "count_isotopes")
    r.add("count_starts_at_0", DISCHARGED if a is not None and a[0] == "=" and a[1] == "0" else FAILED, "syntactic", 0, repr(a), kind="establishment")
    oh = head(INV, L[0])
    r.add("every_declared_isotope_visited", DISCHARGED if oh[0] in ("i=0", "size_ti=0") and oh[1] == "i<inv_ptr->isotopes.size()" and oh[2] in ("i++", "++i") else FAILED, "syntactic", 0, repr(oh), kind="structural")
    r.assumptions += ["master_bsearch is functional; error_msg(..., CONTINUE) returns", "master species are sorted so that the valence states of an element follow it directly",
                      "the source appends an unknown for EVERY master species behind a redox element (no stop at the next element); the surplus unknowns have empty columns and are "
                      "dropped by shrink(): the contract demands coverage of the element's valence states, not exactness", "the outer loop header is compared as text"]
    return r


# ------------------------------------------------------------------------------------------------ check_isotopes: which uncertainty bounds a ratio
def unit_ratio_uncertainty(twin=False):
    """x_ratio_uncertainty of an isotope entry of solution q is reset to 'undefined' and then taken from, in this order:
       (1) the -isotopes line of the model: its value for solution q, (2) else the last value on that line, (3) else the uncertainty declared with
       the solution's isotope, (4) else the built-in default of the isotope; still undefined -> input error (no model is computed).
       The -isotopes line used is the one naming the entry's own master species, else the one naming its element; none -> the entry is not used."""
    q = "Phreeqc::check_isotopes"
    fn = A.find_function(INV, q)
    r = U.new_unit("C18.check_isotopes.ratio_uncertainty_from_the_declared_sources_in_order", INV, q, fn)
    L = all_loops(fn)
    kl = [lp for lp in L if "Set_x_ratio_uncertainty(" in text_of(INV, lp["inner"][-1]) and len(nested(lp)) == 2]
    if len(kl) != 1:
        raise Undecided("loop over the solution's isotope entries not found (%d)" % len(kl))
    il, dl = nested(kl[0])
    c = mkctx(functional=("master_bsearch", "master_bsearch_primary", "Get_elt_name", "c_str", "Get_ratio_uncertainty", "Get_isotope_number", "isnan", "strcmp"))
    f, ex, its, info = U.run_loop_isolated(INV, q, ordinal(fn, kl[0]), ctx=c, inner_modes={ordinal(fn, il): "iter", ordinal(fn, dl): "iter"})
    j = tm.sym("L_j", "I")
    isn = lambda x: tm.app("call:isnan", (tm.NULL, x), "B")
    seen = set()
    for s in live(its, ("run", "cont")):
        hy = list(s.pc)
        inv = local(info, s, "inv_ptr")
        evs = U.iter_events(s)
        sets = [e for e in evs if short(e) == "Set_x_ratio_uncertainty"]
        if not sets or "nan" not in repr(sets[0].args[0]).lower():
            r.add("entry.reset_to_undefined_first", FAILED, "trace", 0, repr([e.args for e in sets])[:200]); continue
        r.add("entry.reset_to_undefined_first", DISCHARGED, "trace", 0, "", kind="establishment")
        ent = sets[0].recv
        iiv = local(info, s, "ii")
        used = tm.not_(tm.eq(iiv, tm.num(-1, "I")))
        if len(sets) > 1 or any(short(e) == "isnan" for e in evs):
            U.discharge_valid(r, "entry.a_source_is_consulted_only_when_a_declaration_line_was_found", hy, used)
        if not any(short(e) == "isnan" for e in evs):
            seen.add("unused")
            U.discharge_valid(r, "unused_entry.only_when_no_declaration_names_it", hy, tm.eq(iiv, tm.num(-1, "I")))
            r.add("unused_entry.stays_undefined", DISCHARGED if len(sets) == 1 and s.status == "cont" else FAILED, "trace", 0, "")
            continue
        line = at(vdata0(ex, s, "i_u", inv), iiv)
        Uv = tm.select(entry_arr(ex, s, ("f", "#vdata", "P")), tm.app("fld:uncertainties", (line,), "P"))
        n_ = tm.select(entry_arr(ex, s, ("f", "#vsize", "I")), tm.app("fld:uncertainties", (line,), "P"))
        R0 = entry_arr(ex, s, ("m", "R"))
        own = tm.select(R0, Uv, j if not twin else I0); last = tm.select(R0, Uv, n_ - I1)
        sol = tm.app("call:Get_ratio_uncertainty", (ent,), "R")
        c1 = tm.and_(tm.lt(j, n_), tm.not_(isn(own)))
        c2 = tm.and_(tm.not_(c1), tm.lt(I0, n_), tm.not_(isn(last)))
        c3 = tm.and_(tm.not_(c1), tm.not_(c2), tm.not_(isn(sol)))
        src = None
        if len(sets) == 2:
            v = sets[1].args[0]
            if sets[1].recv is not ent:
                r.add("entry.value_stored_in_the_entry_examined", FAILED, "trace", 0, repr(sets[1].recv)[:100]); continue
            if v is own:
                src = "declared_for_this_solution"; U.discharge_valid(r, "source(1).declared_value_of_solution_q_when_present_and_defined", hy, c1 if not twin else tm.and_(tm.lt(j, n_), tm.not_(isn(tm.select(R0, Uv, j)))))
            elif v is last:
                src = "last_declared"; U.discharge_valid(r, "source(2).last_declared_value_only_when_(1)_is_missing", hy, c2)
            elif v is sol:
                src = "solution"; U.discharge_valid(r, "source(3).solution's_own_uncertainty_only_when_the_line_gives_none", hy, c3)
            else:
                r.add("entry.value_comes_from_one_of_the_declared_sources", FAILED, "trace", 0, repr(v)[:200]); continue
        elif len(sets) == 1:
            src = "default_table"
            U.discharge_valid(r, "source(4).built-in_default_only_when_nothing_was_declared", hy, tm.and_(tm.not_(c1), tm.not_(c2), tm.not_(c3)))
        else:
            r.add("entry.one_source_per_entry", FAILED, "trace", 0, "%d stores" % len(sets)); continue
        seen.add(src)
        # undefined at the end -> input error
        fin = [e for e in evs if short(e) == "isnan"][-1]
        err = [e for e in evs if short(e) == "error_msg"]
        gx = [e for e in evs if short(e) == "Get_x_ratio_uncertainty"]
        okfin = bool(gx) and fin.args[0] is gx[-1].result and gx[-1].recv is ent
        r.add("entry.final_value_checked", DISCHARGED if okfin else FAILED, "trace", 0, repr(fin.args)[:100])
        for h, undef in cases(hy, tm.to_bool(fin.result) if fin.result.sort != "B" else fin.result):
            has = bool(err) and bool(writes(s, ("f", "input_error", "I")))
            r.add("entry.still_undefined_%s" % ("is_an_input_error" if undef else "_no:no_error"), DISCHARGED if has == undef else FAILED, "symex", 0, "")
    r.add("reach.sources", DISCHARGED if {"unused", "declared_for_this_solution", "last_declared", "solution", "default_table"} <= seen else UNDECIDED, "symex", 0, repr(sorted(seen)), kind="vacuity")
    # which declaration line: exact master species wins (search stops), else the element's line
    i = tm.sym("iter_i", "I")
    seenl = set()
    for s in live(info["inner_iters"].get(ordinal(fn, il), []), ("run", "cont", "brk")):
        hy = list(s.pc)
        inv = local(info, s, "inv_ptr")
        lk = [e for e in U.iter_events(s) if short(e) == "master_bsearch"]
        if len(lk) != 1 or lk[0].args[0] is not F(ex, s, "elt_name", "P", at(vdata(ex, s, "i_u", inv), i)):
            r.add("line.looked_up_by_its_own_name", FAILED, "trace", 0, repr([e.args for e in lk])[:200]); continue
        m = lk[0].result
        mk, pk = local(info, s, "master_kit"), local(info, s, "primary_kit")
        ii0, ii1 = tm.sym("iter_ii", "I"), local(info, s, "ii")
        for case, h in spec_cases(hy, [("exact", tm.eq(m, mk)), ("element", tm.eq(m, pk))]):
            if case["exact"]:
                seenl.add("exact")
                r.add("line.naming_the_entry's_own_master_species_is_chosen_and_ends_the_search", DISCHARGED if s.status == "brk" and proves(h, tm.eq(ii1, i)) else FAILED, "symex", 0, s.status)
            elif case["element"]:
                seenl.add("element")
                r.add("line.naming_the_element_is_remembered_and_the_search_goes_on", DISCHARGED if s.status != "brk" and proves(h, tm.eq(ii1, i)) else FAILED, "symex", 0, s.status)
            else:
                seenl.add("other")
                r.add("line.of_another_element_is_ignored", DISCHARGED if s.status != "brk" and proves(h, tm.eq(ii1, ii0)) else FAILED, "symex", 0, s.status, kind="frame")
    r.add("reach.lines", DISCHARGED if seenl == {"exact", "element", "other"} else UNDECIDED, "symex", 0, repr(sorted(seenl)), kind="vacuity")
    ents = [e for e in info["inner_entries"].get(ordinal(fn, il), []) if B.z3_sat(list(e.pc)) != "unsat"]
    okb = bool(ents) and all(proves(list(e.pc), tm.eq(e.locals[info["names"]["ii"]], tm.num(-1, "I"))) for e in ents)
    r.add("line.none_chosen_before_the_search(ii=-1)", DISCHARGED if okb else FAILED, "symex", 0, "", kind="establishment")
    ih = head(INV, il)
    r.add("line.every_declaration_line_examined", DISCHARGED if ih[0] == "i=0" and ih[1] == "i<inv_ptr->i_u.size()" and ih[2] in ("i++", "++i") else FAILED, "syntactic", 0, repr(ih), kind="structural")
    # default table
    for s in live(info["inner_iters"].get(ordinal(fn, dl), []), ("run", "cont", "brk")):
        hy = list(s.pc)
        l = tm.sym("iter_l", "I")
        sc = [e for e in U.iter_events(s) if short(e) == "strcmp"]
        sets = [e for e in U.iter_events(s) if short(e) == "Set_x_ratio_uncertainty"]
        if len(sc) != 1:
            r.add("default.name_compared", FAILED, "trace", 0, ""); continue
        for h, hit in cases(hy, tm.eq(sc[0].result, I0)):
            if hit:
                row = at(F(ex, s, "iso_defaults", "P"), l) if False else None
                okd = len(sets) == 1 and "iso_defaults" in repr(sets[0].args[0]) and "uncertainty" in repr(sets[0].args[0]) and "iter_l" in repr(sets[0].args[0]) and s.status == "brk"
                r.add("default.uncertainty_of_the_table_row_with_the_isotope's_name", DISCHARGED if okd else FAILED, "trace", 0, repr([e.args for e in sets])[:200])
            else:
                r.add("default.other_rows_ignored", DISCHARGED if not sets and s.status != "brk" else FAILED, "trace", 0, "", kind="frame")
    r.assumptions += ["the accessors of cxxSolutionIsotope, master_bsearch*, std::isnan, strcmp are functional", "the header of the declaration-line loop is compared as text",
                      "the solution index q is the outer loop's j; uncertainties lists of the -isotopes lines are those read by read_inv_isotopes (not under contract)"]
    return r


UNITS = [("C18.set_isotope_unknowns.one_unknown_per_element_or_per_valence_state", unit_isotope_unknowns),
         ("C18.check_isotopes.ratio_uncertainty_from_the_declared_sources_in_order", unit_ratio_uncertainty)]
