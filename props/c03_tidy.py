"""C03, "exchangers keep their exchange capacity and surfaces their site totals (= defined sites)": sites that are tied to a mineral or a
kinetic reactant (`equilibrium_phase p` / `kinetic_reactant k`) are re-proportioned by update_min_exchange / update_kin_exchange /
update_min_surface / update_kin_surface, which Phreeqc::tidy_model calls at the end of every simulation's set-up.  Contract on the four
guards: the re-proportioning step runs whenever the simulation read ANY definition form (keyword, keyword_RAW, keyword_MODIFY) of either
of the two entity families it relates; on a path that skips it none of the six counts is positive."""
from props.common import *
from vf.core import FAILED, DISCHARGED, UNDECIDED

TIDY = "src/phreeqcpp/tidy.cpp"
Q = "Phreeqc::tidy_model"
FAMILY = {"min": "EQUILIBRIUM_PHASES", "kin": "KINETICS", "exchange": "EXCHANGE", "surface": "SURFACE"}
STEPS = [("update_min_exchange", "min", "exchange"), ("update_kin_exchange", "kin", "exchange"),
         ("update_min_surface", "min", "surface"), ("update_kin_surface", "kin", "surface")]


def unit_update_guards(twin=False):
    fn = A.find_function(TIDY, Q)
    r = U.new_unit("C03.tidy_model.tied_sites_re-proportioned_after_any_redefinition", TIDY, Q, fn)
    body = A.body_of(fn).get("inner", [])
    c = ctx(functional=())
    nskip = 0
    for callee, a, b in STEPS:
        guards = [x for x in body if x.get("kind") == "IfStmt" and any(
            y.get("kind") == "CXXMemberCallExpr" and strip(y["inner"][0]).get("name") == callee for y in A.walk(x["inner"][1]))]
        if not guards:
            if any(x.get("kind") == "CXXMemberCallExpr" and strip(x["inner"][0]).get("name") == callee for x in body):
                r.add("%s.runs_unconditionally" % callee, DISCHARGED, "syntactic", 0, ""); continue
            raise Undecided("tidy_model: no top-level call of %s" % callee)
        if len(guards) != 1:
            raise Undecided("tidy_model: %d guarded calls of %s" % (len(guards), callee))
        cc = ctx(functional=())
        f, ex, fin, info = region(TIDY, Q, [guards[0]], cc)
        keys = []
        for fam in (FAMILY[a], FAMILY[b]):
            for suf in ("", "_RAW", "_MODIFY"):
                keys.append("KEY_" + fam + suf)
        if twin and callee == "update_min_exchange":
            keys.append("KEY_SURFACE")
        for s in live(fin, ("run", "ret")):
            called = any(e.name.endswith("::" + callee) or e.name == callee for e in s.events)
            if called:
                continue
            nskip += 1
            for k in keys:
                v = tm.select(entry_arr(ex, s, ("m", "I")), tm.select(entry_arr(ex, s, ("f", "#vdata", "P")), tm.app("fld:keycount", (THIS,), "P")), tm.sym("E." + k, "I"))
                U.discharge_valid(r, "%s.skipped_only_if_no_%s_was_read#%d" % (callee, k[4:], nskip), list(s.pc), tm.le(v, tm.num(0, "I")))
    r.add("reach.skipping_paths", DISCHARGED if nskip >= 4 else UNDECIDED, "symex", 0, str(nskip), kind="vacuity")
    r.assumptions += ["the bodies of update_min_exchange / update_kin_exchange / update_min_surface / update_kin_surface are not under this contract",
                      "keycount[] holds the number of blocks of each keyword read in the current simulation (reset by read_input)"]
    return r
