"""C09 (fifth wave), two AST-STRUCTURAL units on src/IPhreeqc.cpp (typed clang AST: statement kinds, callee declarations, variable
declaration ids, position of statements relative to each other; no statement or condition is matched as text):

* C09.lines.every_line...: every loop that splits a string view into its line view (`while (std::getline(stream, line)) V.push_back(line)`
  in update_lines, update_errors and the DUMP block of do_run) turns EVERY line into exactly one entry, empty lines included: the loop
  runs exactly while getline succeeds (no second condition, default delimiter), each pass appends the variable getline just filled,
  unconditionally and once, nothing in the pass skips, leaves or consumes another line, and nothing is read from the stream between its
  construction and the loop.
* C09.entry.common_tail...: what the entry points do AFTER their try/catch (close_output_files, update_errors, clear of the input stream;
  in LoadDatabase / LoadDatabaseString the restore of the saved I/O switches) runs on every path that returns, also when do_run /
  read_database stopped with IPhreeqcStop.  The symbolic executor does not run catch arms, therefore this is decided on the AST: the
  statements are unconditional statements of the function body placed after the whole CXXTryStmt, no ReturnStmt precedes them anywhere
  in the function (try block and handlers included) and the IPhreeqcStop handler neither returns nor throws."""
from props.c13_ext_util import *

UNITS = []

JUMPS = ("ContinueStmt", "BreakStmt", "ReturnStmt", "GotoStmt", "CXXThrowExpr")


def _unwrap(st):
    while st.get("kind") in ("ExprWithCleanups", "ImplicitCastExpr", "ParenExpr", "CXXBindTemporaryExpr", "MaterializeTemporaryExpr") and st.get("inner"):
        st = st["inner"][0]
    return st


def _callee(n):
    n = _unwrap(n)
    if n.get("kind") in ("CXXMemberCallExpr", "CallExpr") and n.get("inner"):
        c = strip(n["inner"][0])
        return c.get("name") or (c.get("referencedDecl") or {}).get("name")
    return None


def _refs(n, did):
    return [x for x in A.walk(n) if x.get("kind") == "DeclRefExpr" and (x.get("referencedDecl") or {}).get("id") == did]


def _this_members(n):
    return [x.get("name") for x in A.walk(n) if x.get("kind") == "MemberExpr" and x.get("name") and x.get("inner") and strip(x["inner"][0]).get("kind") == "CXXThisExpr"]


def _getline_calls(n):
    return [x for x in A.walk(n) if x.get("kind") == "CallExpr" and x.get("inner") and (strip(x["inner"][0]).get("referencedDecl") or {}).get("name") == "getline"]


def _loop_cond_body(lp):
    k = lp.get("kind")
    inner = lp.get("inner", [])
    if k == "WhileStmt":
        return inner[-2], inner[-1]
    if k == "ForStmt":
        return inner[2], inner[-1]
    return inner[1], inner[0]


LINE_VIEWS = {"update_lines": ["LogLines", "OutputLines", "SelectedOutputLinesMap"], "update_errors": ["ErrorLines", "WarningLines"], "do_run": ["DumpLines"]}


def unit_one_entry_per_line(twin=False):
    uid = "C09.lines.every_line_of_a_string_is_exactly_one_entry(empty_lines_included)"
    fn0 = A.find_function(IPQ, "IPhreeqc::update_lines")
    r = U.new_unit(uid, IPQ, "IPhreeqc::update_lines / update_errors / do_run (line-splitting loops)", fn0, kind="structural")
    import hashlib
    shas = []
    found = {}
    for fname, views in LINE_VIEWS.items():
        fn = A.find_function(IPQ, "IPhreeqc::" + fname)
        shas.append(U.new_unit("x", IPQ, "f", fn).sha or "")
        for blk in [x for x in A.walk(fn) if x.get("kind") == "CompoundStmt"]:
            stmts = blk.get("inner", []) or []
            for i, lp in enumerate(stmts):
                if lp.get("kind") not in ("WhileStmt", "ForStmt", "DoStmt"):
                    continue
                cond, body = _loop_cond_body(lp)
                if not cond or not isinstance(cond, dict) or not cond.get("kind"):
                    continue
                gls = _getline_calls(cond)
                if not gls:
                    continue
                dst = [m for m in _this_members(body) if m.endswith("Lines") or m.endswith("LinesMap")]
                view = dst[0] if dst else "?"
                tag = "%s.%s" % (fname, view)
                n_ = found.get(tag, 0); found[tag] = n_ + 1
                if n_:
                    tag += "#%d" % n_
                # (1) the loop runs exactly while getline succeeds
                extra = [x for x in A.walk(cond) if (x.get("kind") == "BinaryOperator" and x.get("opcode") in ("&&", "||", ",", "==", "!=", "&", "|")) or x.get("kind") in ("ConditionalOperator",)
                         or (x.get("kind") == "CXXOperatorCallExpr")]
                neg = [x for x in A.walk(cond) if x.get("kind") == "UnaryOperator" and x.get("opcode") == "!"]
                g = gls[0]
                args = g["inner"][1:]
                delim_ok = len(args) == 2 or (len(args) == 3 and strip(args[2]).get("kind") == "CharacterLiteral" and strip(args[2]).get("value") == 10)
                okc = lp.get("kind") == "WhileStmt" and len(gls) == 1 and not extra and delim_ok
                if okc and neg:
                    r.add(tag + ".loop_runs_exactly_while_getline_succeeds(no_second_condition,line_feed_delimiter)", UNDECIDED, "ast", 0, "negation in the loop condition: not decided structurally", kind="structural")
                else:
                    ok(r, tag + ".loop_runs_exactly_while_getline_succeeds(no_second_condition,line_feed_delimiter)", okc,
                       "%s, %d getline call(s), extra operators %r, %d getline arguments" % (lp.get("kind"), len(gls), [x.get("opcode") or x.get("kind") for x in extra], len(args)), kind="structural", backend="ast")
                sv, lv = strip(args[0]) if args else {}, strip(args[1]) if len(args) > 1 else {}
                sid, lid = (sv.get("referencedDecl") or {}).get("id"), (lv.get("referencedDecl") or {}).get("id")
                if sv.get("kind") != "DeclRefExpr" or lv.get("kind") != "DeclRefExpr":
                    r.add(tag + ".stream_and_line_are_variables", UNDECIDED, "ast", 0, "getline arguments are not plain variables", kind="structural"); continue
                # (2) one unconditional push_back of the line just read per pass
                bst = body.get("inner", []) if body.get("kind") == "CompoundStmt" else [body]
                allpb = [x for x in A.walk(body) if x.get("kind") == "CXXMemberCallExpr" and _callee(x) in ("push_back", "emplace_back")]
                direct = [st for st in bst if _callee(st) in ("push_back", "emplace_back")]
                want_id = lid if not twin else sid
                arg_ok = False
                if len(direct) == 1:
                    pa = _unwrap(direct[0])["inner"][1:]
                    a0 = strip(pa[0]) if len(pa) == 1 else {}
                    arg_ok = a0.get("kind") == "DeclRefExpr" and (a0.get("referencedDecl") or {}).get("id") == want_id
                ok(r, tag + ".each_pass_appends_the_line_just_read_once_and_unconditionally", len(allpb) == 1 and len(direct) == 1 and arg_ok,
                   "%d push_back in the pass, %d as an unconditional statement of the body, argument is the getline variable: %s" % (len(allpb), len(direct), arg_ok), kind="structural", backend="ast")
                # (3) nothing in the pass skips / leaves / consumes another line or edits the line
                jumps = [x.get("kind") for x in A.walk(body) if x.get("kind") in JUMPS]
                ok(r, tag + ".no_line_skipped_or_merged(no_jump,no_second_read,line_not_edited_in_the_pass)", not jumps and not _refs(body, sid) and len(_refs(body, lid)) == 1 and not _getline_calls(body),
                   "jumps %r, %d uses of the stream and %d uses of the line variable in the pass" % (jumps, len(_refs(body, sid)), len(_refs(body, lid))), kind="structural", backend="ast")
                # (4) the stream is a variable of the same block, untouched between its construction and the loop
                decl_at = [j for j, st in enumerate(stmts[:i]) if any(d.get("kind") == "VarDecl" and d.get("id") == sid for d in A.walk(st))]
                between = [st for st in stmts[(decl_at[-1] + 1 if decl_at else 0):i] if _refs(st, sid)]
                ok(r, tag + ".stream_constructed_in_the_same_block_and_nothing_read_from_it_before_the_loop", bool(decl_at) and not between,
                   "declared in the block: %s; %d statement(s) use it before the loop" % (bool(decl_at), len(between)), kind="structural", backend="ast")
    missing = [(f_, v) for f_, vs in LINE_VIEWS.items() for v in vs if "%s.%s" % (f_, v) not in found]
    reach(r, "reach.a_splitting_loop_for_every_line_view(log,output,selected_output,error,warning,dump)", not missing, "missing: %r" % missing)
    r.sha = hashlib.sha256("".join(shas).encode()).hexdigest()
    r.assumptions += ["AST-structural unit (statement kinds, callee declarations, declaration ids); the library contract of std::getline (one line per successful call, empty lines are successful reads, the delimiter is dropped) is trusted",
                      "which string each stream is constructed from, the clear of the vectors before the split and the user-number key of the selected-output lines: units C09.lines.split_pairing / C09.lines.rebuilt_from_scratch_from_their_own_strings / C04.do_run.dump_string_gets...",
                      "a loop written with a negated condition (`!getline(...).fail()`) is reported undecided, not violated"]
    return r


UNITS.append(("C09.lines.every_line_of_a_string_is_exactly_one_entry(empty_lines_included)", unit_one_entry_per_line))


# --------------------------------------------------------------------------------------------------------------- tails after try / catch
TAILS = {"RunString": ["close_output_files", "update_errors", "clear_istream"], "RunFile": ["close_output_files", "update_errors", "clear_istream"],
         "RunAccumulated": ["close_output_files", "update_errors", "clear_istream"], "load_db": ["clear_istream"], "load_db_str": ["clear_istream"]}
SWITCHES = ["ErrorFileOn", "OutputFileOn", "LogFileOn"]


def _has(n, kinds):
    return [x.get("kind") for x in A.walk(n) if x.get("kind") in kinds]


def unit_common_tail(twin=False):
    uid = "C09.entry.common_tail_runs_on_every_path(also_when_the_run_or_the_database_load_was_stopped)"
    fn0 = A.find_function(IPQ, "IPhreeqc::RunString")
    r = U.new_unit(uid, IPQ, "IPhreeqc::RunString / RunFile / RunAccumulated / load_db / load_db_str / LoadDatabase / LoadDatabaseString", fn0, kind="structural")
    import hashlib
    shas = []
    n_tail = 0
    for name, need in TAILS.items():
        fn = A.find_function(IPQ, "IPhreeqc::" + name)
        shas.append(U.new_unit("x", IPQ, "f", fn).sha or "")
        body = A.body_of(fn).get("inner", []) or []
        tries = [k for k, x in enumerate(body) if x.get("kind") == "CXXTryStmt"]
        if not tries:
            nested = [x for x in A.walk(fn) if x.get("kind") == "CXXTryStmt"]
            if nested:
                r.add(name + ".try_statement_is_a_statement_of_the_function_body", UNDECIDED, "ast", 0, "the try statement is nested: position of the tail not decided structurally", kind="structural")
            else:
                ok(r, name + ".stops_are_caught_in_this_function", False, "no try statement: IPhreeqcStop leaves the function, the tail is skipped", kind="structural", backend="ast")
            continue
        k = tries[-1]
        t = body[k]
        need_ = list(need) + (["flush_all_views"] if twin and name == "RunFile" else [])
        at = {}
        for c_ in need_:
            at[c_] = [j for j in range(k + 1, len(body)) if _callee(body[j]) == c_]
            inside = [x for x in A.walk(t) if x.get("kind") in ("CXXMemberCallExpr", "CallExpr") and _callee(x) == c_]
            ok(r, "%s.%s_stands_after_the_whole_try_catch_as_an_unconditional_statement_of_the_body" % (name, c_), bool(at[c_]),
               "not found behind the try statement%s" % ("; %d call(s) inside the try / catch" % len(inside) if inside else ""), kind="structural", backend="ast")
            n_tail += bool(at[c_])
        last = max([max(v) for v in at.values() if v] or [k])
        early = [(j, body[j].get("kind")) for j in range(0, last + 1) if _has(body[j], ("ReturnStmt", "GotoStmt"))]
        ok(r, name + ".no_return_anywhere_before_the_tail(try_block_and_handlers_included)", not early, "return / goto inside body statement(s) %r, the tail ends at statement %d" % (early, last), kind="structural", backend="ast")
        stop = []
        for h in t.get("inner", [])[1:]:
            var = h["inner"][0] if h.get("inner") else {}
            qt = (var.get("type") or {}).get("qualType", "") if isinstance(var, dict) and var.get("kind") == "VarDecl" else ""
            if "IPhreeqcStop" in qt:
                stop.append(h)
        leaves = [kk for h in stop for kk in _has(h["inner"][-1], ("ReturnStmt", "CXXThrowExpr", "GotoStmt"))] if stop else []
        # nested try/catch inside the handler that swallow their own throw do not count; the stop handlers of these functions have none
        ok(r, name + ".IPhreeqcStop_is_caught_here_and_its_handler_falls_through_to_the_tail", len(stop) == 1 and not leaves, "%d stop handler(s); leaves through %r" % (len(stop), leaves), kind="structural", backend="ast")
    # LoadDatabase / LoadDatabaseString: the switches parked for the load are put back behind the load on the only way out
    for name, loader in (("LoadDatabase", "load_db"), ("LoadDatabaseString", "load_db_str")):
        fn = A.find_function(IPQ, "IPhreeqc::" + name)
        shas.append(U.new_unit("x", IPQ, "f", fn).sha or "")
        body = A.body_of(fn).get("inner", []) or []
        calls = [j for j, st in enumerate(body) if any(_callee(x) in (loader, "test_db") for x in A.walk(st) if x.get("kind") == "CXXMemberCallExpr")]
        if not [j for j in calls if any(_callee(x) == loader for x in A.walk(body[j]) if x.get("kind") == "CXXMemberCallExpr")]:
            raise Undecided("%s: call of %s not found" % (name, loader))
        lastcall = max(calls)
        saved = {}
        for st in body:
            if st.get("kind") == "DeclStmt":
                for d in st.get("inner", []):
                    if d.get("kind") == "VarDecl" and d.get("inner"):
                        m = [x for x in _this_members(d["inner"][-1]) if x in SWITCHES]
                        if len(m) == 1 and strip(d["inner"][-1]).get("kind") == "MemberExpr":
                            saved[m[0]] = d.get("id")
        put = {}
        for j, st in enumerate(body):
            s_ = _unwrap(st)
            if s_.get("kind") == "BinaryOperator" and s_.get("opcode") == "=":
                l, rr = strip(s_["inner"][0]), strip(s_["inner"][1])
                if l.get("kind") == "MemberExpr" and l.get("name") in SWITCHES and strip(l["inner"][0]).get("kind") == "CXXThisExpr" and rr.get("kind") == "DeclRefExpr":
                    if (rr.get("referencedDecl") or {}).get("id") == saved.get(l.get("name")):
                        put.setdefault(l.get("name"), []).append(j)
        for sw in SWITCHES:
            good = sw in saved and any(j > lastcall for j in put.get(sw, []))
            if twin and sw == "LogFileOn":
                good = False
            ok(r, "%s.%s_put_back_from_its_own_saved_copy_behind_the_load_and_the_self_test(unconditional_statement)" % (name, sw), good,
               "saved: %s; restores at statements %r; last load / test call at statement %d" % (sw in saved, put.get(sw), lastcall), kind="structural", backend="ast")
            n_tail += bool(good)
        last = max([max(v) for v in put.values() if v] or [lastcall])
        early = [(j, body[j].get("kind")) for j in range(0, last + 1) if _has(body[j], ("ReturnStmt", "GotoStmt"))]
        ok(r, name + ".no_return_before_the_switches_are_put_back", not early, repr(early), kind="structural", backend="ast")
    reach(r, "reach.tails_found", n_tail >= (11 + 6 if not twin else 1), "%d tail statements located" % n_tail)
    r.sha = hashlib.sha256("".join(shas).encode()).hexdigest()
    r.assumptions += ["AST-structural unit: the symbolic executor does not run catch arms, so the path through the IPhreeqcStop handler is decided from the position of the statements relative to the CXXTryStmt and to every ReturnStmt",
                      "only IPhreeqcStop is a normal way out of do_run / read_database; the std::exception and catch-all handlers re-throw to the caller by design (the tail is not promised then)",
                      "what close_output_files / update_errors / clear_istream do: units C09.close_output_files..., C09.lines.rebuilt_from_scratch..., PHRQ_io (not under this unit); pairing of saved copy and switch also in C09.switches.saved_and_restored_into_themselves",
                      "load_db / load_db_str catch IPhreeqcStop themselves (checked above), so LoadDatabase / LoadDatabaseString need no handler of their own; test_db is not examined"]
    return r


UNITS.append(("C09.entry.common_tail_runs_on_every_path(also_when_the_run_or_the_database_load_was_stopped)", unit_common_tail))


def _rows(twin=False):
    from props.c05_ext5 import unit_row_newline
    return unit_row_newline(twin=twin, uid="C09.punch_all.row_line_feed_unless_NO_NEWLINE.flag_rearmed_after_every_row.bindings_dropped_after_the_loop")


UNITS.append(("C09.punch_all.row_line_feed_unless_NO_NEWLINE.flag_rearmed_after_every_row.bindings_dropped_after_the_loop", _rows))
