"""C19 (extension 3).
 * the readers of the Peng-Robinson constants of a gas (read_t_c_only, read_p_c_only, read_omega_only) and of its molar volume (read_phase_vm) store the
   number that was scanned for EVERY real value - negative acentric factors exist (H2(g): -0.225) - with no clamp, no change of sign, no rejection
   of a value, and read_phase_vm scales by the unit of the line only (cm3 1, dm3 1e3, m3 1e6);
 * calc_PR(phases, P, T, V_m) of prep.cpp, the parts of the cubic solver that the root-of-the-cubic unit leaves open: every branch of the given-P solve
   evaluates its cube roots, square roots and arc cosine inside their real domains and divides by nothing that can be 0 (that is what the branch
   conditions are for), and the tail of the function hands the solved pressure and molar volume to the gas phase in use."""
from props.common import *
from props.c01_ext_util import put, valid, proved, I, lives, sat
from vf.core import FAILED, DISCHARGED, UNDECIDED
from vf.astvc import symex as SX

READ = "src/phreeqcpp/read.cpp"
PREP = "src/phreeqcpp/prep.cpp"
ENUMS = ["OK", "ERROR", "DIGIT", "EMPTY", "UPPER", "LOWER", "CONTINUE", "TRUE", "FALSE", "STOP", "REACTION", "cxxGasPhase::GP_VOLUME", "cxxGasPhase::GP_PRESSURE",
         "cm3_per_mol", "dm3_per_mol", "m3_per_mol"]


def scan_handler(ex, st, n, name, recv, args):
    """sscanf(text, "%lf...", p0, p1, ...): returns the number of conversions nconv; *pk receives the k-th number read when k < nconv and keeps its
    value otherwise.  The numbers are arbitrary reals (fresh symbols): nothing is assumed about their sign or size."""
    res = SX.fresh("nconv", "I")
    vals = []
    for k, a in enumerate(args[2:]):
        fr = SX.fresh("scanned%d" % k, "R"); vals.append(fr)
        lv = ex.deref(st, a)
        old = ex.load(st, lv, "R")
        ex.store(st, lv, tm.ite(tm.lt(tm.num(k, "I"), res), fr, old), "R")
    e = SX.Event(name, recv, args, res, n)
    e.snap = {"values": vals, "dests": list(args[2:])}
    st.events.append(e)
    return [(st, res)]


def unit_readers(twin=False):
    r = U.new_unit("C19.critical_constant_readers.store_the_number_scanned_for_every_real_value(T_c,P_c,Omega,Vm)", READ,
                   "Phreeqc::read_t_c_only; read_p_c_only; read_omega_only; read_phase_vm", A.find_function(READ, "Phreeqc::read_omega_only"))
    ev = {k.split("::")[-1]: v for k, v in A.enum_values_compiled("Phreeqc.h", ENUMS).items()}
    OKv, ERR = ev["OK"], ev["ERROR"]
    seen = {}
    for fnm, what in (("read_t_c_only", "T_c"), ("read_p_c_only", "P_c"), ("read_omega_only", "Omega"), ("read_phase_vm", "Vm")):
        q = "Phreeqc::" + fnm
        c = ctx(functional=("strstr",), enums_from="Phreeqc.h", enums=ENUMS)
        c.handlers["sscanf"] = scan_handler
        fn0 = A.find_function(READ, q)
        loops = [x for x in A.walk(fn0) if x.get("kind") in ("ForStmt", "WhileStmt", "DoStmt")]
        modes = {k: ("unroll" if lp.get("kind") == "ForStmt" else "havoc") for k, lp in enumerate(loops)}
        f, ex, fin, info = U.run_function(READ, q, modes=modes, ctx=c)
        ps = A.params_of(f)
        text = tm.sym("P0_%s" % ps[0]["name"], "P"); dest = tm.sym("P1_%s" % ps[1]["name"], "P")
        n = 0
        HAS = {}
        for s in lives(fin, ("ret",)):
            for e in s.events:
                if e.name.endswith("strstr"):
                    HAS.setdefault(repr(e.args[1]).strip('"'), tm.not_(tm.eq(e.result, tm.num(0, "P"))))
        for s in lives(fin, ("ret",)):
            sc = [e for e in s.events if e.name.endswith("sscanf")]
            if len(sc) != 1 or len(sc[0].snap["values"]) != 1:
                put(r, "%s.scans_one_number_once#%d" % (fnm, n), False, repr([e.args for e in sc])[:200]); n += 1; continue
            x = sc[0].snap["values"][0]; nconv = sc[0].result
            src_ok = (text in tm.subterms(sc[0].args[0]) or repr(text) in repr(sc[0].args[0]) or "&%s" % ps[0]["name"] in repr(sc[0].args[0]))
            if not src_ok or (fnm, "src") not in seen:
                put(r, "%s.the_text_of_the_line_is_what_is_scanned#%d" % (fnm, n), src_ok, repr(sc[0].args)[:200]); n += 1
            seen[(fnm, "src")] = 1
            final = ex.load(s, ex.deref(s, dest), "R")
            ie = [v for k_, ix, v in U.iter_writes(s) if k_ == ("f", "input_error", "I")] if hasattr(s, "iter_entry_arrays") else [v for ix, v in writes(s, ("f", "input_error", "I"))]
            for hy, got in cases(list(s.pc), tm.le(tm.num(1, "I"), nconv)):
                if got:
                    seen[(fnm, "ok")] = 1
                    put(r, "%s.a_number_on_the_line_is_accepted_whatever_its_value(returns_OK,no_input_error)#%d" % (fnm, n), tm.isnum(s.ret) and s.ret.args[0] == OKv and not ie, "ret %r under %r" % (s.ret, s.pc[-2:])); n += 1
                    if what != "Vm":
                        spec = x if not (twin and what == "Omega") else tm.ite(tm.lt(x, tm.num(0)), tm.num(0), x)
                        valid(r, "%s.%s_stored==number_scanned(no_clamp,no_sign_change)#%d" % (fnm, what, n), hy, tm.eq(final, spec)); n += 1
                    else:
                        looked = [repr(e.args[1]).strip('"') for e in s.events if e.name.endswith("strstr")]
                        word = [p_ for p_ in s.pc if "havoc_" in repr(p_) and ("== %d" % ev["UPPER"] in repr(p_) or "== %d" % ev["LOWER"] in repr(p_)) and p_.op != "not"]
                        if not word:
                            seen[(fnm, "nounit")] = 1
                            valid(r, "%s.without_a_unit_word_Vm_stored==number_scanned#%d" % (fnm, n), hy, tm.eq(final, x)); n += 1
                            put(r, "%s.without_a_unit_word_no_unit_is_looked_up#%d" % (fnm, n), not looked, repr(looked)); n += 1
                        else:
                            # the unit is decided by the word behind the numbers, the same on every path (a unit a path did not look up is undetermined there);
                            # a word containing cm3 or dm3 also contains m3
                            missing = [w for w in ("cm3", "dm3", "m3") if w not in HAS]
                            if missing:
                                put(r, "%s.units_cm3_dm3_m3_are_recognised#%d" % (fnm, n), False, "never looked up: %r" % missing); n += 1; continue
                            hy2 = hy + [tm.implies(HAS["cm3"], HAS["m3"]), tm.implies(HAS["dm3"], HAS["m3"])]
                            fac = tm.ite(HAS["cm3"], tm.num(1), tm.ite(HAS["dm3"], tm.num(1000), tm.ite(HAS["m3"], tm.num(1000000), tm.num(1))))
                            seen[(fnm, "unit")] = 1
                            valid(r, "%s.Vm_stored==number_scanned*(1|1e3|1e6_for_cm3|dm3|m3)#%d" % (fnm, n), hy2, tm.eq(final, tm.mul(x, fac))); n += 1
                else:
                    seen[(fnm, "bad")] = 1
                    put(r, "%s.no_number:ERROR_returned_and_an_input_error_counted#%d" % (fnm, n), tm.isnum(s.ret) and s.ret.args[0] == ERR and len(ie) == 1, "ret %r" % (s.ret,)); n += 1
        # a negative value reaches the member: some OK path is consistent with the value -0.225
        neg = False
        for s in lives(fin, ("ret",)):
            sc = [e for e in s.events if e.name.endswith("sscanf")]
            if len(sc) == 1 and tm.isnum(s.ret) and s.ret.args[0] == OKv:
                x = sc[0].snap["values"][0]
                final = ex.load(s, ex.deref(s, dest), "R")
                hyn = list(s.pc) + [tm.le(tm.num(1, "I"), sc[0].result), tm.eq(x, tm.Q("-0.225"))]
                if sat(hyn) and proved(hyn, tm.lt(final, tm.num(0))):
                    neg = True
        put(r, "reach.%s.a_negative_number_is_stored_as_a_negative_number" % fnm, neg, "", kind="vacuity", undecided=False)
    need = {(f_, k_) for f_ in ("read_t_c_only", "read_p_c_only", "read_omega_only", "read_phase_vm") for k_ in ("ok", "bad")} | {("read_phase_vm", "unit"), ("read_phase_vm", "nounit")}
    put(r, "reach.cases", need <= set(seen), "missing %r" % sorted(need - set(seen)), kind="vacuity", undecided=True)
    r.assumptions += ["sscanf(text, \"%lf\", p) stores the number read through p and returns the number of conversions; the number is an arbitrary real",
                      "replace(stds, \"=\", \" \") only blanks equal signs of the copy of the line; strstr(word, u) != NULL iff the word contains u (functional); a word that contains cm3 or dm3 contains m3",
                      "read_phase_vm: the loop that skips the numbers of the line is replaced by its frame (class of the first word behind them arbitrary); the unit word is the token it leaves",
                      "whole-function symbolic execution of the four readers; the call sites in read_phases are under unit C19.read_phases.T_c_P_c_Omega..."]
    return r



# ------------------------------------------------------------------------------------------------ calc_PR (prep.cpp): real domains of the cubic solver
def _apps(t, names):
    return [x for x in tm.subterms(t) if x.op == "app" and x.args[0] in names]


def unit_cubic_domains(twin=False):
    """calc_PR(phases, P, T, 0): the molar volume is computed by Cardano's formulas.  With q = rq, p^3 = rp3 and rz = q^2/4 + p^3/27:
       rz >= 0, sqrt(rz) + q/2 <= 0 : two real cube roots of sqrt(rz) - q/2 and -sqrt(rz) - q/2   (both must be >= 0: pow(x, 1/3) of a negative x is NaN)
       rz >= 0, sqrt(rz) + q/2 >  0 : one cube root of sqrt(rz) + q/2 (> 0, it is also a divisor)
       rz <  0                      : sqrt(-p^3/27) (> 0, a divisor) and acos(-q/2 / sqrt(-p^3/27)) (argument inside [-1, 1])
    The obligations say that on every path the argument of each cube root / square root is non-negative, the argument of acos is inside [-1, 1] and no
    divisor can vanish - i.e. that the branch conditions select the formula whose real evaluation is defined (unit ...molar_volume_is_the_gas_root... shows that
    each formula yields a root; it assumes these domains)."""
    from props.c16_ext import same_real, loc
    q = "Phreeqc::calc_PR"
    fn = A.find_function(PREP, q, nparams=4)
    r = U.new_unit("C19.calc_PR[prep].cubic_solver.every_branch_evaluates_its_roots_and_acos_inside_their_real_domain", PREP, q, fn)
    ifs = [x for x in A.body_of(fn)["inner"] if x.get("kind") == "IfStmt" and any(y.get("kind") == "CallExpr" and (y["inner"][0].get("inner", [{}])[0].get("referencedDecl", {}).get("name") == "acos") for y in A.walk(x))]
    if len(ifs) != 1:
        raise Undecided("the statement that solves the cubic was not found (%d)" % len(ifs))
    c = ctx(functional=("f_Vm", "halve", "acos", "cos"), enums_from="Phreeqc.h", enums=ENUMS, pure_all=True)
    c.loop = lambda ex_, st, nd, o: ex_.havoc_loop(nd, st)
    f, ex, fin, info = region(PREP, q, [ifs[0]], c)
    V0 = tm.sym("L_V_m", "R")
    Q, P3, Z = tm.sym("q", "R"), tm.sym("p3", "R"), tm.sym("rz", "R")
    zero = tm.num(0)
    seen = {}
    n = 0
    for s in [s_ for s_ in fin if s_.status == "run"]:
        if tm.eq(V0, zero) not in s.pc:
            continue            # given V_m: the pressure is an explicit rational function (unit ...molar_volume_is_the_gas_root...)
        V, P = loc(info, s, "V_m"), loc(info, s, "P")
        Tq, Tp3, Tz = loc(info, s, "rq"), loc(info, s, "rp3"), loc(info, s, "rz")
        # the pressure that divides is positive
        okP = (tm.isnum(P) and P.args[0] > 0) or proved(list(s.pc), tm.lt(zero, P))
        if not okP or "P" not in seen:
            put(r, "given_P.the_pressure_that_divides_the_coefficients_is_positive#%d" % n, okP, repr(P)[:80]); n += 1
        seen["P"] = 1
        # the discriminant the branches test is q^2/4 + p^3/27 of the q and p^3 the formulas use
        sub0 = lambda t: tm.substitute(tm.substitute(t, {Tz: Z}), {Tq: Q, Tp3: P3})
        rzq = tm.substitute(Tz, {Tq: Q, Tp3: P3})
        okz = same_real(rzq, Q * Q / tm.num(4) + P3 / tm.num(27))
        if not okz or "rz" not in seen:
            put(r, "given_P.discriminant_tested_is_q^2/4+p^3/27#%d" % n, okz, repr(rzq)[:200]); n += 1
        seen["rz"] = 1
        rel = [tm.eq(Z, Q * Q / tm.num(4) + P3 / tm.num(27))]
        pcs = [sub0(p_) for p_ in s.pc if p_ is not tm.eq(V0, zero)]
        Vt = sub0(V)
        apps = sorted(set(_apps(Vt, ("sqrt", "pow", "call:acos")) + [a for p_ in pcs for a in _apps(p_, ("sqrt", "pow", "call:acos"))]), key=lambda x: len(repr(x)))
        names, axioms = {}, {}
        def flat(t):
            for a in apps:
                if a in names:
                    t = tm.substitute(t, {tm.substitute(a, {b: names[b] for b in apps if b in names and b is not a and len(repr(b)) < len(repr(a))}): names[a]})
            return t
        kinds = set()
        for k, a in enumerate(apps):
            kind = a.args[0]
            arg = a.args[-1] if kind == "call:acos" else a.args[1]
            if kind == "pow" and not (len(a.args) == 3 and a.args[2] is tm.sym("L_one_3", "R")):
                continue
            x = flat(arg)
            hy = [flat(p_) for p_ in pcs] + rel + [ax for b, ax in axioms.items() if len(repr(b)) < len(repr(a))]
            y = tm.sym("%s_%d" % (kind.split(":")[-1], k), "R")
            if kind == "sqrt":
                kinds.add("sqrt")
                valid(r, "given_P.%s.square_root_of_a_non_negative_number#%d" % (branch_of(pcs, Z), n), hy, tm.le(zero, x) if not twin else tm.lt(zero, x)); n += 1
                axioms[a] = tm.and_(tm.le(zero, y), tm.eq(y * y, x))
            elif kind == "pow":
                kinds.add("cbrt")
                valid(r, "given_P.%s.cube_root_of_a_non_negative_number#%d" % (branch_of(pcs, Z), n), hy, tm.le(zero, x)); n += 1
                axioms[a] = tm.and_(tm.le(zero, y), tm.eq(y * y * y, x))
            else:
                kinds.add("acos")
                valid(r, "given_P.%s.acos_of_a_number_in_[-1,1]#%d" % (branch_of(pcs, Z), n), hy, tm.and_(tm.le(tm.num(-1), x), tm.le(x, tm.num(1)))); n += 1
                axioms[a] = tm.le(zero, y)
            names[a] = y
        # divisors
        Vf = flat(Vt)
        hyall = [flat(p_) for p_ in pcs] + rel + list(axioms.values())
        flat_args = [flat(a.args[-1] if a.args[0] == "call:acos" else a.args[1]) for a in names]
        for d in sorted({t.args[1] for top in [Vf] + flat_args for t in tm.subterms(top) if t.op == "/" and not tm.isnum(t.args[1])}, key=repr):
            valid(r, "given_P.%s.divisor_cannot_vanish#%d" % (branch_of(pcs, Z), n), hyall, tm.not_(tm.eq(d, zero))); n += 1
            kinds.add("div")
        seen[branch_of(pcs, Z) + ":" + ",".join(sorted(kinds))] = 1
    need = {"one_real_root:cbrt,sqrt", "one_real_root:cbrt,div,sqrt", "three_real_roots:acos,cbrt,div,sqrt"}
    put(r, "reach.branches", need <= set(seen), repr(sorted(seen)), kind="vacuity", undecided=True)
    r.assumptions += ["pow(x, one_3) is the real cube root for x >= 0 (NaN for x < 0); sqrt, acos real only inside their domains; doubles as reals",
                      "the path condition of a branch is used to justify the domains of the formulas evaluated in it (the tests precede the evaluations in the code)",
                      "q, p^3 and rz are abstracted: the obligations hold for all values of the cubic's coefficients, hence for all mixtures, pressures and temperatures",
                      "the given-V_m branch (explicit EOS pressure, spinodal search) has no roots to take and is not part of this unit"]
    return r


def branch_of(pcs, Z):
    zero = tm.num(0)
    lin = [p_ for p_ in pcs if not _apps(p_, ("sqrt", "pow", "call:acos"))]
    if proved(lin, tm.le(zero, Z)):
        return "one_real_root"
    if proved(lin, tm.lt(Z, zero)):
        return "three_real_roots"
    return "branch_not_decided_by_the_sign_of_rz"


# ------------------------------------------------------------------------------------------------ calc_PR (prep.cpp): the tail
def unit_tail(twin=False):
    """calc_PR(phases, P, T, V_m) ends by handing its result over: with a gas phase in use (and past the first iterations) the solved molar volume is stored in
    the gas phase (Set_v_m) and, for a FIXED-VOLUME gas phase only, the EOS pressure becomes its total pressure (a fixed-pressure phase keeps the pressure it was
    given); otherwise the molar volume is returned (tidy_gas_phase uses it).  Nothing between the solve and this tail changes P or V_m."""
    q = "Phreeqc::calc_PR"
    fn = A.find_function(PREP, q, nparams=4)
    r = U.new_unit("C19.calc_PR[prep].solved_pressure_and_molar_volume_are_handed_to_the_gas_phase_in_use", PREP, q, fn)
    body = A.body_of(fn)["inner"]
    def calls(x, nm):
        return any(y.get("kind") == "MemberExpr" and y.get("name") == nm for y in A.walk(x))
    tails = [k for k, x in enumerate(body) if x.get("kind") == "IfStmt" and calls(x, "Set_v_m")]
    if len(tails) != 1:
        raise Undecided("the statement that stores the molar volume in the gas phase was not found (%d)" % len(tails))
    k0 = tails[0]
    ev = {k.split("::")[-1]: v for k, v in A.enum_values_compiled("Phreeqc.h", ENUMS).items()}
    c = ctx(functional=("Get_type",), enums_from="Phreeqc.h", enums=ENUMS, pure_all=True)
    f, ex, fin, info = region(PREP, q, body[k0:], c)
    ps = A.params_of(fn)
    Pn, Vn = ps[1]["name"], ps[3]["name"]
    P0, V0 = tm.sym("L_" + Pn, "R"), tm.sym("L_" + Vn, "R")
    gpv = [x for x in A.walk(fn) if x.get("kind") == "VarDecl" and any(y.get("kind") == "MemberExpr" and y.get("name") == "Get_gas_phase_ptr" for y in A.walk(x))]
    if len(gpv) != 1:
        raise Undecided("the local holding the gas phase in use was not found")
    gp = tm.sym("L_" + gpv[0]["name"], "P")
    # P and V_m are not assigned between the solve and the tail
    solve = [k for k, x in enumerate(body) if x.get("kind") == "IfStmt" and any(y.get("kind") == "DeclRefExpr" and y.get("referencedDecl", {}).get("name") == "acos" for y in A.walk(x))]
    if len(solve) != 1 or solve[0] >= k0:
        raise Undecided("the solve was not found before the tail")
    exx = SX.Exec(ctx()); exx.local_ids = {x["id"] for x in A.walk(fn) if x.get("kind") in ("VarDecl", "ParmVarDecl") and "id" in x}
    assigned = set()
    for st_ in body[solve[0] + 1:k0]:
        ids, _wm = exx.assigned_locals(st_)
        assigned |= {nm for did, (nm, qq) in ids.items()}
    put(r, "between_solve_and_tail.P_and_V_m_are_not_assigned", not ({Pn, Vn} & assigned), repr(sorted(assigned))[:200], kind="frame")
    seen = set()
    it_ = tm.select(tm.sym("H0.iterations:I", ("A", "P", "I")), THIS)
    for s in lives(fin, ("ret",)):
        sv = [e for e in s.events if e.name.endswith("Set_v_m")]
        sp = [e for e in s.events if e.name.endswith("Set_total_p")]
        ty = [e for e in s.events if e.name.endswith("Get_type")]
        other = [e for e in s.events if e.name.split("::")[-1].startswith("Set_") and e not in sv and e not in sp]
        for hy, use_ in cases(list(s.pc), tm.and_(tm.not_(tm.eq(gp, tm.num(0, "P"))), tm.lt(tm.num(2, "I"), it_))):
            if use_:
                ok = len(sv) == 1 and sv[0].recv is gp and sv[0].args[0] is (V0 if not twin else P0) and not other
                put(r, "gas_phase_in_use.molar_volume_stored_is_the_solved_V_m#%d" % len(r.obligations), ok, repr([(e.recv, e.args) for e in sv])[:200])
                tyt = ty[0].result if ty else tm.app("call:Get_type", (gp,), "I")
                for hy2, vol in cases(hy, tm.eq(tyt, tm.num(ev["GP_VOLUME"], "I"))):
                    if vol:
                        seen.add("volume")
                        ok = len(sp) == 1 and sp[0].recv is gp and sp[0].args[0] is P0
                        put(r, "fixed_volume.total_pressure_becomes_the_EOS_pressure#%d" % len(r.obligations), ok, repr([(e.recv, e.args) for e in sp])[:200])
                    else:
                        seen.add("pressure")
                        put(r, "fixed_pressure.total_pressure_is_not_overwritten#%d" % len(r.obligations), not sp, repr([(e.recv, e.args) for e in sp])[:200], kind="frame")
            else:
                seen.add("none")
                put(r, "no_gas_phase_or_first_iterations.nothing_stored_and_V_m_returned#%d" % len(r.obligations), not sv and not sp and not other and s.ret is V0, "ret %r" % (s.ret,))
    put(r, "reach.cases", seen == {"volume", "pressure", "none"}, repr(sorted(seen)), kind="vacuity", undecided=True)
    r.assumptions += ["statement contract on the statements behind the fugacity loop; P and V_m at that point are the values left by the solve (no assignment in between: checked on the AST)",
                      "cxxGasPhase::Get_type functional; setters are events (accessor pairing: C19 read-out units)", "`iterations > 2` is the solver's own gate and is taken from the code"]
    return r


UNITS = [
    ("C19.critical_constant_readers.store_the_number_scanned_for_every_real_value(T_c,P_c,Omega,Vm)", unit_readers),
    ("C19.calc_PR[prep].cubic_solver.every_branch_evaluates_its_roots_and_acos_inside_their_real_domain", unit_cubic_domains),
    ("C19.calc_PR[prep].solved_pressure_and_molar_volume_are_handed_to_the_gas_phase_in_use", unit_tail),
]
