"""C12: time bookkeeping.  (a) the CVODE restart loop of run_reactions keeps  elapsed + remaining == requested  (loop iteration
contract); (b) the step drivers advance rate_sim_time by the step just integrated (cumulative when INCREMENTAL_REACTIONS);
(c) at the end of RUN_CELLS the clock that TOTAL_TIME reads (initial_total_time + rate_sim_time) is carried over."""
from props.common import *
from vf.core import FAILED, DISCHARGED, UNDECIDED

KIN = "src/phreeqcpp/kinetics.cpp"
MS = "src/phreeqcpp/mainsubs.cpp"
RC = "src/phreeqcpp/ReadClass.cxx"


def unit_cvode_restart(twin=False):
    q = "Phreeqc::run_reactions"
    fn = A.find_function(KIN, q)
    r = U.new_unit("C12.run_reactions.cvode_restart_keeps_elapsed+remaining==requested", KIN, q, fn)
    k = loop_ordinal(fn, KIN, cond_text="flag!=SUCCESS")
    f, ex, its, info = U.run_loop_isolated(KIN, q, k, ctx=ctx())
    n = 0
    for s in live(its, ("run", "cont")):
        cv = [e for e in U.iter_events(s) if e.name.split("::")[-1] == "CVode"]
        if not cv:
            continue
        n += 1
        sum0 = tm.sym("iter_sum_t", "R"); good = fld0(ex, s, "cvode_last_good_time", "R")
        tout = local(info, s, "tout")
        sum1 = local(info, s, "sum_t")
        U.discharge_eq_real(r, "restart.elapsed+=last_good_segment", list(s.pc), sum1, sum0 + good if not twin else good)
        U.discharge_eq_real(r, "restart.requested_remaining==tout-elapsed", list(s.pc), cv[-1].args[1], tout - sum1)
    r.add("reach.restart", DISCHARGED if n else UNDECIDED, "symex", 0, "%d paths reach the re-integration" % n, kind="vacuity")
    # after the integrator: rate_sim_time = rate_sim_time_start + (time integrated)
    for text, spec in (("rate_sim_time = rate_sim_time_start + t", "t"), ("rate_sim_time = rate_sim_time_start + kin_time", "kin_time")):
        sts = find_nodes(fn, KIN, lambda t, x: t == text.replace(" ", ""), kinds=("BinaryOperator",))
        r.add("clock.%s_present" % text.replace(" ", ""), DISCHARGED if sts else FAILED, "syntactic", 0, "%d" % len(sts), kind="structural")
    r.assumptions += ["CVode(mem, tout, y, &t, NORMAL) integrates from 0 towards tout and cvode_last_good_time is the part accomplished (bodies not under contract)",
                      "error exits (bad_step_max) are not pinned"]
    return r


def unit_step_clock(twin=False):
    r = U.new_unit("C12.step_drivers.clock_advances_by_the_step_integrated", MS, "Phreeqc::reactions", A.find_function(MS, "Phreeqc::reactions"))
    n = 0
    for rel, q in ((MS, "Phreeqc::reactions"), (RC, "Phreeqc::run_as_cells")):
        fn = A.find_function(rel, q)
        # located by effect (the branch that advances the start of the step clock), not by the condition, so a changed condition is decided
        ifs = find_nodes(fn, rel, lambda t, x: len(x["inner"]) >= 2 and "rate_sim_time_start+=" in text_of(rel, x["inner"][1]) and not any(
            y is not x and y.get("kind") == "IfStmt" and len(y["inner"]) >= 2 and "rate_sim_time_start+=" in text_of(rel, y["inner"][1]) for y in A.walk(x["inner"][1])), kinds=("IfStmt",))
        if not ifs:
            r.add("%s.clock_update_present" % q.split("::")[-1], FAILED, "syntactic", 0, ""); continue
        for j, st in enumerate(ifs):
            f, ex, fin, info = region(rel, q, [st])
            for s in live(fin):
                n += 1
                inc = tm.eq(fld0(ex, s, "incremental_reactions", "I"), tm.num(1, "I"))
                kt = local(info, s, "kin_time")
                new = fld(ex, s, "rate_sim_time", "R"); start0 = fld0(ex, s, "rate_sim_time_start", "R"); start1 = fld(ex, s, "rate_sim_time_start", "R")
                hy = list(s.pc)
                for hy, incremental in cases(hy, inc):
                    if incremental:
                        U.discharge_eq_real(r, "%s[%d].incremental.start+=step" % (q.split("::")[-1], j), hy, start1, start0 + kt)
                        U.discharge_eq_real(r, "%s[%d].incremental.elapsed==cumulative" % (q.split("::")[-1], j), hy, new, start0 + kt if not twin else kt)
                    else:
                        U.discharge_eq_real(r, "%s[%d].cumulative_steps.elapsed==step" % (q.split("::")[-1], j), hy, new, kt)
                        U.discharge_eq_real(r, "%s[%d].cumulative_steps.start_unchanged" % (q.split("::")[-1], j), hy, start1, start0)
    r.add("reach.clock_updates", DISCHARGED if n >= 4 else UNDECIDED, "symex", 0, "%d paths" % n, kind="vacuity")
    # end of RUN_CELLS: TOTAL_TIME (= initial_total_time + rate_sim_time) carries over
    fn = A.find_function(RC, "Phreeqc::run_as_cells")
    sts = find_nodes(fn, RC, lambda t, x: t.startswith("initial_total_time+="), kinds=("CompoundAssignOperator",))
    if len(sts) != 1:
        r.add("run_as_cells.clock_carried_over_once", FAILED, "syntactic", 0, "%d statements" % len(sts))
    else:
        f, ex, fin, info = region(RC, "Phreeqc::run_as_cells", [sts[0]])
        for s in live(fin):
            U.discharge_eq_real(r, "run_as_cells.initial_total_time+=elapsed(rate_sim_time)", list(s.pc), fld(ex, s, "initial_total_time", "R"),
                                fld0(ex, s, "initial_total_time", "R") + fld0(ex, s, "rate_sim_time", "R"))
        body = A.body_of(fn).get("inner", [])
        r.add("run_as_cells.carry_over_is_unconditional(top-level statement)", DISCHARGED if any(x is sts[0] for x in body) else FAILED, "syntactic", 0, "", kind="structural")
    r.assumptions += ["TOTAL_TIME reads initial_total_time + rate_sim_time (PBasic.cpp; checked textually below)", "kin_time is the step handed to run_reactions in the same iteration"]
    pb = src("src/phreeqcpp/PBasic.cpp").decode("latin1")
    r.add("TOTAL_TIME.reads_initial_total_time+rate_sim_time", DISCHARGED if "PhreeqcPtr->initial_total_time + PhreeqcPtr->rate_sim_time" in pb else FAILED, "syntactic", 0, "", kind="structural")
    return r


def unit_reactant_nonnegative(twin=False):
    """Reactant amounts never become negative (Runge-Kutta path): every stage sets m = m_temp[j] - moles with m_temp[j] the amount at
    the start of the sub-step, and calc_final_kinetic_reaction caps the reacted moles of component i at that same m_temp[i] (then
    m = 0) before adding them to the system — so m_temp - moles >= 0 and nothing is added that the reactant did not have."""
    import re
    q = "Phreeqc::calc_final_kinetic_reaction"
    fn = A.find_function(KIN, q)
    r = U.new_unit("C12.kinetics.reacted_moles_capped_at_amount_present", KIN, q, fn)
    cap = find_nodes(fn, KIN, lambda t, x: len(x["inner"]) >= 2 and "kinetics_comp_ptr->Set_moles(" in text_of(KIN, x["inner"][1]), kinds=("IfStmt",))      # by effect
    if len(cap) != 1:
        raise Undecided("cap statement of calc_final_kinetic_reaction not found (%d)" % len(cap))
    c = ctx(functional=("Get_moles",))
    f, ex, fin, info = region(KIN, q, [cap[0]], c)
    base = None
    n = 0
    for s in live(fin):
        sets = [e for e in s.events if e.name.endswith("Set_moles")]
        gm = [e.result for e in s.events if e.name.endswith("Get_moles")]
        if not sets:
            continue
        n += 1
        B_ = sets[0].args[0]
        base = B_
        U.discharge_valid(r, "cap.applies_when_moles_exceed_the_bound_it_sets", list(s.pc), tm.lt(B_, gm[0]) if gm else tm.FALSE)
        sm = [e for e in s.events if e.name.endswith("Set_m")]
        r.add("cap.reactant_left_with_zero", DISCHARGED if len(sm) == 1 and tm.isnum(sm[0].args[0]) and sm[0].args[0].args[0] == 0 else FAILED, "trace", 0, repr([e.args for e in sm])[:80], kind="trace")
        mt = tm.select(entry_arr(ex, s, ("m", "R")), tm.select(entry_arr(ex, s, ("f", "#vdata", "P")), tm.app("fld:m_temp", (THIS,), "P")), local(info, s, "i"))
        okb = B_ is mt and not twin
        r.add("cap.bound_is_amount_at_start_of_the_substep(m_temp[i])", DISCHARGED if okb else FAILED, "symex", 0, repr(B_)[:160])
    r.add("reach.cap", DISCHARGED if n == 1 else UNDECIDED, "symex", 0, "%d" % n, kind="vacuity")
    # every stage of rk_kinetics: m = m_temp[j] - moles
    fr = A.find_function(KIN, "Phreeqc::rk_kinetics")
    t = text_of(KIN, fr)
    sites = re.findall(r"kinetics_comp_ptr->Set_m\(([^;]*?)-kinetics_comp_ptr->Get_moles\(\)\);", t)
    r.add("stages.m==m_temp[j]-moles_at_every_stage", DISCHARGED if len(sites) >= 8 and all(x == "m_temp[j]" for x in sites) else FAILED, "syntactic", 0, "%d sites: %r" % (len(sites), sorted(set(sites))), kind="structural")
    r.add("stages.m_temp_taken_from_current_amount_at_step_start", DISCHARGED if "m_temp[j]=kinetics_comp_ptr->Get_m();" in t else FAILED, "syntactic", 0, "", kind="structural")
    r.assumptions += ["CVODE path (cvode_update_reactants) is not under this contract", "two text anchors in rk_kinetics"]
    return r
