"""C12: time bookkeeping.  (a) the CVODE restart loop of run_reactions keeps  elapsed + remaining == requested  (loop iteration
contract); (b) the step drivers advance rate_sim_time by the step just integrated (cumulative when INCREMENTAL_REACTIONS);
(c) at the end of RUN_CELLS the clock that TOTAL_TIME reads (initial_total_time + rate_sim_time) is carried over."""
from props.common import *
from vf.core import FAILED, DISCHARGED, UNDECIDED

KIN = "src/phreeqcpp/kinetics.cpp"
MS = "src/phreeqcpp/mainsubs.cpp"
RC = "src/phreeqcpp/ReadClass.cxx"


def unit_cvode_restart(twin=False):
    q = "Phreeqc::run_reactions"
    fn = A.find_function(KIN, q)
    r = U.new_unit("C12.run_reactions.cvode_restart_keeps_elapsed+remaining==requested", KIN, q, fn)
    k = loop_ordinal(fn, KIN, cond_text="flag!=SUCCESS")
    f, ex, its, info = U.run_loop_isolated(KIN, q, k, ctx=ctx())
    n = 0
    for s in live(its, ("run", "cont")):
        cv = [e for e in U.iter_events(s) if e.name.split("::")[-1] == "CVode"]
        if not cv:
            continue
        n += 1
        sum0 = tm.sym("iter_sum_t", "R"); good = fld0(ex, s, "cvode_last_good_time", "R")
        tout = local(info, s, "tout")
        sum1 = local(info, s, "sum_t")
        U.discharge_eq_real(r, "restart.elapsed+=last_good_segment", list(s.pc), sum1, sum0 + good if not twin else good)
        U.discharge_eq_real(r, "restart.requested_remaining==tout-elapsed", list(s.pc), cv[-1].args[1], tout - sum1)
    r.add("reach.restart", DISCHARGED if n else UNDECIDED, "symex", 0, "%d paths reach the re-integration" % n, kind="vacuity")
    # after the integrator: rate_sim_time = rate_sim_time_start + (time integrated)
    for text, spec in (("rate_sim_time = rate_sim_time_start + t", "t"), ("rate_sim_time = rate_sim_time_start + kin_time", "kin_time")):
        sts = find_nodes(fn, KIN, lambda t, x: t == text.replace(" ", ""), kinds=("BinaryOperator",))
        r.add("clock.%s_present" % text.replace(" ", ""), DISCHARGED if sts else FAILED, "syntactic", 0, "%d" % len(sts), kind="structural")
    r.assumptions += ["CVode(mem, tout, y, &t, NORMAL) integrates from 0 towards tout and cvode_last_good_time is the part accomplished (bodies not under contract)",
                      "error exits (bad_step_max) are not pinned"]
    return r


def unit_step_clock(twin=False):
    r = U.new_unit("C12.step_drivers.clock_advances_by_the_step_integrated", MS, "Phreeqc::reactions", A.find_function(MS, "Phreeqc::reactions"))
    n = 0
    for rel, q in ((MS, "Phreeqc::reactions"), (RC, "Phreeqc::run_as_cells")):
        fn = A.find_function(rel, q)
        ifs = find_nodes(fn, rel, lambda t, x: text_of(rel, x["inner"][0]) == "incremental_reactions==TRUE" and "rate_sim_time" in t, kinds=("IfStmt",))
        if not ifs:
            r.add("%s.clock_update_present" % q.split("::")[-1], FAILED, "syntactic", 0, ""); continue
        for j, st in enumerate(ifs):
            f, ex, fin, info = region(rel, q, [st])
            for s in live(fin):
                n += 1
                inc = tm.eq(fld0(ex, s, "incremental_reactions", "I"), tm.num(1, "I"))
                kt = local(info, s, "kin_time")
                new = fld(ex, s, "rate_sim_time", "R"); start0 = fld0(ex, s, "rate_sim_time_start", "R"); start1 = fld(ex, s, "rate_sim_time_start", "R")
                hy = list(s.pc)
                if B.z3_prove(hy, inc)[0] == "proved":
                    U.discharge_eq_real(r, "%s[%d].incremental.start+=step" % (q.split("::")[-1], j), hy, start1, start0 + kt)
                    U.discharge_eq_real(r, "%s[%d].incremental.elapsed==cumulative" % (q.split("::")[-1], j), hy, new, start0 + kt if not twin else kt)
                elif B.z3_prove(hy, tm.not_(inc))[0] == "proved":
                    U.discharge_eq_real(r, "%s[%d].cumulative_steps.elapsed==step" % (q.split("::")[-1], j), hy, new, kt)
                    U.discharge_eq_real(r, "%s[%d].cumulative_steps.start_unchanged" % (q.split("::")[-1], j), hy, start1, start0)
                else:
                    r.add("%s[%d].case_decided" % (q.split("::")[-1], j), UNDECIDED, "z3", 0, repr(s.pc)[:200])
    r.add("reach.clock_updates", DISCHARGED if n >= 4 else UNDECIDED, "symex", 0, "%d paths" % n, kind="vacuity")
    # end of RUN_CELLS: TOTAL_TIME (= initial_total_time + rate_sim_time) carries over
    fn = A.find_function(RC, "Phreeqc::run_as_cells")
    sts = find_nodes(fn, RC, lambda t, x: t.startswith("initial_total_time+="), kinds=("CompoundAssignOperator",))
    if len(sts) != 1:
        r.add("run_as_cells.clock_carried_over_once", FAILED, "syntactic", 0, "%d statements" % len(sts))
    else:
        f, ex, fin, info = region(RC, "Phreeqc::run_as_cells", [sts[0]])
        for s in live(fin):
            U.discharge_eq_real(r, "run_as_cells.initial_total_time+=elapsed(rate_sim_time)", list(s.pc), fld(ex, s, "initial_total_time", "R"),
                                fld0(ex, s, "initial_total_time", "R") + fld0(ex, s, "rate_sim_time", "R"))
        body = A.body_of(fn).get("inner", [])
        r.add("run_as_cells.carry_over_is_unconditional(top-level statement)", DISCHARGED if any(x is sts[0] for x in body) else FAILED, "syntactic", 0, "", kind="structural")
    r.assumptions += ["TOTAL_TIME reads initial_total_time + rate_sim_time (PBasic.cpp; checked textually below)", "kin_time is the step handed to run_reactions in the same iteration"]
    pb = src("src/phreeqcpp/PBasic.cpp").decode("latin1")
    r.add("TOTAL_TIME.reads_initial_total_time+rate_sim_time", DISCHARGED if "PhreeqcPtr->initial_total_time + PhreeqcPtr->rate_sim_time" in pb else FAILED, "syntactic", 0, "", kind="structural")
    return r
