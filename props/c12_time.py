"""C12: time bookkeeping.  (a) the CVODE restart loop of run_reactions keeps  elapsed + remaining == requested  (loop iteration
contract); (b) the step drivers advance rate_sim_time by the step just integrated (cumulative when INCREMENTAL_REACTIONS);
(c) at the end of RUN_CELLS the clock that TOTAL_TIME reads (initial_total_time + rate_sim_time) is carried over."""
from props.common import *
from vf.core import FAILED, DISCHARGED, UNDECIDED

KIN = "src/phreeqcpp/kinetics.cpp"
MS = "src/phreeqcpp/mainsubs.cpp"
RC = "src/phreeqcpp/ReadClass.cxx"


def unit_cvode_restart(twin=False):
    q = "Phreeqc::run_reactions"
    fn = A.find_function(KIN, q)
    r = U.new_unit("C12.run_reactions.cvode_restart_keeps_elapsed+remaining==requested", KIN, q, fn)
    k = loop_ordinal(fn, KIN, cond_text="flag!=SUCCESS")
    f, ex, its, info = U.run_loop_isolated(KIN, q, k, ctx=ctx())
    n = 0
    for s in live(its, ("run", "cont")):
        cv = [e for e in U.iter_events(s) if e.name.split("::")[-1] == "CVode"]
        if not cv:
            continue
        n += 1
        sum0 = tm.sym("iter_sum_t", "R"); good = fld0(ex, s, "cvode_last_good_time", "R")
        tout = local(info, s, "tout")
        sum1 = local(info, s, "sum_t")
        U.discharge_eq_real(r, "restart.elapsed+=last_good_segment", list(s.pc), sum1, sum0 + good if not twin else good)
        U.discharge_eq_real(r, "restart.requested_remaining==tout-elapsed", list(s.pc), cv[-1].args[1], tout - sum1)
    r.add("reach.restart", DISCHARGED if n else UNDECIDED, "symex", 0, "%d paths reach the re-integration" % n, kind="vacuity")
    # after the integrator: rate_sim_time = rate_sim_time_start + (time integrated)
    for text, spec in (("rate_sim_time = rate_sim_time_start + t", "t"), ("rate_sim_time = rate_sim_time_start + kin_time", "kin_time")):
        sts = find_nodes(fn, KIN, lambda t, x: t == text.replace(" ", ""), kinds=("BinaryOperator",))
        r.add("clock.%s_present" % text.replace(" ", ""), DISCHARGED if sts else FAILED, "syntactic", 0, "%d" % len(sts), kind="structural")
    r.assumptions += ["CVode(mem, tout, y, &t, NORMAL) integrates from 0 towards tout and cvode_last_good_time is the part accomplished (bodies not under contract)",
                      "error exits (bad_step_max) are not pinned"]
    return r


def unit_step_clock(twin=False):
    r = U.new_unit("C12.step_drivers.clock_advances_by_the_step_integrated", MS, "Phreeqc::reactions", A.find_function(MS, "Phreeqc::reactions"))
    n = 0
    for rel, q in ((MS, "Phreeqc::reactions"), (RC, "Phreeqc::run_as_cells")):
        fn = A.find_function(rel, q)
        # located by effect (the branch that advances the start of the step clock), not by the condition, so a changed condition is decided
        ifs = find_nodes(fn, rel, lambda t, x: len(x["inner"]) >= 2 and "rate_sim_time_start+=" in text_of(rel, x["inner"][1]) and not any(
            y is not x and y.get("kind") == "IfStmt" and len(y["inner"]) >= 2 and "rate_sim_time_start+=" in text_of(rel, y["inner"][1]) for y in A.walk(x["inner"][1])), kinds=("IfStmt",))
        if not ifs:
            r.add("%s.clock_update_present" % q.split("::")[-1], FAILED, "syntactic", 0, ""); continue
        for j, st in enumerate(ifs):
            f, ex, fin, info = region(rel, q, [st])
            for s in live(fin):
                n += 1
                inc = tm.eq(fld0(ex, s, "incremental_reactions", "I"), tm.num(1, "I"))
                kt = local(info, s, "kin_time")
                new = fld(ex, s, "rate_sim_time", "R"); start0 = fld0(ex, s, "rate_sim_time_start", "R"); start1 = fld(ex, s, "rate_sim_time_start", "R")
                hy = list(s.pc)
                for hy, incremental in cases(hy, inc):
                    if incremental:
                        U.discharge_eq_real(r, "%s[%d].incremental.start+=step" % (q.split("::")[-1], j), hy, start1, start0 + kt)
                        U.discharge_eq_real(r, "%s[%d].incremental.elapsed==cumulative" % (q.split("::")[-1], j), hy, new, start0 + kt if not twin else kt)
                    else:
                        U.discharge_eq_real(r, "%s[%d].cumulative_steps.elapsed==step" % (q.split("::")[-1], j), hy, new, kt)
                        U.discharge_eq_real(r, "%s[%d].cumulative_steps.start_unchanged" % (q.split("::")[-1], j), hy, start1, start0)
    r.add("reach.clock_updates", DISCHARGED if n >= 4 else UNDECIDED, "symex", 0, "%d paths" % n, kind="vacuity")
    # end of RUN_CELLS: TOTAL_TIME (= initial_total_time + rate_sim_time) carries over
    fn = A.find_function(RC, "Phreeqc::run_as_cells")
    sts = find_nodes(fn, RC, lambda t, x: t.startswith("initial_total_time+="), kinds=("CompoundAssignOperator",))
    if len(sts) != 1:
        r.add("run_as_cells.clock_carried_over_once", FAILED, "syntactic", 0, "%d statements" % len(sts))
    else:
        f, ex, fin, info = region(RC, "Phreeqc::run_as_cells", [sts[0]])
        for s in live(fin):
            U.discharge_eq_real(r, "run_as_cells.initial_total_time+=elapsed(rate_sim_time)", list(s.pc), fld(ex, s, "initial_total_time", "R"),
                                fld0(ex, s, "initial_total_time", "R") + fld0(ex, s, "rate_sim_time", "R"))
        body = A.body_of(fn).get("inner", [])
        r.add("run_as_cells.carry_over_is_unconditional(top-level statement)", DISCHARGED if any(x is sts[0] for x in body) else FAILED, "syntactic", 0, "", kind="structural")
    r.assumptions += ["TOTAL_TIME reads initial_total_time + rate_sim_time (PBasic.cpp; checked textually below)", "kin_time is the step handed to run_reactions in the same iteration"]
    pb = src("src/phreeqcpp/PBasic.cpp").decode("latin1")
    r.add("TOTAL_TIME.reads_initial_total_time+rate_sim_time", DISCHARGED if "PhreeqcPtr->initial_total_time + PhreeqcPtr->rate_sim_time" in pb else FAILED, "syntactic", 0, "", kind="structural")
    return r


def unit_reactant_nonnegative(twin=False):
    """Reactant amounts never become negative (Runge-Kutta path): every stage sets m = m_temp[j] - moles with m_temp[j] the amount at
    the start of the sub-step, and calc_final_kinetic_reaction caps the reacted moles of component i at that same m_temp[i] (then
    m = 0) before adding them to the system — so m_temp - moles >= 0 and nothing is added that the reactant did not have."""
    import re
    q = "Phreeqc::calc_final_kinetic_reaction"
    fn = A.find_function(KIN, q)
    r = U.new_unit("C12.kinetics.reacted_moles_capped_at_amount_present", KIN, q, fn)
    cap = find_nodes(fn, KIN, lambda t, x: len(x["inner"]) >= 2 and "kinetics_comp_ptr->Set_moles(" in text_of(KIN, x["inner"][1]), kinds=("IfStmt",))      # by effect
    if len(cap) != 1:
        raise Undecided("cap statement of calc_final_kinetic_reaction not found (%d)" % len(cap))
    c = ctx(functional=("Get_moles",))
    f, ex, fin, info = region(KIN, q, [cap[0]], c)
    base = None
    n = 0
    for s in live(fin):
        sets = [e for e in s.events if e.name.endswith("Set_moles")]
        gm = [e.result for e in s.events if e.name.endswith("Get_moles")]
        if not sets:
            continue
        n += 1
        B_ = sets[0].args[0]
        base = B_
        U.discharge_valid(r, "cap.applies_when_moles_exceed_the_bound_it_sets", list(s.pc), tm.lt(B_, gm[0]) if gm else tm.FALSE)
        sm = [e for e in s.events if e.name.endswith("Set_m")]
        r.add("cap.reactant_left_with_zero", DISCHARGED if len(sm) == 1 and tm.isnum(sm[0].args[0]) and sm[0].args[0].args[0] == 0 else FAILED, "trace", 0, repr([e.args for e in sm])[:80], kind="trace")
        mt = tm.select(entry_arr(ex, s, ("m", "R")), tm.select(entry_arr(ex, s, ("f", "#vdata", "P")), tm.app("fld:m_temp", (THIS,), "P")), local(info, s, "i"))
        okb = B_ is mt and not twin
        r.add("cap.bound_is_amount_at_start_of_the_substep(m_temp[i])", DISCHARGED if okb else FAILED, "symex", 0, repr(B_)[:160])
    r.add("reach.cap", DISCHARGED if n == 1 else UNDECIDED, "symex", 0, "%d" % n, kind="vacuity")
    # every stage of rk_kinetics: m = m_temp[j] - moles
    fr = A.find_function(KIN, "Phreeqc::rk_kinetics")
    t = text_of(KIN, fr)
    sites = re.findall(r"kinetics_comp_ptr->Set_m\(([^;]*?)-kinetics_comp_ptr->Get_moles\(\)\);", t)
    r.add("stages.m==m_temp[j]-moles_at_every_stage", DISCHARGED if len(sites) >= 8 and all(x == "m_temp[j]" for x in sites) else FAILED, "syntactic", 0, "%d sites: %r" % (len(sites), sorted(set(sites))), kind="structural")
    r.add("stages.m_temp_taken_from_current_amount_at_step_start", DISCHARGED if "m_temp[j]=kinetics_comp_ptr->Get_m();" in t else FAILED, "syntactic", 0, "", kind="structural")
    r.assumptions += ["CVODE path (cvode_update_reactants) is not under this contract", "two text anchors in rk_kinetics"]
    return r


def unit_reactions_driver(twin=False):
    """Phreeqc::reactions, the batch-reaction step driver: the number of steps is the largest step count of the reactants in use (at least 1);
    both step clocks start at zero; each step starts from the saved initial state unless INCREMENTAL_REACTIONS (then from the previous step's
    result), asks the kinetics block for THIS step's time (Current_step(incremental, step)), mixes only where a fresh start is made, runs the
    reactions on the scratch copy -2 with that time, and saves the result back for the next step (not after the last one)."""
    q = "Phreeqc::reactions"
    fn = A.find_function(MS, q)
    r = U.new_unit("C12.reactions.step_driver", MS, q, fn)
    getters = ("Get_reaction_in", "Get_reaction_ptr", "Get_reaction_steps", "Get_kinetics_in", "Get_kinetics_ptr", "Get_temperature_in", "Get_temperature_ptr", "Get_countTemps",
               "Get_pressure_in", "Get_pressure_ptr", "Get_count", "Rxn_find", "Current_step", "set_use")
    c = ctx(functional=getters)
    f, ex, its, info = U.run_loop_isolated(MS, q, 0, ctx=c)
    step = tm.sym("iter_reaction_step", "I") if "reaction_step" in info["names"] else None
    n = 0
    for s in live(its, ("run", "cont")):
        n += 1
        if n > 12:
            break
        evs = list(U.iter_events(s))
        inc = tm.eq(fld0(ex, s, "incremental_reactions", "I"), tm.num(1, "I"))
        s.pc = list(s.pc) + [tm.or_(inc, tm.eq(fld0(ex, s, "incremental_reactions", "I"), tm.num(0, "I")))]       # the switch is TRUE or FALSE (type invariant of the flag)
        stp = fld0(ex, s, "reaction_step", "I")
        names = [e.name.split("::")[-1] for e in evs]
        rr = [e for e in evs if e.name.endswith("run_reactions")]
        if len(rr) != 1:
            r.add("step.reactions_run_once#%d" % n, FAILED, "trace", 0, repr(names)); continue
        a = rr[0].args
        r.add("step.runs_on_the_scratch_copy(-2)_with_full_step_fraction#%d" % n, DISCHARGED if tm.isnum(a[0]) and a[0].args[0] == -2 and tm.isnum(a[3]) and a[3].args[0] == 1 else FAILED, "trace", 0, repr(a)[:120])
        cs = [e for e in evs if e.name.endswith("Current_step")]
        kin_in = [e for e in evs if e.name.endswith("Get_kinetics_in")]
        if cs:
            okc = len(cs) == 1 and a[1] is cs[0].result and cs[0].args[1] is stp and B.z3_prove(list(s.pc), tm.eq(tm.to_bool(cs[0].args[0]), inc))[0] == "proved"
            r.add("step.time_is_Current_step(incremental,this_step)#%d" % n, DISCHARGED if okc else FAILED, "trace", 0, repr(cs[0].args)[:120])
            rf = [e for e in evs if e.name.endswith("Rxn_find")]
            okf = len(rf) == 1 and cs[0].recv is rf[0].result and tm.isnum(rf[0].args[-1]) and rf[0].args[-1].args[0] == -2
            r.add("step.kinetics_block_is_the_scratch_copy(-2)#%d" % n, DISCHARGED if okf else FAILED, "trace", 0, repr([e.args for e in rf])[:120])
        else:
            r.add("step.no_kinetics_no_time#%d" % n, DISCHARGED if tm.isnum(a[1]) and a[1].args[0] == 0 else FAILED, "trace", 0, repr(a[1])[:60])
        fresh = tm.or_(tm.not_(inc), tm.eq(stp, tm.num(1, "I")))
        for hy, fr in cases(list(s.pc), fresh if not twin else tm.not_(inc)):
            okm = tm.isnum(a[2]) and a[2].args[0] == (1 if fr else 0)
            r.add("step.%s#%d" % ("fresh_start_mixes" if fr else "continued_step_does_not_mix_again", n), DISCHARGED if okm else FAILED, "symex", 0, repr(a[2]))
        restart = tm.and_(tm.lt(tm.num(1, "I"), stp), tm.not_(inc))
        cu = [e for e in evs[:evs.index(rr[0])] if e.name.endswith("copy_use")]
        for hy, rs in cases(list(s.pc), restart):
            if rs:
                r.add("step.later_non_incremental_step_restarts_from_the_saved_state#%d" % n, DISCHARGED if len(cu) == 1 and tm.isnum(cu[0].args[0]) and cu[0].args[0].args[0] == -2 else FAILED, "trace", 0, repr(names)[:120])
            else:
                r.add("step.first_or_incremental_step_continues#%d" % n, DISCHARGED if not cu else FAILED, "trace", 0, repr(names)[:120])
        sv = [e for e in evs[evs.index(rr[0]):] if e.name.endswith("saver")]
        cnt = local(info, s, "count_steps")
        for hy, more in cases(list(s.pc), tm.lt(stp, cnt)):
            r.add("step.%s#%d" % ("result_saved_for_the_next_step" if more else "last_step_not_saved_here", n), DISCHARGED if len(sv) == (1 if more else 0) else FAILED, "trace", 0, repr(names)[-80:])
    r.add("reach.steps", DISCHARGED if n >= 4 else UNDECIDED, "symex", 0, str(n), kind="vacuity")
    # before the loop: step count and clocks
    fn2, ex2, fin, info2 = U.run_function(MS, q, modes={0: "skip"}, ctx=ctx(functional=getters))
    m = 0
    for s in live(fin, ("ret", "run")):
        if not any(e.name.endswith("copy_use") for e in s.events):
            continue                                   # set_use() == FALSE: nothing to do
        m += 1
        if m > 16:
            break
        cnt = s.locals.get(info2["names"]["count_steps"])
        E = lambda nm: [e for e in s.events if e.name.endswith(nm)]
        def part(inn, ptr, cntname):
            a, b, c_ = E(inn), E(ptr), E(cntname)
            if not a:
                return None
            use_it = tm.eq(a[0].result, tm.num(1, "I"))
            if b:
                use_it = tm.and_(use_it, tm.not_(tm.eq(b[0].result, tm.NULL)))
            return use_it, (c_[0].result if c_ else None)
        parts = [part("Get_reaction_in", "Get_reaction_ptr", "Get_reaction_steps"), part("Get_temperature_in", "Get_temperature_ptr", "Get_countTemps"), part("Get_pressure_in", "Get_pressure_ptr", "Get_count")]
        hy = list(s.pc)
        U.discharge_valid(r, "count.at_least_one_step#%d" % m, hy, tm.le(tm.num(1, "I"), cnt))
        for k_, p_ in enumerate(parts):
            if p_ is None or p_[1] is None:
                continue
            if B.z3_prove(hy, p_[0])[0] == "proved":
                U.discharge_valid(r, "count.not_below_the_steps_of_reactant_%d#%d" % (k_, m), hy, tm.le(p_[1], cnt))
        U.discharge_eq_real(r, "clock.start_of_step_clock==0#%d" % m, hy, fld(ex2, s, "rate_sim_time_start", "R"), tm.num(0))
        U.discharge_eq_real(r, "clock.elapsed==0#%d" % m, hy, fld(ex2, s, "rate_sim_time", "R"), tm.num(0))
        U.discharge_valid(r, "count.published(count_total_steps)#%d" % m, hy, tm.eq(fld(ex2, s, "count_total_steps", "I"), cnt))
    r.add("reach.prologue", DISCHARGED if m >= 4 else UNDECIDED, "symex", 0, str(m), kind="vacuity")
    r.assumptions += ["the getters of `use` and of the reactant blocks are pure", "kinetics step count (Get_kinetics_ptr()->Get_reaction_steps()) shares the getter name with REACTION's and is covered by the same bound",
                      "run_reactions / saver / copy_use / set_initial_moles are opaque calls here", "the step clock updates after run_reactions are C12.step_drivers.clock_advances..."]
    return r


def unit_reaction_added_once(twin=False):
    """run_reactions, stiff branch: the irreversible REACTION (and the mix) of the step is applied once - by the equilibration BEFORE the
    integration, with the step fraction given; every equilibration that follows the CVode call distributes the integrated kinetic moles
    only: no mixing and step fraction 0"""
    q = "Phreeqc::run_reactions"
    fn = A.find_function(KIN, q)
    r = U.new_unit("C12.run_reactions.reaction_and_mix_applied_once_before_the_stiff_integration", KIN, q, fn)
    calls = []
    for x in A.walk(fn):
        if x.get("kind") in ("CallExpr", "CXXMemberCallExpr"):
            t = text_of(KIN, x)
            m = re.match(r"^(set_and_run_wrapper|CVode)\((.*)\)$", t)
            if m:
                b, _e = A.src_range_text(x)
                calls.append((b, m.group(1), [a.strip() for a in m.group(2).split(",")]))
    calls.sort()
    cv = [k for k, c_ in enumerate(calls) if c_[1] == "CVode"]
    if not cv:
        raise Undecided("CVode call of run_reactions not found")
    before = [c_ for c_ in calls[:cv[0]] if c_[1] == "set_and_run_wrapper"]
    after = [c_ for c_ in calls[cv[0]:] if c_[1] == "set_and_run_wrapper"]
    pre = [c_ for c_ in before if len(c_[2]) == 5 and c_[2][4] == "step_fraction" and c_[2][2] == "FALSE"]
    r.add("before.equilibration_with_the_step_fraction_and_without_kinetics", DISCHARGED if len(pre) >= 2 else FAILED, "ast-scan", 0, repr([c_[2] for c_ in before])[:200], kind="structural")
    ok = bool(after) and all(len(c_[2]) == 5 and c_[2][1] == "NOMIX" and c_[2][4] in ("0", "0.", "0.0") for c_ in after)
    if twin:
        ok = ok and all(c_[2][4] == "step_fraction" for c_ in after)
    r.add("after.kinetic_moles_distributed_without_mix_and_with_step_fraction_0", DISCHARGED if ok else FAILED, "ast-scan", 0, repr([c_[2] for c_ in after])[:200], kind="structural")
    r.proved_kind = "structural"
    r.assumptions += ["calls are read in source order (the stiff branch follows the equilibration branches in run_reactions); the arguments are compared as text"]
    return r
