"""C20 (fifth wave): the species-type tests of all diffuse-layer sites of integrate.cpp select the SAME set.

The aqueous species placed in a diffuse layer are those of type AQ or HPLUS (type <= HPLUS, i.e. type < H2O): H+ included; water, e-,
exchange and surface species excluded.  Every loop over the aqueous species list s_x in g_function (the integrand of the excess integral and
its diagnostic twin), calc_all_g, calc_init_g, sum_diffuse_layer, calc_all_donnan and calc_init_donnan that tests the species type must act on
exactly that set: an iteration whose species has type > HPLUS does nothing, and an iteration for H+ does the work of the site.  In g_function
the integrand sum is pinned completely: sum += moles_i * (X^z_i - 1) (the tabulated psi_to_z of the record of charge z_i) iff the species is of
type <= HPLUS and charged."""
from props.common import *
from vf.core import FAILED, DISCHARGED, UNDECIDED

INT = "src/phreeqcpp/integrate.cpp"
SITES = ("g_function", "calc_all_g", "calc_init_g", "sum_diffuse_layer", "calc_all_donnan", "calc_init_donnan")


def _sx_loops(fn):
    loops = [x for x in A.walk(fn) if x.get("kind") in ("ForStmt", "WhileStmt", "DoStmt")]
    return [k for k, lp in enumerate(loops) if lp.get("kind") == "ForStmt" and "s_x.size()" in text_of(INT, lp["inner"][2])]


def _ivar(s):
    for c_ in s.pc[:1]:
        for t in tm.subterms(c_):
            if t.op == "sym" and str(t.args[0]).startswith("iter_"):
                return t
    return None


def _does_work(info, s, accs=()):
    if any(writes(s, k) for k in s.heap):
        return True
    if any(e.name != "iter_begin" for e in s.events):
        return True
    for a in accs:
        try:
            v = local(info, s, a)
        except KeyError:
            continue
        if not (v.op == "sym" and str(v.args[0]) in ("iter_" + a, "L_" + a)):
            return True
    return False


def unit_dl_species_set(twin=False):
    fn0 = A.find_function(INT, "Phreeqc::g_function")
    r = U.new_unit("C20.diffuse_layer.every_site_acts_on_the_same_species_set(type<=HPLUS,H+_included)", INT, "Phreeqc::g_function", fn0)
    ev = A.enum_values_compiled("global_structures.h", ["AQ", "HPLUS", "H2O"])
    ok_ids = ev.get("AQ") == 0 and ev.get("HPLUS") == 1 and ev.get("H2O") == 2
    r.add("types.AQ<HPLUS<H2O_are_consecutive(0,1,2)", DISCHARGED if ok_ids else FAILED, "compiled", 0, repr(ev), kind="structural")
    HPLUS = tm.num(ev["HPLUS"], "I")
    nsites = 0
    gsum = 0
    for name in SITES:
        q = "Phreeqc::" + name
        fn = A.find_function(INT, q)
        for k in _sx_loops(fn):
            c = stop_on_error_msg(ctx(functional=("pow", "exp", "log")))
            f, ex, its, info = U.run_loop_isolated(INT, q, k, ctx=c)
            lv = live(its, ("run", "cont", "brk", "ret", "throw"))
            if not any("type:I" in repr(c_) for s in lv for c_ in s.pc):
                r.add("site[%s.loop%d].no_type_test(all_species:not_a_selection_site)" % (name, k), DISCHARGED, "symex", 0, "", kind="trace")
                continue
            nsites += 1
            lab = "site[%s.loop%d]" % (name, k)
            accs = ("sum", "sum1") if name == "g_function" else ()
            hplus_work = False
            for s in lv:
                iv = _ivar(s)
                if iv is None:
                    r.add(lab + ".induction_variable_read", UNDECIDED, "symex", 0, ""); continue
                sp = vec_elem(ex, s, "s_x", iv)
                ty = fld0(ex, s, "type", "I", sp)
                z = fld0(ex, s, "z", "R", sp)
                work = _does_work(info, s, accs)
                inset = tm.le(ty, HPLUS) if not (twin and name == "g_function") else tm.lt(ty, HPLUS)
                if name == "g_function":
                    inset = tm.and_(inset, tm.not_(tm.eq(z, tm.num(0))))
                for hy, member in cases(list(s.pc), inset):
                    if not member:
                        r.add(lab + ".a_species_outside_the_set_is_skipped(water,e-,exchange,surface%s)" % (",uncharged" if name == "g_function" else ""), DISCHARGED if not work else FAILED, "symex+z3", 0, "%s" % (s.pc[1:3],), kind="post")
                    elif name == "g_function":
                        r.add(lab + ".a_charged_species_of_type<=HPLUS_is_summed", DISCHARGED if work else FAILED, "symex+z3", 0, "%s" % (s.pc[1:3],), kind="post")
                if work and B.z3_sat(list(s.pc) + [tm.eq(ty, HPLUS), tm.not_(tm.eq(z, tm.num(0)))]) == "sat":
                    hplus_work = True
                # the integrand itself
                if name == "g_function" and work:
                    d = local(info, s, "sum") - tm.sym("iter_sum", "R")
                    moles = fld0(ex, s, "moles", "R", sp)
                    gp = [e for e in s.events if e.name.endswith("Get_psi_to_z")]
                    pw = [e for e in s.events if e.name == "pow"]
                    if gp:
                        mo = [e for e in s.events if e.name == "map.operator[]"]
                        key_ok = len(mo) == 1 and len(gp) == 1 and any(t is z for t in tm.subterms(mo[0].args[0])) and repr(mo[0].args[0]) in repr(gp[0].recv)
                        r.add(lab + ".excess_factor_is_read_from_the_record_of_the_species'_own_charge", DISCHARGED if key_ok else FAILED, "symex", 0, "%r" % (mo[0].args[0] if mo else None,))
                        U.discharge_eq_real(r, lab + ".sum+=moles_i*psi_to_z(z_i)", list(s.pc), d, moles * gp[0].result)
                        gsum += 1
                    elif pw:
                        U.discharge_eq_real(r, lab + ".diagnostic_sum+=moles_i*(X^z_i-1)", list(s.pc), d, moles * (pw[0].result - tm.num(1)))
                        ok_arg = pw[0].args[0] is tm.sym("L_x_value", "R") and pw[0].args[1] is z
                        r.add(lab + ".diagnostic_power_is_X^z_i", DISCHARGED if ok_arg else FAILED, "symex", 0, "%r" % (pw[0].args,))
                        U.discharge_eq_real(r, lab + ".diagnostic_charge_sum+=moles_i*z_i", list(s.pc), local(info, s, "sum1") - tm.sym("iter_sum1", "R"), moles * z)
                        gsum += 1
                    else:
                        r.add(lab + ".term_understood", FAILED, "symex", 0, "%r" % (d,))
            r.add(lab + ".H+_is_placed_in_the_diffuse_layer(an_iteration_for_type==HPLUS_does_the_work)", DISCHARGED if hplus_work else FAILED, "z3.sat", 0, "", kind="post")
    r.add("reach.sites(7_selection_loops_in_6_functions)", DISCHARGED if nsites >= 7 else UNDECIDED, "symex", 0, "%d" % nsites, kind="vacuity")
    r.add("reach.g_function_terms", DISCHARGED if gsum >= 2 else UNDECIDED, "symex", 0, "%d" % gsum, kind="vacuity")
    r.assumptions += ["the sites are the loops bounded by s_x.size() in the six functions whose iteration tests the species type; a loop without a type test (calc_init_donnan: zeroing g_moles of every species) is not a selection site",
                      "doing nothing = no store to memory, no call, accumulators sum / sum1 unchanged", "an iteration of the set may still do nothing for another reason (its charge already has a record): only H+-reachability of the work is demanded there",
                      "psi_to_z of a record was set to X^z - 1 by the loop in front (unit C20.calc_all_g.*)", "doubles as reals; pow uninterpreted"]
    return r


UNITS = [("C20.diffuse_layer.every_site_acts_on_the_same_species_set(type<=HPLUS,H+_included)", unit_dl_species_set)]
