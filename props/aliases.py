"""Units that decide an obligation of more than one property are listed once more under the other property's id (same contract, same code,
own evidence line): property id -> [(unit id under that property, module, function, positional arguments)]."""
ALIASES = {
    "C11": [("C11.add_solution.scalar_accumulators_use_the_extensive_fraction", "props.C02", "unit_add_solution_scalars", ()),
            ("C11.add_solution.element_totals_loop", "props.C02", "unit_add_solution_totals", ()),
            ("C11.add_mix.mixing_loop", "props.C02", "unit_add_mix_loop", ())],
    "C09": [("C09.entry.RunString.files_opened_before_anything_is_reported", "props.C04", "unit_run_entry", ("RunString",)),
            ("C09.entry.RunFile.files_opened_before_anything_is_reported", "props.C04", "unit_run_entry", ("RunFile",)),
            ("C09.entry.RunAccumulated.files_opened_before_anything_is_reported", "props.C04", "unit_run_entry", ("RunAccumulated",))],
    "C07": [("C07.compute_gfw.formula_weight_cache_emptied_when_a_database_is_read", "props.c15_more", "unit_gfw_cache", ())],
}
