"""Units that decide an obligation of more than one property are listed once more under the other property's id (same contract, same code,
own evidence line): property id -> [(unit id under that property, module, function, positional arguments)]."""
ALIASES = {
    "C11": [("C11.add_solution.scalar_accumulators_use_the_extensive_fraction", "props.C02", "unit_add_solution_scalars", ()),
            ("C11.add_solution.element_totals_loop", "props.C02", "unit_add_solution_totals", ()),
            ("C11.add_mix.mixing_loop", "props.C02", "unit_add_mix_loop", ())],
    "C09": [("C09.entry.RunString.files_opened_before_anything_is_reported", "props.C04", "unit_run_entry", ("RunString",)),
            ("C09.entry.RunFile.files_opened_before_anything_is_reported", "props.C04", "unit_run_entry", ("RunFile",)),
            ("C09.entry.RunAccumulated.files_opened_before_anything_is_reported", "props.C04", "unit_run_entry", ("RunAccumulated",))],
    "C07": [("C07.compute_gfw.formula_weight_cache_emptied_when_a_database_is_read", "props.c15_more", "unit_gfw_cache", ())],
}

# (unit id under this property, source property, source unit id)
ALIASES_BY_ID = {
    "C09": [("C09.open_output_files.each_switch_reopens_exactly_its_own_stream_on_its_own_file", "C04", "C04.open_output_files.each_switch_reopens_exactly_its_own_stream_on_its_own_file"),
            ("C09.check_database.per_call_views_cleared_before_the_run", "C04", "C04.check_database.per_call_reset_frame"),
            ("C09.rows.each_definition_through_its_own_stream_and_user_punch", "C05", "C05.rows.each_definition_through_its_own_stream_and_user_punch"),
            ("C09.ofstream_open.pointer_replaced_only_on_success", "C08", "C08.ofstream_open.pointer_replaced_only_on_success")],
    "C13": [("C13.load_db.switches_restored_after_the_load", "C07", "C07.load_db.old_state_discarded_before_the_new_database_is_read")],
    "C08": [("C08.load_db.errors_counted_and_state_discarded", "C07", "C07.load_db.old_state_discarded_before_the_new_database_is_read"),
            ("C08.check_database.error_views_describe_this_call_only", "C04", "C04.check_database.per_call_reset_frame")],
}

# (this property, source property, regular expression over the source unit id): every matching unit of the source runs once more under this
# property's id (prefix replaced).  These are units on functions that the anchors of BOTH properties name.
ALIAS_RULES = [
    ("C02", "C01", r"\.(sum_species|residuals\.row_equations|build_model\.|build_mb_sums|store_mb|mb_sums|trxn_add)"),
    ("C02", "C14", r"\.saver\."),
    ("C02", "C12", r"\.(calc_final_kinetic_reaction|rk_kinetics\.m_decreases|run_reactions\.reaction_and_mix)"),
    ("C20", "C10", r"\.keys\.cxxSurface"),
    ("C03", "C10", r"\.keys\.cxx(PPassemblage|SS)"),
    ("C03", "C02", r"\.(reset\.mineral_transfer|add_pp_assemblage\.amount|add_ss_assemblage\.amount|xpp_assemblage_save|xss_assemblage_save)"),
    ("C03", "C01", r"\.check_residuals\."),
    ("C04", "C12", r"\.(reactions\.step_driver|step_drivers\.)"),
    ("C04", "C14", r"\.(saver\.|copy_entities|delete_entities|run_as_cells|copy_use)"),
    ("C04", "C10", r"\.(dump_entities|dump_ostream)"),
    ("C05", "C04", r"\.tidy_punch"),
    ("C05", "C17", r"\.cmdpunch"),
    ("C08", "C01", r"\.check_residuals\."),
    ("C08", "C17", r"\.errormsg"),
    ("C08", "C09", r"\.lines\.rebuilt_from_scratch"),
    ("C08", "C10", r"\.dump_ostream\."),
    ("C08", "C16", r"\.pitzer_tidy\.undefined_third_species"),
    ("C09", "C04", r"\.(close_output_files|safe_close)"),
    ("C09", "C05", r"\.punch\.(IPhreeqc_punch_msg|IPhreeqc_fpunchf|PHRQ_io_fpunchf)"),
    ("C10", "C14", r"\.(Rxn_read_raw|Rxn_read_modify|SB_read_modify|read_input\.RAW_MODIFY|StorageBin\.)"),
    ("C12", "C14", r"\.run_as_cells"),
    ("C13", "C14", r"\.IPhreeqc\.components"),
    ("C13", "C05", r"\.counts\.of_the_table"),
    ("C13", "C09", r"\.(strings\.each_view|lines\.GetSelectedOutputStringLine)"),
    ("C14", "C10", r"\.(dump_ostream\.|dump_entities|phreeqc2cxxStorageBin|cxxStorageBin2phreeqc)"),
    ("C15", "C02", r"\.(add_solution\.|add_mix\.|NameDouble\.add_extensive)"),
    ("C16", "C01", r"\.species_readouts\.LA"),
    ("C17", "C05", r"\.user_punch\."),
    ("C17", "C12", r"\.calc_kinetic_reaction"),
    ("C19", "C02", r"\.(xgas_save|add_gas_phase)"),
    ("C19", "C03", r"\.mb_gases"),
    ("C20", "C01", r"\.build_model\.species_wired_by_kind"),
    ("C20", "C03", r"\.(check_residuals\.SURFACE|setup_surface)"),
    ("C20", "C02", r"\.(xsurface_save|add_surface\.|mb_for_species)"),
    ("C11", "C14", r"\.set_advection"),
    ("C07", "C13", r"\.defaults\.initial_settings"),
    ("C01", "C15", r"\.convert_units\."),
]
