"""C01 ext: SELECTED_OUTPUT columns -totals / -molalities / -activities / -saturation_indices (print.cpp).  For every requested item j the value
punched under the heading of item j is the model quantity OF THAT ITEM: total/kgw, moles/kgw, log activity, SI = IAP - log K; an item that
is unknown or not in the model gives the documented filler (0 / -999.999)."""
from props.c01_ext_util import *

PR = "src/phreeqcpp/print.cpp"
FUN = ("Get_totals", "Get_molalities", "Get_activities", "Get_si", "Get_high_precision", "c_str", "strncmp", "log_activity")


def _iter(q, inner=None):
    c = ctx(functional=FUN)
    f, ex, its, info = run_iter(PR, q, 0, c, inner_modes=inner)
    return f, ex, lives(its, ("run", "cont")), info


def _slot(ex, s, getter):
    cso = fld0(ex, s, "current_selected_output", "P")
    vec = tm.app("call:" + getter, (cso,), "P")
    iv = [v for v in s.locals.values() if v is not None and not isinstance(v, tuple) and v.op == "sym" and str(v.args[0]).startswith("iter_") and v.sort == "I"]
    for j in iv:
        slot = tm.select(entry_arr(ex, s, ("f", "#vdata", "P")), vec) + j
        if slot in set(tm.subterms(tm.and_(*s.pc))) or any(slot in tm.subterms(a) for e in U.iter_events(s) for a in e.args if a is not None and not isinstance(a, tuple)):
            return j, slot, vec
    raise Undecided("item slot of %s not recognised" % getter)


def _punched(r, tag, ex, s, slot):
    """the single fpunchf of the iteration: (value, ok) ; heading built from the NAME of item j"""
    fp = events(s, "fpunchf")
    if not put(r, "%s.one_value_punched_per_item" % tag, len(fp) == 1, "%d" % len(fp), kind="trace"):
        return None
    e = fp[0]
    sf = [x for x in events(s, "sformatf") if x.result is e.args[0]]
    name = tm.app("c_str", (fld0(ex, s, "first", "S", slot),), "P")
    put(r, "%s.heading_is_built_from_the_name_of_the_same_item" % tag, len(sf) == 1 and any(a is name for a in sf[0].args[1:]), repr([x.args for x in sf])[:200], kind="trace")
    return e.args[2]


def _bound(r, tag, ex, s, j, vec):
    b = [p for p in s.pc if j in tm.subterms(p) and "#vsize" in repr(p)]
    valid(r, "%s.loop_covers_every_requested_item" % tag, [], tm.eq(tm.to_bool(b[0]) if b else tm.FALSE, tm.lt(j, tm.select(entry_arr(ex, s, ("f", "#vsize", "I")), vec))), kind="establishment")


def unit_punch_molalities(twin=False):
    q = "Phreeqc::punch_molalities"
    f, ex, its, info = _iter(q)
    r = U.new_unit("C01.punch_molalities.value_is_moles_per_kgw_of_the_item's_species", PR, q, f)
    n = {True: 0, False: 0}
    for k, s in enumerate(its):
        j, slot, vec = _slot(ex, s, "Get_molalities")
        if k == 0:
            _bound(r, "molalities", ex, s, j, vec)
        v = _punched(r, "molalities", ex, s, slot)
        if v is None:
            continue
        sp = fld0(ex, s, "second", "P", slot)
        present = tm.and_(nonnull(sp), tm.eq(fld0(ex, s, "in", "I", sp), I(1)))
        for hyc, pres in cases(list(s.pc), present):
            n[pres] += 1
            if pres:
                eqr(r, "molalities.in_model=>moles/mass_of_water", hyc, v, fld0(ex, s, "moles", "R", sp) / fld0(ex, s, "mass_water_aq_x", "R") if not twin else fld0(ex, s, "moles", "R", sp))
            else:
                valid(r, "molalities.unknown_or_not_in_model=>0", hyc, tm.eq(v, tm.num(0)))
    put(r, "reach.both_cases", n[True] >= 1 and n[False] >= 1, repr(n), kind="vacuity", undecided=True)
    r.assumptions += ["SelectedOutput::Get_molalities() returns the (name, species*) list filled by tidy_punch (not under contract)", "fpunchf(heading, format, value) writes value into the column named heading (C05)", "doubles as reals"]
    return r


def unit_punch_activities(twin=False):
    q = "Phreeqc::punch_activities"
    f, ex, its, info = _iter(q)
    r = U.new_unit("C01.punch_activities.value_is_log_activity_of_the_item's_species", PR, q, f)
    n = {True: 0, False: 0}
    for k, s in enumerate(its):
        j, slot, vec = _slot(ex, s, "Get_activities")
        if k == 0:
            _bound(r, "activities", ex, s, j, vec)
        v = _punched(r, "activities", ex, s, slot)
        if v is None:
            continue
        sp = fld0(ex, s, "second", "P", slot)
        present = tm.and_(nonnull(sp), tm.eq(fld0(ex, s, "in", "I", sp), I(1)))
        name = tm.app("c_str", (fld0(ex, s, "first", "S", slot),), "P")
        for hyc, pres in cases(list(s.pc), present):
            n[pres] += 1
            if pres:
                la = events(s, "log_activity")
                put(r, "activities.in_model=>log_activity(name of the same item)", len(la) == 1 and la[0].args[0] is name and v is la[0].result and not twin, repr([e.args for e in la]), kind="trace")
            else:
                valid(r, "activities.unknown_or_not_in_model=>-999.999", hyc, tm.eq(v, tm.Q("-999.999")))
    put(r, "reach.both_cases", n[True] >= 1 and n[False] >= 1, repr(n), kind="vacuity", undecided=True)
    r.assumptions += ["log_activity: units C01.species_readouts.*", "Get_activities(): list filled by tidy_punch (not under contract)"]
    return r


def unit_punch_totals(twin=False):
    q = "Phreeqc::punch_totals"
    f, ex, its, info = _iter(q)
    r = U.new_unit("C01.punch_totals.value_is_total_per_kgw_of_the_item's_master", PR, q, f)
    seen = set()
    for k, s in enumerate(its):
        j, slot, vec = _slot(ex, s, "Get_totals")
        if k == 0:
            _bound(r, "totals", ex, s, j, vec)
        v = _punched(r, "totals", ex, s, slot)
        if v is None:
            continue
        mp = fld0(ex, s, "second", "P", slot)
        mw = fld0(ex, s, "mass_water_aq_x", "R")
        name = tm.app("c_str", (fld0(ex, s, "first", "S", slot),), "P")
        for hyc, known in cases(list(s.pc), nonnull(mp)):
            if not known:
                seen.add("unknown"); valid(r, "totals.unknown_element=>0", hyc, tm.eq(v, tm.num(0))); continue
            for h2, prim in cases(hyc, tm.eq(fld0(ex, s, "primary", "I", mp), I(1))):
                if not prim:
                    seen.add("secondary"); eqr(r, "totals.valence_state=>its_total/mass_of_water", h2, v, fld0(ex, s, "total", "R", mp) / mw)
                    continue
                alk = [e for e in events(s, "strncmp") if e.args[0] is name and "Alkalinity" in repr(e.args[1])]
                if not put(r, "totals.primary.alkalinity_recognised_by_the_item's_name", len(alk) == 1, repr([e.args for e in events(s, "strncmp")])[:200], kind="trace"):
                    continue
                for h3, isalk in cases(h2, tm.eq(alk[0].result, I(0))):
                    if isalk:
                        seen.add("alk"); eqr(r, "totals.Alkalinity=>total_alkalinity/mass_of_water", h3, v, fld0(ex, s, "total_alkalinity", "R") / mw)
                    else:
                        seen.add("primary"); eqr(r, "totals.element=>total_primary/mass_of_water", h3, v, fld0(ex, s, "total_primary" if not twin else "total", "R", mp) / mw)
    put(r, "reach.four_cases", seen == {"unknown", "secondary", "alk", "primary"}, repr(sorted(seen)), kind="vacuity", undecided=True)
    r.assumptions += ["Get_totals(): (name, master*) list filled by tidy_punch (not under contract)", "total / total_primary / total_alkalinity are the sums of sum_species (C01.sum_species)", "doubles as reals"]
    return r


def unit_punch_si(twin=False):
    q = "Phreeqc::punch_saturation_indices"
    f, ex, its, info = _iter(q, inner={1: "iter"})
    r = U.new_unit("C01.punch_saturation_indices.value_is_IAP-logK_of_the_item's_phase", PR, q, f)
    n = {True: 0, False: 0}
    for k, s in enumerate(its):
        j, slot, vec = _slot(ex, s, "Get_si")
        if k == 0:
            _bound(r, "si", ex, s, j, vec)
        v = _punched(r, "si", ex, s, slot)
        if v is None:
            continue
        ph = fld0(ex, s, "second", "P", slot)
        present = tm.and_(nonnull(ph), tm.not_(tm.eq(fld0(ex, s, "in", "I", ph), I(0))))
        for hyc, pres in cases(list(s.pc), present):
            n[pres] += 1
            if pres:
                iap = local(info, s, "iap")
                put(r, "si.in_model.IAP_is_the_sum_of_the_walk", iap.op == "sym" and "havoc" in str(iap.args[0]), repr(iap))
                eqr(r, "si.in_model=>IAP-logK_of_THE_phase", hyc, v, iap - fld0(ex, s, "lk", "R", ph) if not twin else iap + fld0(ex, s, "lk", "R", ph))
            else:
                valid(r, "si.unknown_or_not_in_model=>-999.999", hyc, tm.eq(v, tm.Q("-999.999")))
    put(r, "reach.both_cases", n[True] >= 1 and n[False] >= 1, repr(n), kind="vacuity", undecided=True)
    # the walk
    m = 0
    for s in lives(info["inner_iters"].get(1, []), ("run", "cont")):
        m += 1
        rp = tm.sym("iter_rxn_ptr", "P")
        la = fld0(ex, s, "la", "R", fld0(ex, s, "s", "P", rp)); co = fld0(ex, s, "coef", "R", rp)
        eqr(r, "walk.iap+=coef*la_of_the_token's_species", list(s.pc), local(info, s, "iap"), tm.sym("iter_iap", "R") + co * la)
        b = [p for p in s.pc if rp in tm.subterms(p)]
        valid(r, "walk.ends_at_the_null_species", [], tm.eq(tm.to_bool(b[-1]) if b else tm.FALSE, nonnull(fld0(ex, s, "s", "P", rp))), kind="establishment") if m == 1 else None
    put(r, "reach.walk", m >= 1, "%d" % m, kind="vacuity", undecided=True)
    ent = info["inner_entries"].get(1, [])
    for s in ent[:1]:
        v0 = local(info, s, "iap")
        put(r, "walk.IAP_starts_from_0", tm.isnum(v0) and v0.args[0] == 0, repr(v0), kind="establishment")
    lp = loops_of(f)[1]
    f2, ex2, fin2, info2 = region(PR, q, [lp["inner"][0]], ctx(functional=FUN))
    for s in lives(fin2):
        v = local(info2, s, "rxn_ptr")
        iv = tm.sym("L_i", "I")
        cso = fld0(ex2, s, "current_selected_output", "P")
        slot = tm.select(entry_arr(ex2, s, ("f", "#vdata", "P")), tm.app("call:Get_si", (cso,), "P")) + iv
        ph = fld0(ex2, s, "second", "P", slot)
        want = tm.select(entry_arr(ex2, s, ("f", "#vdata", "P")), tm.app("fld:token", (tm.app("fld:rxn_x", (ph,), "P"),), "P")) + I(1)
        if proved(list(s.pc), tm.eq(v, want)):
            put(r, "walk.starts_at_token_1_of_rxn_x_of_THE_item's_phase", True, "", kind="establishment")
        else:
            # the induction variable may have another name: accept any L_<name> index of the same shape
            okv = any(proved(list(s.pc), tm.eq(v, tm.substitute(want, {iv: t}))) for t in tm.subterms(v) if t.op == "sym" and t.sort == "I" and str(t.args[0]).startswith("L_"))
            put(r, "walk.starts_at_token_1_of_rxn_x_of_THE_item's_phase", okv, repr(v)[:200], kind="establishment")
    drop_head(q, 1)
    r.assumptions += ["Get_si(): (name, phase*) list filled by tidy_punch (not under contract)", "phase->lk is log K(T,P) of rxn_x (C01.iap_logk_pairing)", "doubles as reals"]
    return r


UNITS = [
    ("C01.punch_molalities.value_is_moles_per_kgw_of_the_item's_species", unit_punch_molalities),
    ("C01.punch_activities.value_is_log_activity_of_the_item's_species", unit_punch_activities),
    ("C01.punch_totals.value_is_total_per_kgw_of_the_item's_master", unit_punch_totals),
    ("C01.punch_saturation_indices.value_is_IAP-logK_of_the_item's_phase", unit_punch_si),
]
