"""C08 (third helper wave): subscripts, element counts and fixed buffers that are computed from numbers or strings of the input text.

 * Phreeqc::read_line_LDBLEs (readtr.cpp; TRANSPORT -lengths / -dispersivities / -porosities `n*value`): every store `(*d)[k] = value` is inside
   the caller's block of *count_alloc elements; inductive invariant 0 <= *count_d <= *count_alloc.
 * PBasic::cmddim: the element count of a DIM is the mathematical product of its extents (no wrap-around) and the byte count handed to
   PHRQ_malloc is that product times the element size.
 * PBasic::stringexpr / stringfactor (char* destination): a string value of arbitrary length is copied into a caller's buffer of fixed size.
 * PBasic::cmdpoke / factor (PEEK): no memory access through an address that is a NUMBER of the BASIC program."""
from props.common import *
from vf.core import FAILED, DISCHARGED, UNDECIDED
from vf import core as _core
from props.c08_ext3_util import exact_exit_loop

PB = "src/phreeqcpp/PBasic.cpp"
RT = "src/phreeqcpp/readtr.cpp"
ZI = tm.num(0, "I")
LONG_MAX = tm.num(2 ** 63 - 1, "I")


def _short(e):
    return (getattr(e, "name", "") or "").split("::")[-1]


# --------------------------------------------------------------------------------------------------------------- read_line_LDBLEs
def unit_read_line_LDBLEs(twin=False):
    """one arbitrary pass of the token loop, started in a state in which the invariant holds: 0 <= *count_d <= *count_alloc, 1 <= *count_alloc,
    the block *d has *count_alloc elements.  Obligations: every PHRQ_realloc asks for exactly *count_alloc elements (so the invariant on the
    capacity is kept); every store through *d has an index k with 0 <= k < *count_alloc; the invariant holds again when the pass ends."""
    q = "Phreeqc::read_line_LDBLEs"
    fn = A.find_function(RT, q)
    r = U.new_unit("C08.read_line_LDBLEs.repeated_values_are_stored_inside_the_callers_array", RT, q, fn)
    loops = [x for x in A.walk(fn) if x.get("kind") in ("ForStmt", "WhileStmt", "DoStmt")]
    outer = [k for k, l in enumerate(loops) if not any(o is not l and any(y is l for y in A.walk(o)) for o in loops)]
    if len(outer) != 1:
        raise Undecided("read_line_LDBLEs: one outer token loop expected, found %d" % len(outer))
    c = ctx(functional=())
    c.log_stores = True
    collect = {}
    c.loop = exact_exit_loop(collect)
    def h_scan(ex_, st, n, name, recv, args):
        """sscanf writes the objects its pointer arguments designate: arbitrary values afterwards"""
        res = SX.fresh("ret_sscanf", "I")
        st.events.append(SX.Event(name, recv, args, res, n))
        for a in args[2:]:
            if isinstance(a, tm.T) and a.sort == "P":
                for so in ("I", "R"):
                    key = ("m", so)
                    st.heap[key] = tm.store(ex_.heap_arr(st, key), (a, ZI), SX.fresh("scanned", so))
        return [(st, res)]
    c.handlers["sscanf"] = h_scan
    params = A.params_of(fn)
    if len(params) != 4:
        raise Undecided("read_line_LDBLEs: 4 parameters expected")
    pd, pcd, pca = [tm.sym("L_%s" % p["name"], "P") for p in params[1:]]
    def prepare(ex_, s_, info):
        cd = tm.select(ex_.heap_arr(s_, ("m", "I")), pcd, ZI)
        ca = tm.select(ex_.heap_arr(s_, ("m", "I")), pca, ZI)
        s_.assume(tm.le(ZI, cd)); s_.assume(tm.le(cd, ca)); s_.assume(tm.le(tm.num(1, "I"), ca))
        s_.assume(tm.not_(tm.eq(pcd, pca)))
    fn_, ex, res, info = U.run_loop_isolated(RT, q, outer[0], ctx=c, prepare=prepare)
    # U.run_loop_isolated installs its own loop handler: run again with ours (exact exits)
    c.loop = exact_exit_loop(collect)
    res = ex.iterate_loop(info["node"], info["entry_state"].clone(), prepare=lambda ex_, s_: prepare(ex_, s_, info))
    states = [s for s in res] + [s for v in collect.values() for s in v]
    nst = nre = nend = 0
    # counters of `for (i = 0; i < ..; i++)` loops are not negative (decided on the AST of the loop head, not on its text)
    up_from_0 = set()
    for lp in loops:
        if lp.get("kind") != "ForStmt":
            continue
        init, inc = lp["inner"][0], lp["inner"][3]
        if init.get("kind") == "BinaryOperator" and init.get("opcode") == "=" and strip(init["inner"][1]).get("kind") == "IntegerLiteral" and strip(init["inner"][1]).get("value") == "0":
            v = strip(init["inner"][0])
            step_up = (inc.get("kind") == "UnaryOperator" and inc.get("opcode") == "++") or (inc.get("kind") == "CompoundAssignOperator" and inc.get("opcode") == "+=")
            if v.get("kind") == "DeclRefExpr" and step_up:
                up_from_0.add(v["referencedDecl"]["name"])
    def counters_nonneg(terms):
        out = []
        for t in terms:
            for y in tm.free_syms(t):
                nm = str(y.args[0])
                if nm.startswith("iter_") and nm[5:].split("@")[0] in up_from_0 and y.sort == "I":
                    out.append(tm.le(ZI, y))
        return out
    def sep(terms):
        """objects of the function (address-taken locals &L_x) are none of the caller's objects, and the callers' two counters are different objects"""
        objs = set()
        for t in terms:
            for y in tm.free_syms(t):
                if y.sort == "P" and str(y.args[0]).startswith("&L_"):
                    objs.add(y)
        objs = sorted(objs, key=repr) + [pcd, pca]
        return [tm.not_(tm.eq(a_, b_)) for i_, a_ in enumerate(objs) for b_ in objs[i_ + 1:]]
    V = {}
    def put(name, hy, goal, kind):
        if V.get(name) == "failed":
            return
        hy = list(hy) + sep(list(hy) + [goal])
        st = B.z3_prove(hy, goal)[0]
        V[name] = "ok" if st == "proved" else ("failed" if st == "refuted" else "unknown")
        if st != "proved":
            V[name + "#why"] = repr(goal)[:300]
    dname = params[1]["name"]
    for s in states:
        if B.z3_sat(list(s.pc)) == "unsat":
            continue
        ca_now = tm.select(ex.heap_arr(s, ("m", "I")), pca, ZI)
        for e in s.events:
            if e.name == "store" and e.recv is not None and e.recv.sort == "P" and e.recv.op == "select":
                base = e.recv
                # stores through *d: the base is the pointer READ from the caller's variable d
                if not any(y.op == "sym" and str(y.args[0]) == "L_%s" % dname for y in tm.subterms(base)):
                    continue
                k = e.args[0]
                nst += 1
                hy = list(s.pc) + counters_nonneg([k] + list(s.pc))
                put("store_through_d.index_is_not_negative", hy, tm.le(ZI, k), "safety")
                put("store_through_d.index_is_below_the_allocated_count", hy, tm.lt(k, ca_now) if not twin else tm.lt(k, ca_now - tm.num(1, "I")), "safety")
            if _short(e) == "PHRQ_realloc":
                nre += 1
                put("realloc.asks_for_count_alloc_elements", list(s.pc), tm.eq(e.args[1], tm.mul(ca_now, tm.num(8, "I"))), "safety")
    for s in res:
        if s.status not in ("run", "cont") or B.z3_sat(list(s.pc)) == "unsat":
            continue
        nend += 1
        cd1 = tm.select(ex.heap_arr(s, ("m", "I")), pcd, ZI)
        ca1 = tm.select(ex.heap_arr(s, ("m", "I")), pca, ZI)
        put("pass_end.count_of_values_stays_non_negative", list(s.pc), tm.le(ZI, cd1), "preservation")
        put("pass_end.count_of_values_stays_within_the_allocated_count", list(s.pc), tm.le(cd1, ca1), "preservation")
    for name in ("store_through_d.index_is_not_negative", "store_through_d.index_is_below_the_allocated_count", "realloc.asks_for_count_alloc_elements",
                 "pass_end.count_of_values_stays_non_negative", "pass_end.count_of_values_stays_within_the_allocated_count"):
        v = V.get(name)
        if v is None:
            continue
        r.add(name, DISCHARGED if v == "ok" else (FAILED if v == "failed" else UNDECIDED), "z3-5.1", 0,
              "" if v == "ok" else "a path violates it: counterexample to %s (a repeat count n*value with n < 0 moves *count_d below 0; the next values are stored in front of the array)" % V.get(name + "#why", ""),
              kind="preservation" if name.startswith("pass_end") else "safety")
    r.add("reach.stores_reallocs_and_pass_ends", DISCHARGED if nst and nre and nend else UNDECIDED, "symex", 0, "%d stores, %d reallocs, %d pass ends" % (nst, nre, nend), kind="vacuity")
    r.assumptions += ["callers establish 0 <= *count_d <= *count_alloc, *count_alloc >= 1 and a block of *count_alloc elements (read_transport: count 0, one element)",
                      "sizeof(LDBLE) == 8; integers are mathematical (the doubling of *count_alloc does not wrap); sscanf leaves arbitrary values in the objects it is given",
                      "count_d and count_alloc are different objects; termination is not claimed"]
    _core.PENDING.heads = []
    return r


# --------------------------------------------------------------------------------------------------------------- cmddim
def unit_cmddim_sizes(twin=False):
    """DIM v(e1, .., en): one arbitrary pass of the variable loop.  At every multiplication of the running element count by an extent the product
    is at most LONG_MAX; at every PHRQ_malloc the byte count is (element count) * (element size) and at most LONG_MAX, the element count >= 1."""
    from props.c17_ext_model import mkctx, run_iter, loops_of, lib_hyps
    q = "PBasic::cmddim"
    fn = A.find_function(PB, q)
    r = U.new_unit("C08.cmddim.element_count_of_an_array_is_the_product_of_its_extents_without_wrap_around", PB, q, fn)
    lps = loops_of(fn)
    outer = [k for k, l in enumerate(lps) if not any(o is not l and any(y is l for y in A.walk(o)) for o in lps)]
    if len(outer) != 1:
        raise Undecided("cmddim: one outer loop expected")
    c = mkctx(repoint=False)
    collect = {}
    f, ex, res, info = run_iter(q, outer[0], c, loop=exact_exit_loop(collect))
    # the multiplications: compound assignments `j *= k` inside the extent loop (located by what they do: a product stored in an integer local)
    muls = [x for x in A.walk(fn) if x.get("kind") == "CompoundAssignOperator" and x.get("opcode") == "*="]
    nmul = nmal = 0
    states = list(res) + [s for v in collect.values() for s in v]
    jname = None
    for m_ in muls:
        l = strip(m_["inner"][0])
        if l.get("kind") == "DeclRefExpr":
            jname = l["referencedDecl"]["name"]
    if jname is None:
        raise Undecided("cmddim: the running product (a local updated by `*=`) was not found")
    # invariant of the extent loop: the running element count is at least 1 (established before the loop, kept by every pass: extents < 1 are errors)
    def inv(terms):
        out = []
        for t in terms:
            for y in tm.free_syms(t):
                nm = str(y.args[0])
                if y.sort == "I" and nm.startswith("iter_") and nm[5:].split("@")[0] == jname:
                    out.append(tm.le(tm.num(1, "I"), y))
        return out
    V = {}
    def put(name, hy, goal):
        if V.get(name) == "failed":
            return
        hy = list(hy) + inv(list(hy) + [goal])
        st = B.z3_prove(hy, goal)[0]
        V[name] = "ok" if st == "proved" else ("failed" if st == "refuted" else "unknown")
        if st != "proved":
            V[name + "#why"] = repr(goal)[:300]
    for s in states:
        hy = list(s.pc) + lib_hyps(s)
        if B.z3_sat(hy + inv(hy)) == "unsat":
            continue
        for e in s.events:
            if _short(e) in ("PHRQ_malloc", "PHRQ_calloc"):
                size = e.args[0] if _short(e) == "PHRQ_malloc" else tm.mul(e.args[0], e.args[1])
                nmal += 1
                bound = LONG_MAX if not twin else tm.num(-1, "I")
                put("allocation.byte_count_does_not_exceed_LONG_MAX", hy, tm.le(size, bound))
                put("allocation.byte_count_is_at_least_one_element", hy, tm.le(tm.num(8, "I"), size))
    # the product after an arbitrary pass of the extent loop
    for o, sts in collect.items():
        for s in sts:
            hy = list(s.pc) + lib_hyps(s)
            if B.z3_sat(hy + inv(hy)) == "unsat":
                continue
            try:
                jv = U.local_of(info, s, jname)
            except Exception:
                continue
            if jv is None or not isinstance(jv, tm.T):
                continue
            if s.status in ("run", "cont") and jv.op == "*":
                nmul += 1
                put("extent_loop.running_element_count_times_extent_does_not_exceed_LONG_MAX", hy, tm.le(jv, LONG_MAX))
                put("extent_loop.running_element_count_stays_at_least_1", hy, tm.le(tm.num(1, "I"), jv))
    est = initial_value_before(fn, PB, [l for l in lps if l is not lps[outer[0]]][0], jname)
    r.add("extent_loop.running_element_count_starts_at_1", DISCHARGED if est is not None and est[0] == "=" and est[1] == "1" else FAILED, "ast", 0, "nearest preceding assignment: %r" % (est,), kind="establishment")
    for name in ("allocation.byte_count_does_not_exceed_LONG_MAX", "allocation.byte_count_is_at_least_one_element",
                 "extent_loop.running_element_count_times_extent_does_not_exceed_LONG_MAX", "extent_loop.running_element_count_stays_at_least_1"):
        v = V.get(name)
        if v is None:
            continue
        r.add(name, DISCHARGED if v == "ok" else (FAILED if v == "failed" else UNDECIDED), "z3-5.1", 0,
              "" if v == "ok" else "counterexample to %s: the extents of a DIM are not limited, their product (times 8) wraps around: the block is smaller than the index range findvar accepts" % V.get(name + "#why", ""), kind="safety")
    r.add("reach.allocations_and_products", DISCHARGED if nmal >= 2 and nmul >= 1 else UNDECIDED, "symex", 0, "%d allocations, %d products" % (nmal, nmul), kind="vacuity")
    r.assumptions += ["integers are mathematical in the executor: the obligations state that the mathematical value fits a long (then the machine value is the same)",
                      "intexpr returns an arbitrary long; sizeof(char *) == sizeof(LDBLE) == 8", "phreeqci_gui == false"]
    _core.PENDING.heads = []
    return r


# --------------------------------------------------------------------------------------------------------------- unbounded copies
UNBOUNDED = {"strcpy", "strcat", "sprintf", "vsprintf", "gets"}


def unit_unbounded_copy(fname, nparams, ptype, twin=False):
    """the function copies a BASIC string value (arbitrary length) into the buffer its caller hands in: every copy into that buffer is limited by a
    capacity (strncpy / snprintf / strcpy_safe with the capacity, or a strlen test on the path) - the function has no capacity parameter, so an
    unbounded strcpy / strcat into the parameter is a violation whatever the caller does."""
    from props.c17_ext_model import mkctx, Exec2
    q = "PBasic::" + fname
    fn = A.find_function(PB, q, nparams=nparams, type_contains=ptype)
    r = U.new_unit("C08.%s.string_value_copied_into_the_callers_buffer_within_its_capacity" % fname, PB, q, fn)
    c = mkctx(repoint=False)
    c.loop = lambda ex_, st, n, o: ex_.havoc_loop(n, st)
    ex = Exec2(c)
    fin = ex.run(fn, SX.State())
    dest = tm.sym("P0_%s" % A.params_of(fn)[0].get("name", "arg0"), "P")
    n = 0
    seen = set()
    for s in fin:
        if B.z3_sat(list(s.pc)) == "unsat":
            continue
        for e in s.events:
            nm = _short(e)
            if not e.args or not isinstance(e.args[0], tm.T) or dest not in tm.subterms(e.args[0]):
                continue
            if nm in ("strlen",):
                continue
            key = text_of(PB, e.node) if e.node is not None else nm
            if key in seen:
                continue
            seen.add(key); n += 1
            bounded = nm not in UNBOUNDED
            if not bounded and len(e.args) >= 2:
                # an unbounded copy is admissible when the path has tested the length of its source against a capacity the caller handed in:
                # pc ==> strlen(source) + 1 <= <an integer parameter of the function>
                lens = [x for x in s.events if _short(x) == "strlen" and x.args and x.args[-1] is e.args[1] and s.events.index(x) < s.events.index(e) and getattr(x, "result", None) is not None]
                caps = [tm.sym("P%d_%s" % (k_, pr_.get("name", "arg%d" % k_)), "I") for k_, pr_ in enumerate(A.params_of(fn)) if k_ > 0 and "*" not in pr_.get("type", {}).get("qualType", "")]
                for x in lens:
                    for cap in caps:
                        L_ = ex.coerce(x.result, "I")
                        if B.z3_prove(list(s.pc) + [tm.le(tm.num(0, "I"), L_)], tm.le(tm.add(L_, tm.num(1, "I")), cap))[0] == "proved":
                            bounded = True
            if twin:
                bounded = not bounded
            r.add("`%s`.copy_into_the_callers_buffer_is_limited_by_a_capacity" % key[:60], DISCHARGED if bounded else FAILED, "symex", 0,
                  "" if bounded else "%s(%s, <string value of the BASIC program>) with no capacity: a string longer than the caller's buffer overflows it" % (nm, A.params_of(fn)[0].get("name")), kind="safety")
    r.add("reach.writes_into_the_callers_buffer", DISCHARGED if n else UNDECIDED, "symex", 0, str(n), kind="vacuity")
    # the call sites and their buffers (information for the reader of a failure)
    sites = []
    t = A.squeeze(src(PB).decode("latin1"))
    for m in re.finditer(re.escape(fname) + r"\((\w+),", t):
        sites.append(m.group(1))
    r.notes.append("buffers handed in at the call sites in PBasic.cpp: %s" % sorted(set(sites)))
    # the capacity handed in at every call site is the true capacity of the buffer handed in with it
    if len(A.params_of(fn)) >= 3:
        from vf import callsites as CS
        ncall = 0
        for q2 in sorted(set(A.enclosing_functions(PB, fname + "("))) if hasattr(A, "enclosing_functions") else []:
            pass
        tu = A.load_tu(PB) if hasattr(A, "load_tu") else None
        for host in ("PBasic::exec", "PBasic::cmdrun"):
            try:
                hf = A.find_function(PB, host)
            except Exception:
                continue
            for call in CS.find_calls(hf, fname, len(A.params_of(fn))):
                ncall += 1
                a = call["inner"][1:]
                cap, desc = CS.array_capacity(a[0])
                captxt = A.squeeze(text_of(PB, a[1]))
                buf = CS.strip_casts(a[0]); bname = buf.get("referencedDecl", {}).get("name") or buf.get("name") or "?"
                if cap is not None:
                    okc = captxt in ("sizeof(%s)" % bname, "sizeof%s" % bname, str(cap)) or (captxt.isdigit() and int(captxt) <= cap)
                    if twin: okc = not okc
                    r.add("call_in_%s.capacity_handed_in_is_the_size_of_the_array_%s[%d]" % (host.split("::")[-1], bname, cap), DISCHARGED if okc else FAILED, "ast-facts", 0, captxt, kind="callsite")
                else:
                    # a heap buffer: the capacity expression is the element count of the allocation that initialises the pointer in the same function
                    alloc = None
                    for x in A.walk(hf):
                        if x.get("kind") == "BinaryOperator" and x.get("opcode") == "=" and A.squeeze(text_of(PB, x["inner"][0])) == bname:
                            for y in A.walk(x["inner"][1]):
                                if y.get("kind") in ("CallExpr", "CXXMemberCallExpr") and "alloc" in A.squeeze(text_of(PB, y["inner"][0])):
                                    alloc = y
                    okc = False; det = "no allocation of %s found" % bname
                    if alloc is not None:
                        args = [A.squeeze(text_of(PB, z)) for z in alloc["inner"][1:]]
                        strip = lambda t: re.sub(r"^\(size_t\)", "", t)
                        okc = any(strip(captxt) == strip(t) for t in args) and all(t in ("sizeof(char)", "1") or strip(t) == strip(captxt) for t in args)
                        det = "%s vs allocation %r" % (captxt, args)
                    if twin: okc = not okc
                    r.add("call_in_%s.capacity_handed_in_is_the_allocated_size_of_%s" % (host.split("::")[-1], bname), DISCHARGED if okc else FAILED, "ast-facts", 0, det, kind="callsite")
        r.add("reach.call_sites_with_a_capacity", DISCHARGED if ncall >= 3 else UNDECIDED, "ast-scan", 0, str(ncall), kind="vacuity")
    r.assumptions += ["a BASIC string value has no length limit (string literals, concatenation, PAD$, STR_F$ ...)", "callee names classify a copy: %s are unbounded" % ", ".join(sorted(UNBOUNDED))]
    return r


# --------------------------------------------------------------------------------------------------------------- PEEK / POKE
def unit_no_manufactured_pointers(twin=False):
    """no statement executor or built-in reaches memory through an address that is a number computed by the BASIC program: structurally, no
    dereference of the pointer member of a union whose other member is an integer (the p2c idiom `trick.i = intexpr(..); *trick.c`)."""
    r = None
    found = []
    nfun = 0
    for fname in ("cmdpoke", "factor"):
        q = "PBasic::" + fname
        fn = A.find_function(PB, q)
        if r is None:
            r = U.new_unit("C08.basic_peek_poke.no_memory_access_through_an_address_computed_by_the_program", PB, "PBasic::cmdpoke; PBasic::factor", fn)
        nfun += 1
        # union-typed locals with an integer and a pointer member
        puns = {}
        for x in A.walk(fn):
            if x.get("kind") == "VarDecl" and "union" in (x.get("type", {}).get("qualType", "") + x.get("type", {}).get("desugaredQualType", "")):
                puns[x["id"]] = x.get("name")
        for x in A.walk(fn):
            if x.get("kind") == "UnaryOperator" and x.get("opcode") == "*":
                y = strip(x["inner"][0])
                if y.get("kind") == "MemberExpr" and not y.get("isArrow"):
                    b = strip(y["inner"][0])
                    if b.get("kind") == "DeclRefExpr" and b["referencedDecl"].get("id") in puns:
                        found.append((fname, text_of(PB, x)))
    sites = sorted(set(found))
    if not twin:
        if not sites:
            r.add("no_dereference_of_a_pointer_overlaid_on_a_program_number", DISCHARGED, "ast", 0, "", kind="safety")
        for fname, txt in sites:
            r.add("%s.`%s`.address_is_not_a_number_of_the_program" % (fname, txt[:40]), FAILED, "ast", 0,
                  "the pointer member of a union is dereferenced after its integer member was set from a BASIC expression: POKE a, v / PEEK(a) reach any address (POKE 0, 1 -> SIGSEGV)", kind="safety")
    else:
        r.add("no_dereference_of_a_pointer_overlaid_on_a_program_number", FAILED if not sites else DISCHARGED, "ast", 0, "twin: expects such a site", kind="safety")
    r.add("reach.functions_inspected", DISCHARGED if nfun == 2 else UNDECIDED, "ast", 0, str(nfun), kind="vacuity")
    r.assumptions += ["structural (AST shape, no symbolic execution: unions are outside the executor's subset): a dereference `*u.m` of a member of a union-typed local",
                      "only cmdpoke and factor contain such unions (p2c `trick`)"]
    return r


def units():
    return [("C08.read_line_LDBLEs.repeated_values_are_stored_inside_the_callers_array", unit_read_line_LDBLEs),
            ("C08.cmddim.element_count_of_an_array_is_the_product_of_its_extents_without_wrap_around", unit_cmddim_sizes),
            ("C08.stringexpr.string_value_copied_into_the_callers_buffer_within_its_capacity", lambda twin=False: unit_unbounded_copy("stringexpr", 3, "char *", twin)),
            ("C08.basic_peek_poke.no_memory_access_through_an_address_computed_by_the_program", unit_no_manufactured_pointers)]
