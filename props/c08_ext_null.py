"""C08, "unknown species/phases/elements, undefined entity numbers ... make the call return normally: no invalid memory access":
NULL-safety of the engine's look-ups.  phase_bsearch / s_search / master_bsearch(_primary/_secondary) / logk_search / rate_search /
Utilities::Rxn_find answer NULL for a name (or user number) that is not defined.  For every function listed below the symbolic executor runs
the whole function from an ARBITRARY state (every loop as an iteration contract: body once, arbitrary induction value, arbitrary heap) and
records an event at every `p->member` and every `p->method(..)` whose p is the result of one of these look-ups; the obligation generated per
dereference expression:

    on every path that reaches the dereference, the path condition implies  p != NULL

(the look-ups are functional: the same name gives the same answer, so a test of one call protects a second call with the same argument).
In functions that are NOT the validators of a definition, a look-up whose NAME is read from a component of a reactant that is already part
of the model (comp.Get_phase_name(), Get_rate_name() ...) is exempt by rule: those names were checked when the reactant was tidied
(tidy_pp_assemblage, tidy_gas_phase, tidy_ss_assemblage report "Phase not found" and the run stops before the model is built; the RAW readers
go through the same tidy functions - tried natively) - stated as an assumption.  Everything else is demanded; sites protected by a validation
in ANOTHER function are listed one by one in EXEMPT with the reason."""
from props.common import *
from vf.core import FAILED, DISCHARGED, UNDECIDED
from vf import core as _core

LOOKUPS = ("phase_bsearch", "s_search", "master_bsearch", "master_bsearch_primary", "master_bsearch_secondary", "logk_search", "rate_search", "Rxn_find")
# names that come out of reactant components of the model (validated when the reactant was tidied)
COMPONENT_GETTERS = ("Get_phase_name", "Get_rate_name", "Get_name", "Get_formula", "Get_master_element", "Get_charge_name", "Get_elt_name", "Get_description")

B_ = "src/phreeqcpp/basicsubs.cpp"
T_ = "src/phreeqcpp/tidy.cpp"
P_ = "src/phreeqcpp/prep.cpp"
S_ = "src/phreeqcpp/step.cpp"
M_ = "src/phreeqcpp/mainsubs.cpp"

# (file, function, validator?) : every dereference of a look-up result in it is generated as an obligation.  validator = the function is the
# place where names of a definition are checked against the database: no exemption by rule there
FUNCS = [
    # BASIC read-outs: the name is text of a user program
    (B_, "activity", 0), (B_, "activity_coefficient", 0), (B_, "log_activity", 0), (B_, "log_activity_coefficient", 0), (B_, "molality", 0), (B_, "log_molality", 0),
    (B_, "aqueous_vm", 0), (B_, "phase_vm", 0), (B_, "calc_SC", 0), (B_, "calc_t_sc", 0), (B_, "calc_f_visc", 0), (B_, "diff_c", 0), (B_, "setdiff_c", 0),
    (B_, "calc_logk_p", 0), (B_, "calc_logk_s", 0), (B_, "calc_deltah_p", 0), (B_, "calc_deltah_s", 0), (B_, "dh_a0", 0), (B_, "dh_bdot", 0),
    (B_, "equivalent_fraction", 0), (B_, "find_gas_comp", 0), (B_, "phase_formula", 0), (B_, "species_formula", 0), (B_, "pr_phi", 0), (B_, "pr_pressure", 0),
    (B_, "saturation_index", 0), (B_, "saturation_ratio", 0), (B_, "total", 0), (B_, "total_mole", 0),
    # definitions checked against the database
    (T_, "tidy_pp_assemblage", 1), (T_, "tidy_ss_assemblage", 1), (T_, "tidy_gas_phase", 1), (T_, "tidy_isotopes", 1), (T_, "tidy_master_isotope", 1),
    (T_, "replace_solids_gases", 1), (T_, "ss_calc_a0_a1", 1), (T_, "update_min_surface", 1),
    ("src/phreeqcpp/read.cpp", "read_rates", 1),
    ("src/phreeqcpp/inverse.cpp", "set_isotope_unknowns", 1),
    ("src/phreeqcpp/print.cpp", "set_pr_in_false", 1),
    ("src/phreeqcpp/isotopes.cpp", "print_isotope_ratios", 0), ("src/phreeqcpp/isotopes.cpp", "print_isotope_alphas", 0),
    (P_, "convert_units", 0), (P_, "setup_solution", 0), (P_, "calc_vm0", 0),
    (S_, "add_solution", 0), (S_, "add_gas_phase", 1), (S_, "reaction_calc", 0),
    ("src/phreeqcpp/structures.cpp", "s_store", 0),
    ("src/phreeqcpp/kinetics.cpp", "calc_kinetic_reaction", 1),
    ("src/phreeqcpp/transport.cpp", "calc_vm_Cl", 0), ("src/phreeqcpp/transport.cpp", "flux_mcd", 0),
    (M_, "xsolution_save", 0),
    (P_, "build_min_exch", 0), (S_, "add_mix", 0),
    ("src/phreeqcpp/print.cpp", "print_mix", 0), ("src/phreeqcpp/print.cpp", "punch_kinetics", 0),
    ("src/phreeqcpp/transport.cpp", "set_initial_moles", 0),
    (T_, "tidy_inverse", 1),
]

# (function, dereference expression, literal name or "") : why a missing NULL test in THIS function is not a defect
EXEMPT = {
    ("setup_solution", "master_ptr->in", "H(1)"): "tidy_model refuses a database without the secondary master species H(1) ('H3O+, secondary master species for H(1), not defined': LoadDatabase fails; tried natively)",
    ("setup_solution", "master_ptr->unknown", "H(1)"): "as for master_ptr->in",
    ("xsolution_save", "master_i_ptr->total", ""): "names of master_isotope entries were checked by tidy_master_isotope; moles > 0 only for isotopes the initial-solution calculation found as elements of the solution (not demonstrated natively)",
    ("xsolution_save", "master_i_ptr->s", ""): "as for master_i_ptr->total",
    ("tidy_isotopes", "master_ptr->number", ""): "the name is elt->name of a primary master species the first loop found (primary_isotopes is filled from found masters only, and the function returns when that loop reported an error)",
}


class NullExec(SX.Exec):
    """the executor of vf/astvc plus one event: a member FUNCTION called through the result of a look-up (p->Get_x()) is a dereference of p
    (the stock executor records `p->field` only)"""
    def apply_call(self, n, st, name, recv, args, arg_nodes=()):
        dc = getattr(self.ctx, "deref_calls", None)
        if dc and recv is not None and getattr(recv, "op", None) == "app" and isinstance(recv.args[0], str) and recv.args[0].startswith("call:") and recv.args[0][5:] in dc \
                and name.split("::")[-1] not in dc:
            e_ = SX.Event("deref", recv, [tm.strc(recv.args[0][5:] + "()"), tm.strc(name.split("::")[-1] + "()")], tm.num(0, "I"), node=n)
            e_.snap = list(st.pc)
            st.events.append(e_)
        return SX.Exec.apply_call(self, n, st, name, recv, args, arg_nodes)


def run_function_with(ExecClass, rel, qualname, c, default="iter", find_kw=None):
    """U.run_function with another executor class (same loop protocol)"""
    fn = A.find_function(rel, qualname, **(find_kw or {}))
    info = {"iter": {}, "entry": {}}
    def loop(ex, st, node, ordinal):
        info["entry"].setdefault(ordinal, []).append(st.clone())
        if default == "iter":
            res = ex.iterate_loop(node, st.clone())
            info["iter"].setdefault(ordinal, []).extend(res)
        return ex.havoc_loop(node, st)
    c.loop = loop
    ex = ExecClass(c)
    finals = ex.run(fn, SX.State())
    return fn, ex, finals, info


def _literal(t):
    return t.args[0].strip('"') if t is not None and t.op == "str" else ""


_RAW = {}


def deref_verdicts(rel, q, validator=False, twin=False, lookups=LOOKUPS):
    """{(expression text, look-up, literal name): 'ok' | 'bad'} over all paths of the function, and the set exempt by rule"""
    key_ = (_core.REPO, rel, q, validator, tuple(lookups))
    if key_ not in _RAW:
        _RAW[key_] = _deref_verdicts(rel, q, validator, lookups)
    fn, seen, by_rule = _RAW[key_]
    if twin:
        seen = {k: ("bad" if v == "ok" else v) for k, v in seen.items()}          # the perturbed contract demands the opposite of what was proved
    return fn, dict(seen), set(by_rule)


def _deref_verdicts(rel, q, validator, lookups):
    c = ctx(functional=tuple(lookups) + ("element_store", "c_str") + COMPONENT_GETTERS)
    c.deref_calls = set(lookups)
    stop_on_error_msg(c)
    fn, ex, fin, info = run_function_with(NullExec, rel, q, c)
    states = list(fin)
    for o, sts in info["iter"].items():
        states += sts
    seen, by_rule = {}, set()
    for s in states:
        for e in s.events:
            if e.name != "deref":
                continue
            txt = text_of(rel, e.node)
            if e.node.get("kind") == "CXXMemberCallExpr":
                txt = text_of(rel, e.node["inner"][0])               # p->Get_x
            look = e.recv.args[0][5:]
            na = e.recv.args[2] if len(e.recv.args) > 2 else None
            key = (txt, look, _literal(na))
            hy = list(e.snap or [])
            if B.z3_sat(hy) == "unsat":
                continue
            st = B.z3_prove(hy, tm.not_(tm.eq(e.recv, tm.num(0, "P"))))[0]
            if st != "proved" and not validator and look != "Rxn_find" and na is not None and any(g in repr(na) for g in COMPONENT_GETTERS):
                by_rule.add(key)
                continue
            if seen.get(key) != "bad":
                seen[key] = "ok" if st == "proved" else "bad"
    return fn, seen, by_rule


def unit_lookup_guards(rel, fname, validator=False, twin=False, cls="Phreeqc"):
    q = cls + "::" + fname
    fn, seen, by_rule = deref_verdicts(rel, q, validator, twin)
    r = U.new_unit("C08.null.%s.lookup_results_tested_before_use" % fname, rel, q, fn)
    n = 0
    for (txt, look, lit), val in sorted(seen.items()):
        why = EXEMPT.get((fname, txt, lit))
        if why is not None and not twin:
            if val == "bad":
                r.notes.append("%s [%s(%s)]: not tested here - %s" % (txt, look, lit, why))
                r.assumptions.append("%s in %s: %s" % (txt, fname, why))
                continue
        n += 1
        r.add("%s.result_of_%s(%s)_tested_against_NULL_before_use" % (txt[:60], look, lit), DISCHARGED if val == "ok" else FAILED, "symex+z3", 0,
              "" if val == "ok" else "a path reaches `%s` although %s(%s) may have answered NULL (name or number not defined): SIGSEGV instead of an error message" % (txt, look, lit), kind="safety")
    r.add("reach.dereferences_of_lookup_results", DISCHARGED if n else UNDECIDED, "symex", 0, "%d dereference expressions under obligation, %d exempt by rule (name read from a tidied component)" % (n, len(by_rule)), kind="vacuity")
    r.assumptions += ["the look-ups are deterministic functions of their arguments during one call (nothing is added to or removed from the tables between the test and the use)",
                      "only `p->member` / `p->method()` with p the look-up result (directly or through locals) is seen; a result stored in a record and read back, or handed to a callee, is not followed",
                      "loops as iteration contracts: facts established before a loop are kept, values assigned in a loop are arbitrary after it",
                      "error_msg(.., STOP) does not return"]
    if not validator:
        r.assumptions.append("names read from components of reactants already in the model (%s ...) were validated when the reactant was tidied; look-ups by such names are exempt here" % ", ".join(COMPONENT_GETTERS[:4]))
    _core.PENDING.heads = []          # the loop heads of these functions are not part of this contract (no traversal is claimed)
    return r


def units():
    out = []
    for rel, fname, val in FUNCS:
        def mk(rel=rel, fname=fname, val=val):
            return lambda twin=False: unit_lookup_guards(rel, fname, bool(val), twin)
        out.append(("C08.null.%s.lookup_results_tested_before_use" % fname, mk()))
    return out
