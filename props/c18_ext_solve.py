"""C18 (extension, solver side of inverse.cpp): shrink, solve_with_mask, range, minimal_solve, check_solns, print_model / punch_model.
cl1 itself is outside every unit: these contracts say that cl1 is GIVEN the problem that setup_inverse built, restricted to the items of the
candidate model, and that what it returns is stored / reported under the unknown it belongs to."""
from props.common import *
from props.c18_ext import (INV, mkctx, all_loops, ordinal, nested, head, top_loops, vdata, vsize, vdata0, vsize0, at, same, vec_writes, other_real_writes,
                           F, match_writes, spec_cases, midx, absr, take, elt_addr, distinct_cells, _base, tm_fraction, I0, I1)
from vf.core import FAILED, DISCHARGED, UNDECIDED


class PureExcept(object):
    """every callee is treated as writing nothing except the named ones (their by-pointer results must be re-read after the call)"""
    def __init__(self, impure): self.impure = set(impure)
    def __contains__(self, x): return str(x).split("::")[-1] not in self.impure
    def update(self, xs): pass
    def add(self, x): pass


def skip_ctx(functional=(), record=None):
    """context whose loops are skipped (credited with nothing, nothing havocked): used to read the straight-line effect of a loop body
    around an inner loop; the inner loop is then put under its own iteration contract"""
    c = mkctx(functional=functional)
    def handler(ex, st, node, o):
        if record is not None:
            record.append((o, st.clone()))
        return [st]
    c.loop = handler
    return c


def body_nodes(loop):
    b = loop["inner"][-1]
    return b.get("inner", []) if b.get("kind") == "CompoundStmt" else [b]


def ptr_writes(s, sort, base):
    """net stores through pointer `base` (a parameter / local pointer): [(index, value)]"""
    out = []
    for ix, v in writes(s, ("m", sort)):
        if isinstance(ix, tuple) and len(ix) == 2 and ix[0] is base:
            out.append((ix[1], v))
    return out


def unit_shrink(twin=False):
    q = "Phreeqc::shrink"
    fn = A.find_function(INV, q)
    r = U.new_unit("C18.shrink.drops_exactly_the_unknowns_of_absent_items_and_keeps_column_sign_and_index_together", INV, q, fn)
    L = all_loops(fn)
    def find(pred, what):
        hits = [lp for lp in L if pred(head(INV, lp), text_of(INV, lp["inner"][-1]))]
        if len(hits) != 1:
            raise Undecided("shrink: %s not found (%d)" % (what, len(hits)))
        return hits[0]
    CB = tm.sym("L_col_back_l", "P"); DL = tm.sym("L_delta_l", "P"); AO = tm.sym("L_array_out", "P"); RB = tm.sym("L_row_back_l", "P")
    bits = tm.sym("L_cur_bits", "I")
    c = lambda: mkctx(functional=("get_bits", "equal", "memcmp"))
    # (1) identity map to start with
    l1 = find(lambda h, t: t.rstrip(";") == "col_back_l[i]=i", "identity loop")
    f, ex, its, info = U.run_loop_isolated(INV, q, ordinal(fn, l1), ctx=c())
    for s in live(its, ("run", "cont")):
        i = tm.sym("iter_i", "I")
        match_writes(r, "identity", list(s.pc), ptr_writes(s, "I", CB), [(i, i, "col_back[i]==i")], "no_other_index_written")
    h1 = head(INV, l1)
    r.add("identity.covers_columns_0..n(including_rhs)", DISCHARGED if h1 == ("i=0", "i<(*n+1)", "i++") else FAILED, "syntactic", 0, repr(h1), kind="structural")
    # (2) phases absent from the model
    l2 = find(lambda h, t: h[1] == "i<inv_ptr->phases.size()" and "col_back_l[" in t, "phase loop")
    rec = []
    f, ex, fin, info = region(INV, q, body_nodes(l2), skip_ctx(("get_bits",), rec))
    i = tm.sym("L_i", "I")
    seen = set()
    for s in live(fin):
        gb = [e for e in s.events if e.name.endswith("get_bits")]
        okg = len(gb) == 1 and gb[0].args[0] is bits and gb[0].args[1] is i and tm.isnum(gb[0].args[2]) and gb[0].args[2].args[0] == 1
        r.add("phase.tests_bit_p_of_the_model_mask", DISCHARGED if okg else FAILED, "trace", 0, repr([e.args for e in gb])[:200])
        if not okg:
            continue
        for case, hy in spec_cases(list(s.pc), [("absent", tm.eq(gb[0].result, I0))]):
            ws = ptr_writes(s, "I", CB)
            if case["absent"]:
                seen.add("absent")
                match_writes(r, "phase[absent]", hy, ws, [(F(ex, s, "col_phases") + i, tm.num(-1, "I"), "col_back[col_phases+p]==-1")], "no_other_column_dropped_outside_the_isotope_loop")
            else:
                seen.add("present")
                r.add("phase[present].keeps_every_column", DISCHARGED if not ws and not rec_reached(rec, s) else FAILED, "symex", 0, repr(ws)[:200], kind="frame")
    r.add("reach.phase", DISCHARGED if seen == {"absent", "present"} else UNDECIDED, "symex", 0, repr(sorted(seen)), kind="vacuity")
    l3 = nested(l2)
    if len(l3) == 1:
        f, ex, its, info = U.run_loop_isolated(INV, q, ordinal(fn, l3[0]), ctx=c())
        j = tm.sym("iter_j", "I")
        for s in live(its, ("run", "cont")):
            inv = local(info, s, "inv_ptr")
            match_writes(r, "phase[absent].isotope", list(s.pc), ptr_writes(s, "I", CB),
                         [(F(ex, s, "col_phase_isotopes") + i * vsize0(ex, s, "isotopes", inv) + j, tm.num(-1, "I"), "col_back[col_phase_isotopes+p*isotopes+k]==-1")], "no_other_column_dropped")
    else:
        r.add("phase[absent].isotope_loop_found", UNDECIDED, "syntactic", 0, "%d" % len(l3))
    # (3) initial solutions absent from the model
    l4 = find(lambda h, t: "count_solns" in h[1] and "col_back_l[" in t and "get_bits(" in t, "solution loop")
    h4 = head(INV, l4)
    r.add("solution.final_solution_is_never_dropped(loop_over_0..count_solns-2)", DISCHARGED if h4[0] == "i=0" and h4[1] in ("i<(inv_ptr->count_solns-1)", "i<inv_ptr->count_solns-1") and h4[2] == "i++" else FAILED,
          "syntactic", 0, repr(h4), kind="structural")
    rec = []
    f, ex, fin, info = region(INV, q, body_nodes(l4), skip_ctx(("get_bits",), rec))
    seen = set()
    for s in live(fin):
        inv = local(info, s, "inv_ptr")
        gb = [e for e in s.events if e.name.endswith("get_bits")]
        okg = len(gb) == 1 and gb[0].args[0] is bits and same(list(s.pc), gb[0].args[1], vsize0(ex, s, "phases", inv) + i) and tm.isnum(gb[0].args[2]) and gb[0].args[2].args[0] == 1
        r.add("solution.tests_bit_phases+q_of_the_model_mask", DISCHARGED if okg else FAILED, "trace", 0, repr([e.args for e in gb])[:200])
        if not okg:
            continue
        for case, hy in spec_cases(list(s.pc), [("absent", tm.eq(gb[0].result, I0)), ("carbon", tm.eq(fld0(ex, s, "carbon", "I", inv), I1))]):
            ws = ptr_writes(s, "I", CB)
            if case["absent"]:
                exp = [(i, tm.num(-1, "I"), "col_back[q]==-1")]
                if case["carbon"]:
                    exp.append((F(ex, s, "col_ph") + (i if not twin else i + I1), tm.num(-1, "I"), "col_back[col_ph+q]==-1"))
                seen.add("absent" + ("+pH" if case["carbon"] else ""))
                match_writes(r, "solution[absent%s]" % (",carbon" if case["carbon"] else ""), hy, ws, exp, "no_other_column_dropped_outside_the_inner_loops")
            else:
                seen.add("present")
                r.add("solution[present].keeps_every_column", DISCHARGED if not ws and not rec_reached(rec, s) else FAILED, "symex", 0, repr(ws)[:200], kind="frame")
    r.add("reach.solution", DISCHARGED if {"absent+pH", "present"} <= seen else UNDECIDED, "symex", 0, repr(sorted(seen)), kind="vacuity")
    inner4 = nested(l4)
    for lp in inner4:
        hh = head(INV, lp)
        f, ex, its, info = U.run_loop_isolated(INV, q, ordinal(fn, lp), ctx=c())
        j = tm.sym("iter_j", "I")
        for s in live(its, ("run", "cont")):
            inv = local(info, s, "inv_ptr")
            if "elts.size()" in hh[1]:
                idx = F(ex, s, "col_epsilon") + j * fld0(ex, s, "count_solns", "I", inv) + i; nm = "col_back[col_epsilon+m*solns+q]==-1(every_delta_of_the_solution)"
            elif "isotope_unknowns.size()" in hh[1]:
                idx = F(ex, s, "col_isotopes") + i * vsize0(ex, s, "isotope_unknowns", inv) + j; nm = "col_back[col_isotopes+q*unknowns+k]==-1"
            else:
                r.add("solution[absent].unexpected_inner_loop", UNDECIDED, "syntactic", 0, repr(hh)); continue
            match_writes(r, "solution[absent].inner", list(s.pc), ptr_writes(s, "I", CB), [(idx, tm.num(-1, "I"), nm)], "no_other_column_dropped")
    r.add("solution[absent].delta_and_isotope_loops_present", DISCHARGED if len(inner4) == 2 else FAILED, "syntactic", 0, "%d inner loops" % len(inner4), kind="structural")
    # (4) compaction of the kept columns: matrix column, sign constraint and back-map move together
    l9 = find(lambda h, t: "cur_col++" in t, "compaction loop")
    l10 = nested(l9)
    if len(l10) != 1:
        raise Undecided("row loop of the compaction not found")
    f, ex, its, info = U.run_loop_isolated(INV, q, ordinal(fn, l9), ctx=c(), inner_modes={ordinal(fn, l10[0]): "iter"})
    i = tm.sym("iter_i", "I"); cc = tm.sym("iter_cur_col", "I")
    seen = set()
    for s in live(its, ("run", "cont")):
        I_arr = entry_arr(ex, s, ("m", "I")); R_arr = entry_arr(ex, s, ("m", "R"))
        cbi = tm.select(I_arr, CB, i)
        for case, hy in spec_cases(list(s.pc), [("dropped", tm.lt(cbi, I0)), ("inplace", tm.eq(cc, cbi))]):
            wi, wr = ptr_writes(s, "I", CB), ptr_writes(s, "R", DL)
            cur1 = local(info, s, "cur_col")
            if case["dropped"]:
                seen.add("dropped")
                r.add("compact[dropped].nothing_moves", DISCHARGED if not wi and not wr and cur1 is cc else FAILED, "symex", 0, repr((wi, wr, cur1))[:200], kind="frame")
            elif case["inplace"]:
                seen.add("inplace")
                r.add("compact[in_place].only_the_cursor_advances", DISCHARGED if not wi and not wr and same(hy, cur1, cc + I1) else FAILED, "symex", 0, repr((wi, wr, cur1))[:200], kind="frame")
            else:
                seen.add("moved")
                # the two copies are made after the row loop: they read col_back[i] / delta[i] in the state the row loop leaves (it writes
                # only matrix entries: frame obligation of the row loop below)
                okb = len(wi) == 1 and same(hy, wi[0][0], cc) and reads(wi[0][1], CB, i, hy)
                r.add("compact[moved].back_map.col_back[cur]==col_back[i]", DISCHARGED if okb else FAILED, "symex", 0, repr(wi)[:200])
                oks = len(wr) == 1 and same(hy, wr[0][0], cc) and reads(wr[0][1], DL, i if not twin else cc, hy)
                r.add("compact[moved].sign.delta[cur]==delta[i]", DISCHARGED if oks else FAILED, "symex", 0, repr(wr)[:200])
                U.discharge_eq_real(r, "compact[moved].cursor+=1", hy, cur1, cc + I1)
    r.add("reach.compact", DISCHARGED if seen == {"dropped", "inplace", "moved"} else UNDECIDED, "symex", 0, repr(sorted(seen)), kind="vacuity")
    n = 0
    for s in live(info["inner_iters"].get(ordinal(fn, l10[0]), []), ("run", "cont")):
        n += 1
        j = tm.sym("iter_j", "I"); maxc = F(ex, s, "max_column_count")
        R_arr = entry_arr(ex, s, ("m", "R"))
        match_writes(r, "compact[moved].matrix", list(s.pc), ptr_writes(s, "R", AO), [(j * maxc + cc, tm.select(R_arr, AO, j * maxc + i), "array[row,cur]==array[row,i]")], "no_other_entry_written")
        okf = not writes(s, ("m", "I")) and len(writes(s, ("m", "R"))) == len(ptr_writes(s, "R", AO))
        r.add("compact[moved].matrix.row_loop_writes_neither_back_map_nor_signs", DISCHARGED if okf else FAILED, "symex", 0, "", kind="frame")
    h10 = head(INV, l10[0])
    r.add("compact[moved].matrix.every_row(0..k+l+m-1)", DISCHARGED if h10 == ("j=0", "j<(*k+*l+*m)", "j++") else FAILED, "syntactic", 0, repr(h10), kind="structural")
    r.add("reach.compact_rows", DISCHARGED if n else UNDECIDED, "symex", 0, "%d" % n, kind="vacuity")
    h9 = head(INV, l9)
    r.add("compact.covers_columns_0..n(including_rhs)", DISCHARGED if h9 == ("i=0", "i<(*n+1)", "i++") else FAILED, "syntactic", 0, repr(h9), kind="structural")
    # n = number of kept columns without the right-hand side
    body = A.body_of(fn)["inner"]
    kk = next(k for k, x in enumerate(body) if x is l9)
    f, ex, fin, info = region(INV, q, [body[kk + 1]], mkctx())
    for s in live(fin):
        w = ptr_writes(s, "I", tm.sym("L_n", "P"))
        ok = len(w) == 1 and same(list(s.pc), w[0][1], local(info, s, "cur_col") - I1)
        r.add("compact.n==kept_columns-1(rhs_not_counted)", DISCHARGED if ok else FAILED, "symex", 0, repr(w)[:200])
    # (5) row compaction: a kept row i goes to position `row` with its first n+1 entries (unknowns and right-hand side); row_back[row] = i
    rows = [lp for lp in L if "row_back_l[row]=i" in text_of(INV, lp["inner"][-1])]
    if len(rows) != 3:
        raise Undecided("three row-compaction loops expected, found %d" % len(rows))
    for tag, lp, cnt in zip(("optimisation", "equality", "inequality"), rows, ("k1", "l1", "m1")):
        inner = nested(lp)
        f, ex, its, info = U.run_loop_isolated(INV, q, ordinal(fn, lp), ctx=mkctx(functional=("equal", "memcmp")))
        i = tm.sym("iter_i", "I"); row0 = tm.sym("iter_row", "I"); c0 = tm.sym("iter_" + cnt, "I")
        seen = set()
        for s in live(its, ("run", "cont")):
            maxc = F(ex, s, "max_column_count")
            nn = tm.select(entry_arr(ex, s, ("m", "I")), tm.sym("L_n", "P"), I0)
            wi = ptr_writes(s, "I", RB)
            mc = [e for e in U.iter_events(s) if e.name.endswith("memcpy")]
            kept = bool(wi)
            if not kept:
                seen.add("dropped")
                ok = s.status == "cont" and not mc and local(info, s, "row") is row0 and local(info, s, cnt) is c0
                r.add("rows[%s].dropped_row_moves_nothing" % tag, DISCHARGED if ok else FAILED, "symex", 0, "", kind="frame")
                continue
            hy = list(s.pc)
            match_writes(r, "rows[%s].kept" % tag, hy, wi, [(row0, i, "row_back[row]==i")], "no_other_index_written")
            U.discharge_eq_real(r, "rows[%s].kept.row+=1" % tag, hy, local(info, s, "row"), row0 + I1)
            U.discharge_eq_real(r, "rows[%s].kept.%s+=1" % (tag, cnt), hy, local(info, s, cnt), c0 + I1)
            for case, hy2 in spec_cases(hy, [("move", tm.lt(row0, i))]):
                if case["move"]:
                    seen.add("moved")
                    ok = len(mc) == 1 and same(hy2, mc[0].args[0], at(AO, row0 * maxc)) and same(hy2, mc[0].args[1], at(AO, i * maxc))
                    r.add("rows[%s].kept.copied_from_row_i_to_row_`row`" % tag, DISCHARGED if ok else FAILED, "trace", 0, repr([e.args[:2] for e in mc])[:300])
                    if len(mc) == 1:
                        cntb = mc[0].args[2]
                        okc = _bytes_is(cntb, nn + (I1 if not twin else I0), hy2)
                        r.add("rows[%s].kept.copies_n+1_entries(unknowns_and_rhs)" % tag, DISCHARGED if okc else FAILED, "trace", 0, repr(cntb)[:200])
                else:
                    seen.add("inplace")
                    r.add("rows[%s].kept.in_place_needs_no_copy" % tag, DISCHARGED if not mc else FAILED, "trace", 0, "", kind="frame")
        r.add("reach.rows[%s]" % tag, DISCHARGED if {"dropped", "moved", "inplace"} <= seen else UNDECIDED, "symex", 0, repr(sorted(seen)), kind="vacuity")
    hs = [head(INV, lp) for lp in rows]
    okr = hs[0] == ("i=0", "i<*k", "i++") and hs[1] == ("i=*k", "i<(*k+*l)", "i++") and hs[2] == ("i=(*k+*l)", "i<(*k+*l+*m)", "i++")
    r.add("rows.three_blocks_partition_0..k+l+m-1_in_order", DISCHARGED if okr else FAILED, "syntactic", 0, repr(hs), kind="structural")
    # (6) the three counts are returned
    tail = [x for x in body if text_of(INV, x).rstrip(";") in ("*k=k1", "*l=l1", "*m=m1")]
    r.add("counts.k,l,m_return_the_numbers_of_kept_rows", DISCHARGED if len(tail) == 3 else FAILED, "syntactic", 0, "%d of 3 assignments" % len(tail), kind="structural")
    r.assumptions += ["get_bits(bits, p, 1) is bit p of the mask (unit C18.bits.get_bits)", "memcpy copies the stated number of bytes; sizeof(LDBLE) is the element size",
                      "which rows / epsilon columns are 'all zero' (equal(), memcmp) is not under this contract: only what happens to kept and dropped ones",
                      "loop headers compared as text for coverage facts (identity, compaction, three row blocks, final solution never dropped)",
                      "SCALE_ALL == 1 (the final rescaling of inequality rows is the identity)"]
    return r


def _bytes_is(term, count, hy):
    """term == count * sizeof(double) for the engine's rendering of sizeof (numeric 8 or symbolic)"""
    for k in (8,):
        if same(hy, term, count * tm.num(k, "I")):
            return True
    # symbolic sizeof: a product one of whose factors is `count`
    if term.op == "*":
        return any(same(hy, a, count) for a in term.args)
    return False


def reads(v, base, idx, hy):
    """v is a read of base[idx] (from whatever memory generation: opaque loops in between rename the memory)"""
    if v.op != "select" or not isinstance(v.args[1], tuple) or len(v.args[1]) != 2:
        return False
    if ".mem:" not in repr(_base(v.args[0])) or v.args[0].op != "sym":
        return False
    return v.args[1][0] is base and same(hy, v.args[1][1], idx)


def rec_reached(rec, s):
    """was an inner loop reached on this path? (rec holds the states at which loops were skipped)"""
    for o, st in rec:
        if all(p in s.pc for p in st.pc):
            return True
    return False



def vec_of(t):
    """name of the std::vector member of `this` whose element block the pointer term t is (&v[0]), else None"""
    if t.op == "select" and "#vdata" in repr(_base(t.args[0])):
        a = t.args[1]
        a = a[0] if isinstance(a, tuple) else a
        if a.op == "app" and a.args[0].startswith("fld:") and a.args[1] is THIS:
            return a.args[0][4:]
    return None


def memcpys(events):
    """[(destination vector, source vector, byte count term)] of the memcpy calls between vector members"""
    return [(vec_of(e.args[0]), vec_of(e.args[1]), e.args[2]) for e in events if e.name.endswith("memcpy")]


def unit_solve_with_mask(twin=False):
    """cl1 is given the whole problem of setup_inverse (A = rows [0,row_mb), C = [row_mb,row_epsilon), E = [row_epsilon,count_rows), all count_unknowns
    columns, the sign vector delta) restricted by shrink to the items in the mask; the answer is scattered back through col_back so that
    inv_delta1[c] is the value of ORIGINAL unknown c (0 for dropped unknowns); ERROR is returned exactly when cl1 reports kode != 0."""
    q = "Phreeqc::solve_with_mask"
    fn = A.find_function(INV, q)
    r = U.new_unit("C18.solve_with_mask.problem_passed_whole_and_solution_scattered_back_to_its_unknowns", INV, q, fn)
    body = A.body_of(fn)["inner"]
    ks = next((k for k, x in enumerate(body) if text_of(INV, x).startswith("shrink(")), None)
    if ks is None:
        raise Undecided("call of shrink not found")
    f, ex, fin, info = region(INV, q, body[:ks + 1], mkctx())
    n0 = 0
    for s in live(fin):
        n0 += 1
        hy = list(s.pc)
        sh = [e for e in s.events if e.name.endswith("::shrink")]
        if len(sh) != 1:
            r.add("shrink.called_once", FAILED, "trace", 0, "%d" % len(sh)); continue
        a = sh[0].args
        mem = ex.heap_arr(s, ("m", "I"))
        rd = lambda k_: tm.select(mem, a[3 + k_], I0)         # value of the local whose address is passed as argument 3 + k_
        g = lambda nm: fld0(ex, s, nm, "I")
        U.discharge_eq_real(r, "dims.k==row_mb(optimisation_rows)", hy, rd(0), g("row_mb"))
        U.discharge_eq_real(r, "dims.l==row_epsilon-row_mb(equalities)", hy, rd(1), g("row_epsilon") - g("row_mb"))
        U.discharge_eq_real(r, "dims.m==count_rows-row_epsilon(inequalities)", hy, rd(2), g("count_rows") - (g("row_epsilon") if not twin else g("row_mb")))
        U.discharge_eq_real(r, "dims.n==count_unknowns", hy, rd(3), g("count_unknowns"))
        mc = memcpys(s.events)
        want = {("inv_res", "inv_zero"): g("max_row_count"), ("delta2", "delta"): g("max_column_count"), ("delta_save", "inv_zero"): g("max_column_count")}
        for (d, srcv), cnt in want.items():
            hit = [m for m in mc if m[0] == d and m[1] == srcv]
            ok = len(hit) == 1 and _bytes_is(hit[0][2], cnt, hy)
            r.add("init.%s<-%s(whole_vector)" % (d, srcv), DISCHARGED if ok else FAILED, "trace", 0, repr(mc)[:300], kind="trace")
        names = [vec_of(a[1]), vec_of(a[2]), vec_of(a[8]), vec_of(a[9]), vec_of(a[10])]
        ok = (a[0] is local(info, s, "inv_ptr") and names == ["my_array", "array1", "delta2", "col_back", "row_back"] and a[7] is local(info, s, "cur_bits")
              and len({repr(x) for x in a[3:7]}) == 4 and all(x.op == "sym" and x.args[0].startswith("&") for x in a[3:7]))
        r.add("shrink(inv,my_array->array1,&k,&l,&m,&n,mask,delta2,col_back,row_back)", DISCHARGED if ok else FAILED, "trace", 0, repr(a)[:400], kind="trace")
    r.add("reach.setup", DISCHARGED if n0 else UNDECIDED, "symex", 0, "%d" % n0, kind="vacuity")
    # whole function: what cl1 gets and what is returned
    c = mkctx(); c.pure = PureExcept(["shrink", "cl1", "cl1mp"])
    f, ex, fin, info = U.run_function(INV, q, ctx=c, default="havoc")
    n1 = 0; rets = set()
    ERR = tm.num(c.enum_values.get("ERROR", 0), "I"); OKV = tm.num(c.enum_values.get("OK", 1), "I")
    for s in live(fin, ("ret",)):
        cl = [e for e in s.events if e.name.split("::")[-1] in ("cl1", "cl1mp")]
        sh = [e for e in s.events if e.name.endswith("::shrink")]
        if len(cl) != 1 or len(sh) != 1:
            r.add("cl1.called_once_after_shrink", FAILED, "trace", 0, "%d cl1, %d shrink" % (len(cl), len(sh))); continue
        n1 += 1
        a = cl[0].args
        okd = all(x.op == "select" and ".mem:I" in repr(_base(x.args[0])) and x.args[1][0] is p for x, p in zip(a[0:4], sh[0].args[3:7]))
        r.add("cl1.dimensions_are_k,l,m,n_as_left_by_shrink", DISCHARGED if okd else FAILED, "trace", 0, repr(a[0:4])[:300], kind="trace")
        okv = vec_of(a[6]) == "array1" and vec_of(a[10]) == "delta2" and vec_of(a[11]) == "inv_res" and a[7] is tm.app("fld:kode", (THIS,), "P")
        r.add("cl1.matrix_array1,solution_delta2,residuals_inv_res,status_kode", DISCHARGED if okv else FAILED, "trace", 0, repr([a[6], a[7], a[10], a[11]])[:300], kind="trace")
        after = s.events[s.events.index(cl[0]) + 1:]
        mc = memcpys(after)
        okz = any(m[0] == "inv_delta1" and m[1] == "inv_zero" and _bytes_is(m[2], tm.select(_gen(m[2], "max_column_count"), THIS), list(s.pc)) for m in mc)
        r.add("result.inv_delta1_zeroed_whole_before_the_scatter(dropped_unknowns_report_0)", DISCHARGED if okz else FAILED, "trace", 0, repr(mc)[:300], kind="trace")
        kode = [t for t in tm.subterms(tm.and_(*s.pc)) if t.op == "select" and ".kode:I" in repr(_base(t.args[0]))]
        if not kode:
            r.add("return.depends_on_kode", FAILED, "symex", 0, "no test of kode on this path"); continue
        kd = sorted(kode, key=lambda t: int("".join(ch for ch in repr(_base(t.args[0])).split(".")[0] if ch.isdigit()) or 0))[-1]
        for case, hy in spec_cases(list(s.pc), [("fail", tm.not_(tm.eq(kd, I0)))]):
            rets.add("ERROR" if case["fail"] else "OK")
            U.discharge_valid(r, "return.%s" % ("ERROR_when_kode!=0" if case["fail"] else "OK_when_kode==0"), hy, tm.eq(s.ret, ERR if case["fail"] else OKV))
    r.add("reach.whole_function", DISCHARGED if n1 and rets == {"ERROR", "OK"} else UNDECIDED, "symex", 0, "%d paths, returns %r" % (n1, sorted(rets)), kind="vacuity")
    # the two scatter loops
    for tag, vec in (("delta_save", "delta_save"), ("inv_delta1", "inv_delta1")):
        lps = [lp for lp in all_loops(fn) if text_of(INV, lp["inner"][-1]).replace("{", "").startswith(vec + "[")]
        if len(lps) != 1:
            r.add("scatter[%s].loop_found" % tag, UNDECIDED, "syntactic", 0, "%d" % len(lps)); continue
        f, ex, its, info = U.run_loop_isolated(INV, q, ordinal(fn, lps[0]), ctx=mkctx())
        i = tm.sym("iter_i", "I")
        for s in live(its, ("run", "cont")):
            cb = tm.select(entry_arr(ex, s, ("m", "I")), vdata0(ex, s, "col_back"), i)
            d2 = tm.select(entry_arr(ex, s, ("m", "R")), vdata0(ex, s, "delta2"), i if not (twin and tag == "inv_delta1") else cb)
            match_writes(r, "scatter[%s]" % tag, list(s.pc), vec_writes(ex, s, vec), [(cb, d2, "%s[col_back[i]]==delta2[i]" % vec)], "no_other_entry_written")
        h = head(INV, lps[0])
        r.add("scatter[%s].covers_the_n_kept_unknowns" % tag, DISCHARGED if h == ("i=0", "i<n", "i++") else FAILED, "syntactic", 0, repr(h), kind="structural")
    r.assumptions += ["shrink and cl1 are opaque here (shrink: unit C18.shrink...; cl1 outside every unit); everything they may write is re-read after the call",
                      "memcpy copies the stated number of bytes, sizeof(LDBLE) == 8", "the debug printing branches are executed but not specified", "loop headers of the scatter loops compared as text"]
    return r


def _gen(term, name):
    """the memory generation of field `name` that occurs in term (falls back to H0)"""
    for t in tm.subterms(term):
        if t.op == "sym" and t.args[0].endswith(".%s:I" % name):
            return t
    return tm.sym("H0.%s:I" % name, ("A", "P", "I"))



def clamp_check(r, name, hy, evs, value, x, TRUEV):
    """value == (equal(x, 0, MIN_TOTAL_INVERSE) == TRUE ? 0 : x), read off the `equal` calls made on the path"""
    eqs = [e for e in evs if e.name.endswith("::equal") and (e.args[0] is x or same(hy, e.args[0], x)) and tm.isnum(e.args[1]) and e.args[1].args[0] == 0 and tm.isnum(e.args[2])]
    if not eqs:
        return U.discharge_eq_real(r, name + "(unclamped)", hy, value, x)
    cond = tm.eq(eqs[0].result, TRUEV)
    for case, h in spec_cases(hy, [("tiny", cond)]):
        U.discharge_eq_real(r, name + ("(tiny->0)" if case["tiny"] else ""), h, value, tm.num(0) if case["tiny"] else x)


def unit_punch_model(twin=False):
    """selected output of a model: for every solution q the triple (alpha_q, min, max) = (inv_delta1[q], min_delta[q], max_delta[q]) and for every
    phase column c in [col_phases, col_redox) the triple (inv_delta1[c], min_delta[c], max_delta[c]); each value is written under the next
    heading in turn; values within 1e-14 of zero are written as 0 (each tested on itself)."""
    q = "Phreeqc::punch_model"
    fn = A.find_function(INV, q)
    r = U.new_unit("C18.punch_model.reports_value_min_max_of_the_item's_own_unknown", INV, q, fn)
    L = all_loops(fn)
    sol = [lp for lp in L if head(INV, lp)[1] == "i<inv_ptr->count_solns"]
    pha = [lp for lp in L if "fpunchf" in text_of(INV, lp["inner"][-1]) and lp not in sol and head(INV, lp)[0] != ""]
    if len(sol) != 1 or len(pha) != 1:
        raise Undecided("value loops of punch_model not found (%d, %d)" % (len(sol), len(pha)))
    TRUEV = I1
    for tag, lp in (("solution", sol[0]), ("phase", pha[0])):
        c = mkctx(functional=("equal", "Get_high_precision"))
        f, ex, its, info = U.run_loop_isolated(INV, q, ordinal(fn, lp), ctx=c)
        i = tm.sym("iter_i", "I")
        n = 0
        for s in live(its, ("run", "cont")):
            n += 1
            hy = list(s.pc)
            evs = U.iter_events(s)
            fp = [e for e in evs if e.name.endswith("fpunchf")]
            if len(fp) != 3:
                r.add("%s.three_values_per_item" % tag, FAILED, "trace", 0, "%d" % len(fp)); continue
            R0 = entry_arr(ex, s, ("m", "R"))
            xs = [tm.select(R0, vdata0(ex, s, v), i) for v in ("inv_delta1", "min_delta", "max_delta")]
            if twin:
                xs[1], xs[2] = xs[2], xs[1]
            for k, (nm, x) in enumerate(zip(("value", "minimum", "maximum"), xs)):
                clamp_check(r, "%s.field%d==%s[i]" % (tag, k + 1, ("inv_delta1", "min_delta", "max_delta")[k]), hy, evs, fp[k].args[-1], x, TRUEV)
            # headings: consecutive indices starting at the running index
            tr = [e for e in evs if e.name.endswith("trim")]
            n0 = fld0(ex, s, "n_user_punch_index", "I")
            H0 = vdata0(ex, s, "inverse_heading_names")
            okh = len(tr) == 3 and all(t.args[0].op == "select" and t.args[0].args[1][0] is H0 and same(hy, t.args[0].args[1][1], n0 + tm.num(k, "I")) for k, t in enumerate(tr))
            r.add("%s.values_filed_under_consecutive_headings" % tag, DISCHARGED if okh else FAILED, "trace", 0, repr([t.args[0].args[1][1] for t in tr if t.args[0].op == "select"])[:200], kind="trace")
            U.discharge_eq_real(r, "%s.heading_index+=3" % tag, hy, fld(ex, s, "n_user_punch_index", "I"), n0 + tm.num(3, "I"))
        r.add("reach.%s" % tag, DISCHARGED if n >= 2 else UNDECIDED, "symex", 0, "%d paths" % n, kind="vacuity")
    hs, hp = head(INV, sol[0]), head(INV, pha[0])
    r.add("solution_loop.covers_0..count_solns-1", DISCHARGED if hs == ("i=0", "i<inv_ptr->count_solns", "i++") else FAILED, "syntactic", 0, repr(hs), kind="structural")
    r.add("phase_loop.covers_col_phases..col_redox-1", DISCHARGED if hp[0] in ("size_ti=col_phases", "i=col_phases") and hp[1] == "i<col_redox" and hp[2] in ("i++", "++i") else FAILED, "syntactic", 0, repr(hp), kind="structural")
    # the heading writer walks the same two ranges, three names per item
    fh = A.find_function(INV, "Phreeqc::punch_model_heading")
    LH = [lp for lp in all_loops(fh) if "inverse_heading_names.push_back" in text_of(INV, lp["inner"][-1]).replace(" ", "")]
    heads = [head(INV, lp) for lp in LH if head(INV, lp)[0] != ""]
    okp = len(heads) == 2 and heads[0] == hs and heads[1] == hp
    r.add("headings.same_two_ranges_as_the_values", DISCHARGED if okp else FAILED, "syntactic", 0, repr(heads), kind="pairing")
    for lp in [x for x in LH if head(INV, x)[0] != ""]:
        f, ex, its, info = U.run_loop_isolated(INV, "Phreeqc::punch_model_heading", ordinal(fh, lp), ctx=mkctx())
        for s in live(its, ("run", "cont")):
            pb = [e for e in U.iter_events(s) if e.name == "vector.push_back"]
            ap = [e.args[0].args[0].strip('"') for e in U.iter_events(s) if e.name.endswith("::append") and e.args and e.args[0].op == "str"]
            r.add("headings.three_names_per_item(name,_min,_max)", DISCHARGED if len(pb) == 3 and ap == ["_min", "_max"] else FAILED, "trace", 0, "%d push_back, suffixes %r" % (len(pb), ap), kind="trace")
    r.assumptions += ["equal(a, b, eps) is functional (|a - b| <= eps); fpunchf / trim are opaque", "which string receives the _min / _max suffix is not tracked by the string model: only the order of the two append calls and three push_back per item",
                      "the two loop headers are compared as text between punch_model and punch_model_heading", "doubles as reals"]
    return r


def unit_print_model(twin=False):
    """printed model: adjusted concentration of element m in solution q: Input = total(m), Delta = inv_delta1[col_epsilon + m*solns + q] / inv_delta1[q]
    (the delta unknown is alpha-weighted), Input+Delta = their sum; pH likewise with column col_ph + q; fractions and phase transfers are the triples of punch_model."""
    q = "Phreeqc::print_model"
    fn = A.find_function(INV, q)
    r = U.new_unit("C18.print_model.adjustments_are_delta_over_alpha_of_the_same_solution", INV, q, fn)
    L = all_loops(fn)
    TRUEV = I1
    outer = [lp for lp in L if head(INV, lp)[1] == "i<inv_ptr->count_solns" and "xsolution_zero()" in text_of(INV, lp["inner"][-1])]
    if len(outer) != 1:
        raise Undecided("solution loop of print_model not found")
    el = [lp for lp in nested(outer[0]) if head(INV, lp)[1] == "j<inv_ptr->elts.size()"]
    if len(el) != 1:
        raise Undecided("element loop of print_model not found")
    c = mkctx(functional=("equal",))
    f, ex, its, info = U.run_loop_isolated(INV, q, ordinal(fn, el[0]), ctx=c)
    i = tm.sym("L_i", "I"); j = tm.sym("iter_j", "I")
    n = 0; ne = 0; done_sigs = set()
    for s in live(its, ("run", "cont")):
        hy = list(s.pc)
        evs = U.iter_events(s)
        inv = local(info, s, "inv_ptr")
        mp = fld0(ex, s, "master", "P", elt_addr(ex, s, inv, j))
        sf = [e for e in evs if e.name.endswith("sformatf") and len(e.args) == 5]
        for case, h in spec_cases(hy, [("elec", tm.eq(fld0(ex, s, "s", "P", mp), fld0(ex, s, "s_eminus", "P")))]):
            if case["elec"]:
                ne += 1
                r.add("element.electron_row_not_printed", DISCHARGED if not sf else FAILED, "trace", 0, "", kind="frame"); continue
            if len(sf) != 1:
                r.add("element.one_line_per_element", FAILED, "trace", 0, "%d" % len(sf)); continue
            n += 1
            # paths that differ only after the line was printed (uncertainty bookkeeping) print the same three terms under the same clamp decisions
            sig = (sf[0].args[2], sf[0].args[3], sf[0].args[4], frozenset(p_ for p_ in s.pc if "call:equal" in repr(p_)[:4000] and "MIN" not in repr(p_)[:0]))
            if sig in done_sigs:
                continue
            done_sigs.add(sig)
            R0 = entry_arr(ex, s, ("m", "R")); D = vdata0(ex, s, "inv_delta1")
            ns = fld0(ex, s, "count_solns", "I", inv)
            d1 = fld0(ex, s, "total", "R", mp)
            col = fld0(ex, s, "col_epsilon", "I") + j * ns + i
            d2 = tm.select(R0, D, col) / tm.select(R0, D, i if not twin else j)
            a = sf[0].args
            clamp_check(r, "element.Input==total_of_the_element", h, evs, a[2], d1, TRUEV)
            clamp_check(r, "element.Delta==inv_delta1[col_epsilon+m*solns+q]/inv_delta1[q]", h, evs, a[3], d2, TRUEV)
            clamp_check(r, "element.Input+Delta==sum", h, evs, a[4], d1 + d2, TRUEV)
    r.add("reach.element", DISCHARGED if n >= 4 and ne else UNDECIDED, "symex", 0, "%d printed paths, %d electron paths" % (n, ne), kind="vacuity")
    # fractions and phase transfers
    fr = [lp for lp in L if head(INV, lp)[1] == "i<inv_ptr->count_solns" and "\"Solution\"" in text_of(INV, lp["inner"][-1])]
    ph = [lp for lp in L if head(INV, lp)[1] == "i<col_redox" and "phase->formula" in text_of(INV, lp["inner"][-1])]
    if len(fr) != 1 or len(ph) != 1:
        raise Undecided("fraction / phase-transfer loops not found (%d, %d)" % (len(fr), len(ph)))
    for tag, lp, nargs in (("fraction", fr[0], 6), ("phase", ph[0], 6)):
        c = mkctx(functional=("equal",))
        f, ex, its, info = U.run_loop_isolated(INV, q, ordinal(fn, lp), ctx=c)
        ii = tm.sym("iter_i", "I")
        n = 0
        for s in live(its, ("run", "cont")):
            hy = list(s.pc)
            evs = U.iter_events(s)
            sf = [e for e in evs if e.name.endswith("sformatf") and len(e.args) == nargs and e.args[0].op == "str" and e.args[0].args[0].count("%12.3e") == 3]
            R0 = entry_arr(ex, s, ("m", "R"))
            xs = [tm.select(R0, vdata0(ex, s, v), ii) for v in ("inv_delta1", "min_delta", "max_delta")]
            if not sf:
                if tag == "phase" and s.status == "cont":
                    # a phase line is suppressed only when value, minimum and maximum are all within the tolerance of zero
                    tol = fld0(ex, s, "toler", "R")
                    eqs = [e for e in evs if e.name.endswith("::equal")]
                    ok = len(eqs) == 3 and all(e.args[0] is x and e.args[2] is tol for e, x in zip(eqs, xs)) and all(tm.eq(e.result, TRUEV) in hy for e in eqs)
                    r.add("phase.line_suppressed_only_when_value_min_max_all_zero", DISCHARGED if ok else FAILED, "trace", 0, repr([e.args for e in eqs])[:200])
                    continue
                r.add("%s.line_printed" % tag, FAILED, "trace", 0, repr([e.name for e in evs])[:200]); continue
            n += 1
            a = sf[0].args
            vals = a[2:5] if tag == "phase" else a[3:6]
            for k, x in enumerate(xs):
                clamp_check(r, "%s.field%d==%s[i]" % (tag, k + 1, ("inv_delta1", "min_delta", "max_delta")[k]), hy, evs, vals[k], x, TRUEV)
        r.add("reach.%s" % tag, DISCHARGED if n >= 2 else UNDECIDED, "symex", 0, "%d" % n, kind="vacuity")
    hf, hp = head(INV, fr[0]), head(INV, ph[0])
    r.add("fraction_loop.covers_every_solution", DISCHARGED if hf == ("i=0", "i<inv_ptr->count_solns", "i++") else FAILED, "syntactic", 0, repr(hf), kind="structural")
    r.add("phase_loop.covers_col_phases..col_redox-1", DISCHARGED if hp[0] in ("size_ti=col_phases", "i=col_phases") and hp[2] in ("i++", "++i") else FAILED, "syntactic", 0, repr(hp), kind="structural")
    r.assumptions += ["equal() functional; sformatf / output_msg opaque: the values are the arguments handed to sformatf", "master->total holds the solution's total of the element (set by the loop over Get_totals() above; not under this contract)",
                      "the saturation-index part of the phase line is not specified", "doubles as reals"]
    return r



def unit_range(twin=False):
    """-range: for every item in the model (forced phases / solutions added) the minimum and the maximum of ITS unknown are obtained by solving
    the model's own constraints (all rows of my_array, sign vector delta, the model's mask) with the optimisation rows replaced by the single
    objective  x_i ~ -|range_max| (minimum) / +|range_max| (maximum); the result read from the shrunk position j with col_back[j] == i is
    stored in min_delta[i] (f < 0) or max_delta[i]; the final solution has min = max = 1; items outside the mask keep 0."""
    q = "Phreeqc::range"
    fn = A.find_function(INV, q)
    r = U.new_unit("C18.range.min_and_max_of_each_unknown_under_the_model's_constraints", INV, q, fn)
    L = all_loops(fn)
    fl = [lp for lp in L if head(INV, lp)[0] == "f=-1"]
    if len(fl) != 1 or head(INV, fl[0]) != ("f=-1", "f<2", "f+=2"):
        r.add("objective_loop.runs_f=-1_then_f=+1", FAILED if len(fl) == 1 else UNDECIDED, "syntactic", 0, repr([head(INV, x) for x in fl]), kind="structural")
        if len(fl) != 1:
            return r
    else:
        r.add("objective_loop.runs_f=-1_then_f=+1", DISCHARGED, "syntactic", 0, "", kind="structural")
    stmts = body_nodes(fl[0])
    ks = next((k for k, x in enumerate(stmts) if text_of(INV, x).startswith("shrink(")), None)
    srch = [k for k, x in enumerate(stmts) if x.get("kind") == "ForStmt" and "col_back[j]==i" in text_of(INV, x["inner"][-1])]
    if ks is None or len(srch) != 1:
        raise Undecided("shrink call / search loop of range not found")
    # region A: the problem handed to shrink
    f, ex, fin, info = region(INV, q, stmts[:ks + 1], skip_ctx())
    i = tm.sym("L_i", "I"); fv = tm.sym("L_f", "I")
    n = 0
    for s in live(fin):
        n += 1
        hy0 = list(s.pc)
        inv = local(info, s, "inv_ptr")
        g = lambda nm: fld0(ex, s, nm, "I")
        mc = memcpys(s.events)
        for (d, srcv), cnt in {("array1", "my_array"): g("max_column_count") * g("max_row_count"), ("delta2", "delta"): g("max_column_count"), ("inv_res", "inv_zero"): g("max_row_count")}.items():
            hit = [m for m in mc if m[0] == d and m[1] == srcv]
            r.add("problem.%s<-%s(whole)" % (d, srcv), DISCHARGED if len(hit) == 1 and _bytes_is(hit[0][2], cnt, hy0) else FAILED, "trace", 0, repr(mc)[:300], kind="trace")
        sh = [e for e in s.events if e.name.endswith("::shrink")]
        if len(sh) != 1:
            r.add("shrink.called_once", FAILED, "trace", 0, "%d" % len(sh)); continue
        a = sh[0].args
        mem = ex.heap_arr(s, ("m", "I"))
        vals = [tm.select(mem, a[3 + k_], I0) for k_ in range(4)]
        U.discharge_eq_real(r, "dims.k==row_mb", hy0, vals[0], g("row_mb"))
        U.discharge_eq_real(r, "dims.l==row_epsilon-row_mb", hy0, vals[1], g("row_epsilon") - g("row_mb"))
        U.discharge_eq_real(r, "dims.m==count_rows-row_epsilon", hy0, vals[2], g("count_rows") - g("row_epsilon"))
        U.discharge_eq_real(r, "dims.n==count_unknowns", hy0, vals[3], g("count_unknowns"))
        ok = a[0] is inv and [vec_of(a[1]), vec_of(a[2]), vec_of(a[8]), vec_of(a[9]), vec_of(a[10])] == ["array1", "array1", "delta2", "col_back", "row_back"] and a[7] is local(info, s, "cur_bits")
        r.add("shrink(inv,array1_in_place,&k,&l,&m,&n,the_model's_mask(with_forced_items),delta2,col_back,row_back)", DISCHARGED if ok else FAILED, "trace", 0, repr(a)[:300], kind="trace")
        rm = fld0(ex, s, "range_max", "R", inv)
        fpre = [tm.or_(tm.eq(fv, tm.num(-1, "I")), tm.eq(fv, I1))]          # f takes the values -1 and +1 only (loop header, checked above)
        for case, hy in spec_cases(hy0 + fpre + [tm.not_(tm.eq(i, g("count_unknowns"))), tm.le(I0, i)], [("min", tm.lt(fv, I0))], base=hy0 + fpre):
            ws = vec_writes(ex, s, "array1")
            tgt = tm.neg(absr(rm)) if case["min"] else absr(rm)
            if twin and case["min"]:
                tgt = absr(rm)
            match_writes(r, "objective[%s]" % ("minimum" if case["min"] else "maximum"), hy, ws, [(i, tm.num(1), "row0.coefficient_of_unknown_i==1"), (g("count_unknowns"), tgt, "row0.target==%s|range_max|" % ("-" if case["min"] else "+"))],
                         "no_other_entry_written_outside_the_zeroing_loop")
    r.add("reach.problem", DISCHARGED if n else UNDECIDED, "symex", 0, "%d" % n, kind="vacuity")
    # zeroing of the optimisation rows
    zl = [lp for lp in nested(fl[0]) if head(INV, lp)[1] == "j<k"]
    if len(zl) == 1:
        f, ex, its, info = U.run_loop_isolated(INV, q, ordinal(fn, zl[0]), ctx=mkctx())
        for s in live(its, ("run", "cont")):
            mc = [e for e in U.iter_events(s) if e.name.endswith("memcpy")]
            j = tm.sym("iter_j", "I")
            ok = len(mc) == 1 and same(list(s.pc), mc[0].args[0], at(vdata0(ex, s, "array1"), j * F(ex, s, "max_column_count"))) and vec_of(mc[0].args[1]) == "inv_zero" and _bytes_is(mc[0].args[2], F(ex, s, "max_column_count"), list(s.pc))
            r.add("objective.optimisation_row_j_zeroed_whole", DISCHARGED if ok else FAILED, "trace", 0, repr([e.args for e in mc])[:300], kind="trace")
        r.add("objective.every_optimisation_row(0..k-1)", DISCHARGED if head(INV, zl[0]) == ("j=0", "j<k", "j++") else FAILED, "syntactic", 0, repr(head(INV, zl[0])), kind="structural")
    else:
        r.add("objective.zeroing_loop_found", UNDECIDED, "syntactic", 0, "%d" % len(zl))
    # region B: where the answer goes
    f, ex, fin, info = region(INV, q, stmts[srch[0]:srch[0] + 2], skip_ctx())
    seen = set()
    for s in live(fin):
        jv = local(info, s, "j")
        for case, hy in spec_cases(list(s.pc), [("min", tm.lt(fv, I0))]):
            wmin, wmax = vec_writes(ex, s, "min_delta"), vec_writes(ex, s, "max_delta")
            d2 = tm.select(entry_arr(ex, s, ("m", "R")), vdata0(ex, s, "delta2"), jv)
            seen.add("min" if case["min"] else "max")
            if case["min"]:
                match_writes(r, "result[minimum]", hy, wmin, [(i, d2, "min_delta[i]==delta2[j]")], "no_other_minimum_written")
                r.add("result[minimum].maximum_untouched", DISCHARGED if not wmax else FAILED, "symex", 0, "", kind="frame")
            else:
                match_writes(r, "result[maximum]", hy, wmax, [(i, d2, "max_delta[i]==delta2[j]")], "no_other_maximum_written")
                r.add("result[maximum].minimum_untouched", DISCHARGED if not wmin else FAILED, "symex", 0, "", kind="frame")
    r.add("reach.result", DISCHARGED if seen == {"min", "max"} else UNDECIDED, "symex", 0, repr(sorted(seen)), kind="vacuity")
    f, ex, its, info = U.run_loop_isolated(INV, q, ordinal(fn, stmts[srch[0]]), ctx=mkctx())
    for s in live(its, ("run", "cont", "brk")):
        j = tm.sym("iter_j", "I")
        hit = tm.eq(tm.select(entry_arr(ex, s, ("m", "I")), vdata0(ex, s, "col_back"), j), tm.sym("L_i", "I"))
        for case, hy in spec_cases(list(s.pc), [("hit", hit)]):
            r.add("search.stops_exactly_at_col_back[j]==i", DISCHARGED if (s.status == "brk") == case["hit"] else FAILED, "symex", 0, "status %s, hit %s" % (s.status, case["hit"]))
    # the item loop: final solution fixed at 1, items outside the mask skipped
    il = [lp for lp in L if fl[0] in nested(lp)]
    if len(il) != 1:
        raise Undecided("item loop of range not found")
    pre = [x for x in body_nodes(il[0]) if x is not fl[0]]
    f, ex, fin, info = region(INV, q, pre, skip_ctx(("get_bits",)))
    ii = tm.sym("L_i", "I")
    seen = set()
    for s in live(fin, ("run", "cont")):
        inv = local(info, s, "inv_ptr"); ns = fld0(ex, s, "count_solns", "I", inv)
        gb = [e for e in s.events if e.name.endswith("get_bits")]
        for case, hy in spec_cases(list(s.pc), [("final", tm.eq(ii, ns - I1))]):
            wmin, wmax = vec_writes(ex, s, "min_delta"), vec_writes(ex, s, "max_delta")
            if case["final"]:
                seen.add("final")
                match_writes(r, "final_solution.minimum", hy, wmin, [(ii, tm.num(1), "min_delta[final]==1")], "no_other")
                match_writes(r, "final_solution.maximum", hy, wmax, [(ii, tm.num(1), "max_delta[final]==1")], "no_other")
                r.add("final_solution.no_optimisation", DISCHARGED if s.status == "cont" else FAILED, "symex", 0, s.status)
            else:
                okg = len(gb) == 1 and gb[0].args[0] is local(info, s, "bits") and gb[0].args[1] is ii
                r.add("item.tests_bit_i_of_the_switched_mask", DISCHARGED if okg else FAILED, "trace", 0, repr([e.args for e in gb])[:200])
                if okg:
                    for c2, h2 in spec_cases(hy, [("out", tm.eq(gb[0].result, I0))]):
                        seen.add("outside" if c2["out"] else "inside")
                        r.add("item[%s]" % ("outside_the_model.skipped_min_max_stay_0" if c2["out"] else "in_the_model.optimised"), DISCHARGED if (s.status == "cont") == c2["out"] and not wmin and not wmax else FAILED, "symex", 0, s.status)
    r.add("reach.items", DISCHARGED if seen == {"final", "outside", "inside"} else UNDECIDED, "symex", 0, repr(sorted(seen)), kind="vacuity")
    # prologue: forced items join the mask; min/max zeroed; the mask is switched so that bit c of `bits` belongs to column c
    body = A.body_of(fn)["inner"]
    fo = [lp for lp in body if lp.get("kind") == "ForStmt" and "force" in text_of(INV, lp["inner"][-1])]
    if len(fo) == 1:
        f, ex, its, info = U.run_loop_isolated(INV, q, ordinal(fn, fo[0]), ctx=mkctx(functional=("set_bit",)))
        i2 = tm.sym("iter_i", "I")
        seen = set()
        for s in live(its, ("run", "cont")):
            inv = local(info, s, "inv_ptr"); np_ = vsize0(ex, s, "phases", inv)
            sb = [e for e in U.iter_events(s) if e.name.endswith("set_bit")]
            fph = fld0(ex, s, "force", "I", at(vdata0(ex, s, "phases", inv), i2))
            # std::vector<bool>::operator[] is an opaque bit reference: the element read is the receiver of its conversion to bool
            ob = [e for e in U.iter_events(s) if e.name.endswith("operator bool")]
            want_addr = at(vdata0(ex, s, "force_solns", inv), i2 - np_)
            if ob:
                r.add("forced.solution_flag_read_is_force_solns[i-phases]", DISCHARGED if same(list(s.pc), ob[0].recv, want_addr) else FAILED, "trace", 0, repr(ob[0].recv)[:200])
            fso = tm.ite(ob[0].result, I1, I0) if ob else tm.sym("force_solns_not_read", "I")
            for case, hy in spec_cases(list(s.pc), [("phase", tm.lt(i2, np_)), ("fp", tm.eq(fph, I1)), ("fs", tm.eq(fso, I1))]):
                if not case["phase"] and not ob:
                    r.add("forced.solution_flag_read", FAILED, "trace", 0, "force_solns not consulted for a solution item"); continue
                forced = case["fp"] if case["phase"] else case["fs"]
                seen.add(("phase" if case["phase"] else "solution") + ("_forced" if forced else ""))
                cb0, cb1 = tm.sym("iter_cur_bits", "I"), local(info, s, "cur_bits")
                if forced:
                    ok = len(sb) == 1 and sb[0].args[0] is cb0 and same(hy, sb[0].args[1], i2) and same(hy, sb[0].args[2], I1) and cb1 is sb[0].result
                    r.add("forced.item_added_to_the_mask(set_bit(mask,i,1))", DISCHARGED if ok else FAILED, "trace", 0, repr([e.args for e in sb])[:200])
                else:
                    r.add("forced.unforced_item_leaves_the_mask", DISCHARGED if cb1 is cb0 else FAILED, "symex", 0, repr(cb1)[:100], kind="frame")
        r.add("reach.forced", DISCHARGED if {"phase_forced", "solution_forced", "phase", "solution"} <= seen else UNDECIDED, "symex", 0, repr(sorted(seen)), kind="vacuity")
        hf = head(INV, fo[0])
        r.add("forced.covers_phases_then_solutions(0..phases+solns-1)", DISCHARGED if hf[1] in ("i<inv_ptr->count_solns+inv_ptr->phases.size()", "i<inv_ptr->phases.size()+inv_ptr->count_solns") and hf[0].endswith("i=0") else FAILED, "syntactic", 0, repr(hf), kind="structural")
    else:
        r.add("forced.loop_found", UNDECIDED, "syntactic", 0, "%d" % len(fo))
    k0 = next((k for k, x in enumerate(body) if x is il[0]), None)
    kf = next((k for k, x in enumerate(body) if fo and x is fo[0]), -1)
    f, ex, fin, info = region(INV, q, body[kf + 1:k0], mkctx(functional=("get_bits",)))
    for s in live(fin):
        inv = local(info, s, "inv_ptr"); ns = fld0(ex, s, "count_solns", "I", inv); np_ = vsize0(ex, s, "phases", inv)
        mc = memcpys(s.events)
        for d in ("min_delta", "max_delta"):
            hit = [m for m in mc if m[0] == d and m[1] == "inv_zero"]
            r.add("prologue.%s_zeroed_whole" % d, DISCHARGED if len(hit) == 1 and _bytes_is(hit[0][2], fld0(ex, s, "max_column_count", "I"), list(s.pc)) else FAILED, "trace", 0, repr(mc)[:200], kind="trace")
        gb = [e for e in s.events if e.name.endswith("get_bits")]
        cbits = local(info, s, "cur_bits")
        hy = list(s.pc)
        ok = (len(gb) == 2 and gb[0].args[0] is cbits and same(hy, gb[0].args[1], np_ + ns - I1) and same(hy, gb[0].args[2], ns)
              and gb[1].args[0] is cbits and same(hy, gb[1].args[1], np_ - I1) and same(hy, gb[1].args[2], np_))
        r.add("prologue.switched_mask=solution_bits_low,phase_bits_shifted_by_count_solns", DISCHARGED if ok else FAILED, "trace", 0, repr([e.args for e in gb])[:300], kind="trace")
        bv = local(info, s, "bits")
        okb = ok and any(t is gb[0].result for t in tm.subterms(bv)) and any(t is gb[1].result for t in tm.subterms(bv))
        r.add("prologue.switched_mask_combines_both_parts", DISCHARGED if okb else FAILED, "symex", 0, repr(bv)[:200])
    r.assumptions += ["shrink / cl1 opaque; get_bits / set_bit functional (units C18.bits.*)", "loops inside the objective loop are skipped when reading its straight-line effect and put under their own iteration contracts",
                      "the shift in the switched mask is not evaluated bit-precisely here (only that both get_bits parts enter it)", "loop headers compared as text for coverage facts", "doubles as reals"]
    return r



def unit_check_solns(twin=False):
    """charge-balance feasibility of each solution q on its own: the problem handed to cl1 is the whole matrix with (a) the mole-balance, water and
    final-fraction rows [row_mb, row_charge) blanked, (b) the fraction of solution q fixed to 1 in the last of them, (c) the charge rows of all other
    solutions, the isotope balances and the isotope inequalities blanked, restricted by shrink to the mask {solution q}; ERROR is returned when any
    solution cannot be balanced."""
    q = "Phreeqc::check_solns"
    fn = A.find_function(INV, q)
    r = U.new_unit("C18.check_solns.each_solution_tested_alone_with_its_own_charge_row", INV, q, fn)
    L = all_loops(fn)
    outer = [lp for lp in L if head(INV, lp)[1] == "i<inv_ptr->count_solns" and "shrink(" in text_of(INV, lp["inner"][-1])]
    if len(outer) != 1:
        raise Undecided("solution loop of check_solns not found")
    stmts = body_nodes(outer[0])
    ks = next((k for k, x in enumerate(stmts) if text_of(INV, x).startswith("shrink(")), None)
    if ks is None:
        raise Undecided("shrink call not found")
    f, ex, fin, info = region(INV, q, stmts[:ks + 1], skip_ctx())
    i = tm.sym("L_i", "I")
    n = 0
    for s in live(fin):
        n += 1
        hy = list(s.pc)
        inv = local(info, s, "inv_ptr")
        g = lambda nm: fld0(ex, s, nm, "I")
        mc = memcpys(s.events)
        for (d, srcv), cnt in {("array1", "my_array"): g("max_column_count") * g("max_row_count"), ("delta2", "delta"): g("max_column_count"), ("inv_res", "inv_zero"): g("max_row_count")}.items():
            hit = [m for m in mc if m[0] == d and m[1] == srcv]
            r.add("problem.%s<-%s(whole)" % (d, srcv), DISCHARGED if len(hit) == 1 and _bytes_is(hit[0][2], cnt, hy) else FAILED, "trace", 0, repr(mc)[:300], kind="trace")
        sh = [e for e in s.events if e.name.endswith("::shrink")]
        if len(sh) != 1:
            r.add("shrink.called_once", FAILED, "trace", 0, "%d" % len(sh)); continue
        a = sh[0].args
        mem = ex.heap_arr(s, ("m", "I"))
        vals = [tm.select(mem, a[3 + k_], I0) for k_ in range(4)]
        U.discharge_eq_real(r, "dims.k==row_mb", hy, vals[0], g("row_mb"))
        U.discharge_eq_real(r, "dims.l==row_epsilon-row_mb", hy, vals[1], g("row_epsilon") - g("row_mb"))
        U.discharge_eq_real(r, "dims.m==count_rows-row_epsilon", hy, vals[2], g("count_rows") - g("row_epsilon"))
        U.discharge_eq_real(r, "dims.n==count_unknowns", hy, vals[3], g("count_unknowns"))
        bits = local(info, s, "bits")
        ok = a[0] is inv and [vec_of(a[1]), vec_of(a[2]), vec_of(a[8]), vec_of(a[9]), vec_of(a[10])] == ["array1", "array1", "delta2", "col_back", "row_back"] and a[7] is bits
        r.add("shrink(inv,array1_in_place,&k,&l,&m,&n,mask_of_solution_q,delta2,col_back,row_back)", DISCHARGED if ok else FAILED, "trace", 0, repr(a)[:300], kind="trace")
        # the mask: only bit phases + q
        np_ = vsize0(ex, s, "phases", inv)
        shl = [t for t in tm.subterms(bits) if t.op in ("shl", "<<") or (t.op == "app" and "shl" in str(t.args[0]))]
        okm = bool(shl) and any(same(hy, t.args[-1], np_ + (i if not twin else I0)) for t in shl) and any(tm.isnum(t.args[-2]) and int(t.args[-2].args[0]) == 1 for t in shl)
        r.add("mask==1<<(phases+q)(only_solution_q)", DISCHARGED if okm else (FAILED if shl else UNDECIDED), "symex", 0, repr(bits)[:200])
        maxc = g("max_column_count"); rc = g("row_charge"); cu = g("count_unknowns")
        ws = vec_writes(ex, s, "array1")
        pre = [tm.le(I0, i), tm.lt(i, cu), tm.lt(cu, maxc)]
        match_writes(r, "fraction_row", hy + pre, ws, [((rc - I1) * maxc + i, tm.num(1), "entry(row_charge-1,q)==1"), ((rc - I1) * maxc + cu, tm.num(1), "rhs(row_charge-1)==1")], "no_other_entry_written_outside_the_blanking_loops")
    r.add("reach.problem", DISCHARGED if n else UNDECIDED, "symex", 0, "%d" % n, kind="vacuity")
    # blanking loops
    want = {("j=row_mb", "j<row_charge"): ("mole_balance_water_and_fraction_rows", lambda ex, s, j: j),
            ("j=0", "j<inv_ptr->count_solns"): ("charge_rows_of_the_other_solutions", lambda ex, s, j: fld0(ex, s, "row_charge", "I") + j),
            ("size_tj=row_isotopes", "j<row_epsilon"): ("isotope_balances", lambda ex, s, j: j),
            ("size_tj=row_isotope_epsilon", "j<count_rows"): ("isotope_inequalities", lambda ex, s, j: j)}
    found = set()
    for lp in nested(outer[0]):
        h = head(INV, lp)
        key = (h[0], h[1])
        if key not in want or "memcpy" not in text_of(INV, lp["inner"][-1]):
            continue
        tag, rowf = want[key]
        found.add(tag)
        f, ex, its, info = U.run_loop_isolated(INV, q, ordinal(fn, lp), ctx=mkctx())
        j = tm.sym("iter_j", "I")
        for s in live(its, ("run", "cont")):
            mc = [e for e in U.iter_events(s) if e.name.endswith("memcpy")]
            maxc = F(ex, s, "max_column_count")
            if tag == "charge_rows_of_the_other_solutions":
                for hy, own in cases(list(s.pc), tm.eq(j, tm.sym("L_i", "I"))):
                    if own:
                        r.add("blank[%s].own_charge_row_kept" % tag, DISCHARGED if not mc else FAILED, "trace", 0, "", kind="frame")
                    else:
                        ok = len(mc) == 1 and same(hy, mc[0].args[0], at(vdata0(ex, s, "array1"), rowf(ex, s, j) * maxc)) and vec_of(mc[0].args[1]) == "inv_zero" and _bytes_is(mc[0].args[2], maxc, hy)
                        r.add("blank[%s].row_charge+j_zeroed_whole" % tag, DISCHARGED if ok else FAILED, "trace", 0, repr([e.args for e in mc])[:300], kind="trace")
            else:
                hy = list(s.pc)
                ok = len(mc) == 1 and same(hy, mc[0].args[0], at(vdata0(ex, s, "array1"), rowf(ex, s, j) * maxc)) and vec_of(mc[0].args[1]) == "inv_zero" and _bytes_is(mc[0].args[2], maxc, hy)
                r.add("blank[%s].row_j_zeroed_whole" % tag, DISCHARGED if ok else FAILED, "trace", 0, repr([e.args for e in mc])[:300], kind="trace")
    r.add("blank.four_blocks_present(mole_balance..fraction,other_charge_rows,isotope_balances,isotope_inequalities)", DISCHARGED if len(found) == 4 else FAILED, "syntactic", 0, repr(sorted(found)), kind="structural")
    # outcome
    c = mkctx(); c.pure = PureExcept(["shrink", "cl1", "cl1mp"])
    f, ex, its, info = U.run_loop_isolated(INV, q, ordinal(fn, outer[0]), ctx=c)
    seen = set()
    ERR = tm.num(c.enum_values["ERROR"], "I")
    for s in live(its, ("run", "cont")):
        cl = [e for e in U.iter_events(s) if e.name.split("::")[-1] in ("cl1", "cl1mp")]
        if len(cl) != 1:
            r.add("outcome.cl1_called_once_per_solution", FAILED, "trace", 0, "%d" % len(cl)); continue
        kd = fld(ex, s, "kode", "I")
        rv0, rv1 = tm.sym("iter_return_value", "I"), local(info, s, "return_value")
        for hy, bad in cases(list(s.pc), tm.not_(tm.eq(kd, I0))):
            seen.add(bad)
            U.discharge_valid(r, "outcome.%s" % ("infeasible_solution_makes_the_result_ERROR" if bad else "feasible_solution_leaves_the_result"), hy, tm.eq(rv1, ERR if bad else rv0))
    r.add("reach.outcome", DISCHARGED if seen == {True, False} else UNDECIDED, "symex", 0, repr(sorted(seen)), kind="vacuity")
    r.assumptions += ["shrink / cl1 opaque; memcpy copies the stated bytes, sizeof(LDBLE) == 8", "loop headers of the four blanking loops compared as text (which rows they cover)",
                      "the shift building the mask is read from the term (1 << phases + q), not evaluated bit-precisely"]
    return r



def _bop(t):
    """(operator, operands) of a bit-operation term (rendered by the engine as an application), else (None, ())"""
    if isinstance(t, tm.T) and t.op == "app" and t.args[0] in ("bitand", "bitor", "bitnot", "shl", "shr", "bitxor"):
        return t.args[0], t.args[1:]
    return None, ()


def _unneg(t):
    """strip double bit-negations"""
    while _bop(t)[0] == "bitnot" and _bop(_bop(t)[1][0])[0] == "bitnot":
        t = _bop(_bop(t)[1][0])[1][0]
    return t


def unit_minimal_solve(twin=False):
    """-minimal: every item of the model (phases and initial solutions, never the final solution) is tentatively removed: the mask without bit i is
    tried unless it is contained in a known infeasible set; the bit is put back when that set is known infeasible or solve_with_mask fails (and the
    failing set is remembered); it stays out when the reduced model is feasible.  The mask returned is rebuilt from the final solve: bit phases + q
    for every solution with a non-zero fraction, bit p for every phase with a non-zero transfer (column count_solns + p)."""
    q = "Phreeqc::minimal_solve"
    fn = A.find_function(INV, q)
    r = U.new_unit("C18.minimal_solve.items_removed_one_at_a_time_and_put_back_when_infeasible", INV, q, fn)
    L = all_loops(fn)
    main = [lp for lp in L if "subset_bad(" in text_of(INV, lp["inner"][-1])]
    if len(main) != 1:
        raise Undecided("removal loop not found")
    c = mkctx(functional=("get_bits", "subset_bad", "solve_with_mask"))
    f, ex, its, info = U.run_loop_isolated(INV, q, ordinal(fn, main[0]), ctx=c)
    i = tm.sym("iter_i", "I"); m0 = tm.sym("iter_minimal_bits", "I")
    one = tm.T("shl", (I1, i), "I") if False else None
    seen = set()
    OKV = tm.num(c.enum_values["OK"], "I"); TRUEV = I1
    for s in live(its, ("run", "cont")):
        evs = U.iter_events(s)
        gb = [e for e in evs if e.name.endswith("get_bits")]
        sb = [e for e in evs if e.name.endswith("subset_bad")]
        sv = [e for e in evs if e.name.endswith("solve_with_mask")]
        bad = [e for e in evs if e.name.endswith("save_bad")]
        m1 = local(info, s, "minimal_bits")
        okg = len(gb) == 1 and gb[0].args[0] is m0 and gb[0].args[1] is i
        r.add("tests_bit_i_of_the_current_mask", DISCHARGED if okg else FAILED, "trace", 0, repr([e.args for e in gb])[:200])
        if not okg:
            continue
        for hy, absent in cases(list(s.pc), tm.eq(gb[0].result, I0)):
            if absent:
                seen.add("absent")
                r.add("absent_item.mask_unchanged_and_nothing_tried", DISCHARGED if m1 is m0 and not sb and not sv else FAILED, "symex", 0, repr(m1)[:100], kind="frame")
                continue
            if not sb:
                r.add("present_item.known_infeasible_sets_consulted", FAILED, "trace", 0, ""); continue
            D = sb[0].args[0]
            o1, a1_ = _bop(D)
            o2, a2_ = _bop(a1_[1]) if o1 == "bitand" else (None, ())
            o3, a3_ = _bop(a2_[0]) if o2 == "bitnot" else (None, ())
            okd = o1 == "bitand" and a1_[0] is m0 and o3 == "shl" and a3_[1] is i and tm.isnum(a3_[0]) and int(a3_[0].args[0]) == 1
            r.add("present_item.tries_the_mask_without_bit_i", DISCHARGED if okd else FAILED, "symex", 0, repr(D)[:200])
            bit = a2_[0] if okd else None
            def restored(t):
                o, a = _bop(t)
                return okd and o == "bitor" and a[0] is D and _unneg(a[1]) is bit
            for hy2, known in cases(hy, tm.eq(sb[0].result, TRUEV)):
                if known:
                    seen.add("known_bad")
                    r.add("known_infeasible.bit_put_back_without_solving", DISCHARGED if restored(m1) and not sv else FAILED, "symex", 0, repr(m1)[:200])
                    continue
                if len(sv) != 1 or sv[0].args[-1] is not D:
                    r.add("untried.solved_with_the_reduced_mask", FAILED, "trace", 0, repr([e.args for e in sv])[:200]); continue
                ERRV = tm.num(c.enum_values["ERROR"], "I")
                for hy3, feas in cases(hy2 + [tm.or_(tm.eq(sv[0].result, OKV), tm.eq(sv[0].result, ERRV))], tm.eq(sv[0].result, OKV)):      # solve_with_mask answers OK or ERROR (unit C18.solve_with_mask)
                    if feas != twin:
                        seen.add("feasible")
                        r.add("feasible.item_stays_out", DISCHARGED if m1 is D and not bad else FAILED, "symex", 0, repr(m1)[:200])
                    else:
                        seen.add("infeasible")
                        r.add("infeasible.failing_set_remembered_and_bit_put_back", DISCHARGED if restored(m1) and len(bad) == 1 and bad[0].args[0] is D else FAILED, "symex", 0, repr(m1)[:200])
    r.add("reach.cases", DISCHARGED if seen == {"absent", "known_bad", "feasible", "infeasible"} else UNDECIDED, "symex", 0, repr(sorted(seen)), kind="vacuity")
    # the mask reported
    TOLV = None
    for tag, lp_pred, bitf, colf in (("solution", lambda h: h[1] == "i<inv_ptr->count_solns", lambda ex, s, inv, i_: i_ + vsize0(ex, s, "phases", inv), lambda ex, s, inv, i_: i_),
                                     ("phase", lambda h: h[1] == "i<inv_ptr->phases.size()", lambda ex, s, inv, i_: i_, lambda ex, s, inv, i_: i_ + fld0(ex, s, "count_solns", "I", inv))):
        lps = [lp for lp in L if lp_pred(head(INV, lp)) and "set_bit(" in text_of(INV, lp["inner"][-1])]
        if len(lps) != 1:
            r.add("reported_mask.%s_loop_found" % tag, UNDECIDED, "syntactic", 0, "%d" % len(lps)); continue
        f, ex, its, info = U.run_loop_isolated(INV, q, ordinal(fn, lps[0]), ctx=mkctx(functional=("equal", "set_bit")))
        for s in live(its, ("run", "cont")):
            inv = local(info, s, "inv_ptr")
            evs = U.iter_events(s)
            eq = [e for e in evs if e.name.endswith("::equal")]
            st_ = [e for e in evs if e.name.endswith("set_bit")]
            x = tm.select(entry_arr(ex, s, ("m", "R")), vdata0(ex, s, "inv_delta1"), colf(ex, s, inv, i))
            oke = len(eq) == 1 and same(list(s.pc), eq[0].args[0], x)
            r.add("reported_mask.%s_judged_by_its_own_unknown" % tag, DISCHARGED if oke else FAILED, "trace", 0, repr([e.args[0] for e in eq])[:200])
            if not oke:
                continue
            a0, a1 = tm.sym("iter_actual_bits", "I"), local(info, s, "actual_bits")
            for hy, zero in cases(list(s.pc) + [tm.or_(tm.eq(eq[0].result, I0), tm.eq(eq[0].result, I1))], tm.eq(eq[0].result, I1)):        # equal() answers TRUE or FALSE
                if zero:
                    r.add("reported_mask.%s_with_zero_value_left_out" % tag, DISCHARGED if a1 is a0 else FAILED, "symex", 0, repr(a1)[:100], kind="frame")
                else:
                    ok = len(st_) == 1 and st_[0].args[0] is a0 and same(hy, st_[0].args[1], bitf(ex, s, inv, i)) and same(hy, st_[0].args[2], I1) and a1 is st_[0].result
                    r.add("reported_mask.%s_with_non-zero_value_sets_its_bit" % tag, DISCHARGED if ok else FAILED, "trace", 0, repr([e.args for e in st_])[:200])
    h = head(INV, main[0])
    r.add("removal_loop.covers_phases_and_initial_solutions(never_the_final_solution)", DISCHARGED if h[1] == "i<inv_ptr->phases.size()+inv_ptr->count_solns-1" and h[0].endswith("i=0") else FAILED, "syntactic", 0, repr(h), kind="structural")
    r.assumptions += ["get_bits / set_bit / subset_bad / solve_with_mask / equal functional; bit operations are read from the terms (m & ~(1 << i), d | ~~(1 << i)), not evaluated bit-precisely",
                      "OK == 1, ERROR == 0 as compiled", "the loop header is compared as text"]
    return r


UNITS = [("C18.shrink.drops_exactly_the_unknowns_of_absent_items_and_keeps_column_sign_and_index_together", unit_shrink),
         ("C18.solve_with_mask.problem_passed_whole_and_solution_scattered_back_to_its_unknowns", unit_solve_with_mask),
         ("C18.punch_model.reports_value_min_max_of_the_item's_own_unknown", unit_punch_model),
         ("C18.print_model.adjustments_are_delta_over_alpha_of_the_same_solution", unit_print_model),
         ("C18.range.min_and_max_of_each_unknown_under_the_model's_constraints", unit_range),
         ("C18.check_solns.each_solution_tested_alone_with_its_own_charge_row", unit_check_solns),
         ("C18.minimal_solve.items_removed_one_at_a_time_and_put_back_when_infeasible", unit_minimal_solve)]
