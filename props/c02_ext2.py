"""C02 / C03 (helper units, second batch): the SHELL of the Newton solver - Phreeqc::model (model.cpp) and its siblings model_pz (pitzer.cpp)
and model_sit (sit.cpp).  Not the numerics: the control flow a caller relies on.

 * delayed water-mass equation (KNOBS -delay_mass_water): the result that is RETURNED comes from a solve that was run with the water switch at
   the value the caller set (the switch is not written between that solve and the return, and it equals the saved value); a solve with the
   temporary constant-water setting is always REPEATED;
 * the switch is given back on EVERY return (bracket);
 * never OK with an unconverged state: the normal exit of the outer loop is taken only after check_residuals() != ERROR (and, Pitzer/SIT,
   the gamma check passed) with remove_unstable_phases == FALSE; the inner loop is left either with residuals() == CONVERGED and no unstable
   phase pending, or with stop_program == TRUE; stop_program == TRUE ends in ERROR;
 * order of one Newton iteration: (ineq -> reset)? -> gammas -> molalities -> mb_sums -> mb_gases -> mb_ss.

The obligations are an inductive decomposition: prologue establishes the invariant at the head of the outer loop, one arbitrary outer iteration
preserves it / establishes the exit condition, one arbitrary inner iteration gives the frame, the epilogue maps the exit state to the return value."""
import re
from vf.core import Undecided, FAILED, DISCHARGED, UNDECIDED
from vf.astvc import ast as A, terms as tm, unit as U, backends as B
from vf.astvc import symex as SX
from props.common import ctx, fld, fld0, live, writes, stop_on_error_msg, THIS, cases

MODELS = {"model": ("src/phreeqcpp/model.cpp", "Phreeqc::model"),
          "model_pz": ("src/phreeqcpp/pitzer.cpp", "Phreeqc::model_pz"),
          "model_sit": ("src/phreeqcpp/sit.cpp", "Phreeqc::model_sit")}
KEY_MWS = ("f", "mass_water_switch", "I")
ONE, ZERO = tm.num(1, "I"), tm.num(0, "I")
OK_, ERROR_, TRUE_, FALSE_, CONVERGED_ = ONE, ZERO, ONE, ZERO, tm.num(2, "I")


class _HookCtx(SX.Ctx):
    """the executor's per-loop callback is wrapped: an inner loop (the Newton iteration) keeps the memory components named in `keep`
    (its frame, proved separately from the inner iteration contract) and leaves a marker event `solve_loop`"""
    @property
    def loop(self):
        eng = self.__dict__.get("_engine_loop")
        if eng is None:
            return None
        def wrapped(ex, st, node, ordinal):
            kept = {k: ex.heap_arr(st, k) for k in self.__dict__.get("_keep", ())}
            out = eng(ex, st, node, ordinal)
            for s in out:
                for k, v in kept.items():
                    s.heap[k] = v
                s.events.append(SX.Event("solve_loop", None, [], ZERO, node))
            return out
        return wrapped

    @loop.setter
    def loop(self, f):
        self.__dict__["_engine_loop"] = f


def mkctx(keep=()):
    c = stop_on_error_msg(ctx())
    c.__dict__.pop("loop", None)
    c.__class__ = _HookCtx
    c.__dict__["_keep"] = tuple(keep)
    c.__dict__["_engine_loop"] = None
    return c


def loops_of(fn):
    return [x for x in A.walk(fn) if x.get("kind") in ("ForStmt", "WhileStmt", "DoStmt")]


def outer_inner(fn):
    """ordinals of the outer pass loop (contains the other) and of the Newton iteration loop"""
    ls = loops_of(fn)
    if len(ls) != 2:
        raise Undecided("expected the two loops of the solver shell, found %d" % len(ls))
    inside0 = any(x is ls[1] for x in A.walk(ls[0]))
    if not inside0:
        raise Undecided("the Newton loop is not nested in the pass loop")
    return 0, 1


_CACHE = {}


def shell(which):
    """the three symbolic runs of one solver shell (cached per process)"""
    try:
        return _shell(which)
    finally:
        # the pass loop `for (;;)` and the Newton `while` are not traversals: no generic loop-head obligation (and the same obligation count whether the runs were cached or not)
        from vf import core as _core
        if getattr(_core.PENDING, "heads", None) is not None:
            _core.PENDING.heads = []


def _shell(which):
    if which in _CACHE:
        return _CACHE[which]
    rel, q = MODELS[which]
    fn = A.find_function(rel, q)
    o, i = outer_inner(fn)
    # (a) whole function, loops summarised: prologue (states at the head of the outer loop) and epilogue (returns)
    c = mkctx()
    f, ex, fin, info = U.run_function(rel, q, modes={o: "havoc", i: "havoc"}, ctx=c)
    entries = live(info["entry"].get(o, []), ("run",))
    if not entries:
        raise Undecided("outer loop of %s not reached" % q)
    # the local that keeps the caller's value of the switch: identified by its VALUE at the loop head (the entry value of the member), not by its name
    s0 = entries[0]
    mws0 = fld0(ex, s0, "mass_water_switch", "I")
    assigned, _wm = ex.assigned_locals(loops_of(fn)[o])
    names = {}
    for x in A.walk(fn):
        if x.get("kind") == "VarDecl" and "name" in x:
            names[x["id"]] = x["name"]
    saved = [names[k] for k, v in s0.locals.items() if k in names and not isinstance(v, tuple) and v is mws0 and k not in assigned]
    # (b) one arbitrary pass of the outer loop; the Newton loop inside keeps the switch (frame (c))
    D = dict(fn=fn, rel=rel, q=q, ex0=ex, fin=fin, info0=info, entries=entries, saved=saved, mws0=mws0, o=o, i=i)
    if saved:
        sv = tm.sym("L_" + saved[0], "I")
        def prepare(ex_, s_, info_):
            m = fld(ex_, s_, "mass_water_switch", "I")
            s_.assume(tm.or_(tm.eq(m, sv), tm.and_(tm.eq(sv, FALSE_), tm.eq(m, TRUE_))))
        c2 = mkctx(keep=(KEY_MWS,))
        f2, ex2, res2, info2 = U.run_loop_isolated(rel, q, o, ctx=c2, inner_modes={i: "iter"}, prepare=prepare)
        D.update(ex=ex2, res=live(res2), info=info2, sv=sv, inner=info2["inner_iters"].get(i, []))
    _CACHE[which] = D
    return D


def flag(v):
    return tm.or_(tm.eq(v, TRUE_), tm.eq(v, FALSE_))


def no_saved_value(r, D):
    """no local holds the entry value of the switch at the head of the pass loop"""
    ex0 = D["ex0"]
    wrote = any(fld(ex0, s, "mass_water_switch", "I") is not D["mws0"] for s in D["entries"])
    if not wrote:
        raise Undecided("the switch is not written before the pass loop and no local keeps its entry value: another scheme than save/restore")
    r.add("prologue.callers_value_of_the_switch_is_kept_before_it_is_overwritten", FAILED, "symex", 0,
          "mass_water_switch is overwritten before the pass loop and no local (unassigned by the loops) holds its entry value: the caller's setting is lost", kind="establishment")
    return r


def inv(m, sv):
    return tm.or_(tm.eq(m, sv), tm.and_(tm.eq(sv, FALSE_), tm.eq(m, TRUE_)))


def classify(ex, s):
    """(kind, hypotheses): 'error' when the pass ends with stop_program == TRUE, 'normal' for the exit that leads to return OK, 'repeat' when the pass loop goes on"""
    stop = fld(ex, s, "stop_program", "I")
    if s.status in ("run", "cont"):
        return "repeat", list(s.pc)
    if s.status == "brk":
        hy = list(s.pc) + [tm.not_(tm.eq(stop, TRUE_))]
        if B.z3_sat(hy) == "unsat":
            return "error", list(s.pc)
        return "normal", hy
    return s.status, list(s.pc)


def after_solve(s):
    ev = U.iter_events(s)
    k = max([j for j, e in enumerate(ev) if e.name == "solve_loop"] or [-1])
    return ev[:k + 1], ev[k + 1:]


def short(e):
    return e.name.split("::")[-1]


def unit_water_switch(which, twin=False):
    """C02: the OK result comes from a solve made with the caller's value of mass_water_switch; a solve with the temporary constant-water
    setting (delay_mass_water) is repeated, never returned"""
    D = shell(which)
    rel, q = D["rel"], D["q"]
    r = U.new_unit("C02.%s.returned_result_is_solved_with_the_callers_water_switch" % which, rel, q, D["fn"])
    if not D["saved"]:
        return no_saved_value(r, D)
    r.add("prologue.callers_value_of_the_switch_is_kept_before_it_is_overwritten", DISCHARGED, "symex", 0, "local %s" % D["saved"][0], kind="establishment")
    ex0, sv = D["ex0"], D["sv"]
    # prologue: invariant at the loop head
    for k, s in enumerate(D["entries"]):
        m = fld(ex0, s, "mass_water_switch", "I")
        U.discharge_valid(r, "prologue#%d.switch_is_the_callers_value_or_the_temporary_TRUE_over_a_saved_FALSE" % k, list(s.pc) + [flag(D["mws0"])], inv(m, D["mws0"]), kind="establishment")
    # frame of the Newton loop
    nw = sum(len(writes(s, KEY_MWS)) for s in D["inner"])
    r.add("newton_iteration.does_not_write_the_switch", DISCHARGED if D["inner"] and nw == 0 else (FAILED if nw else UNDECIDED), "term-inspection", 0, "%d iteration paths, %d stores" % (len(D["inner"]), nw), kind="frame")
    ex = D["ex"]
    nn = nr = ne = 0
    for s in D["res"]:
        kind, hy = classify(ex, s)
        m = fld(ex, s, "mass_water_switch", "I")
        if kind == "normal":
            nn += 1
            before, after = after_solve(s)
            solved = any(e.name == "solve_loop" for e in before)
            r.add("normal_exit#%d.follows_a_solve_of_this_pass" % nn, DISCHARGED if solved else FAILED, "trace", 0, repr([short(e) for e in after])[:160])
            w = writes(s, KEY_MWS)
            r.add("normal_exit#%d.switch_not_written_between_the_solve_and_the_exit" % nn, DISCHARGED if not w else FAILED, "term-inspection", 0, repr(w)[:160])
            U.discharge_valid(r, "normal_exit#%d.switch_is_the_callers_value" % nn, hy, tm.eq(m, sv) if not twin else tm.not_(tm.eq(m, sv)))
        elif kind == "repeat":
            nr += 1
            U.discharge_valid(r, "repeat#%d.invariant_kept" % nr, hy, inv(m, sv), kind="preservation")
        elif kind == "error":
            ne += 1
    r.add("reach.normal_repeat_and_error_passes", DISCHARGED if nn >= 1 and nr >= 2 and ne >= 2 else UNDECIDED, "symex", 0, "%d/%d/%d" % (nn, nr, ne), kind="vacuity")
    # epilogue: nothing after the pass loop writes the switch; the Pitzer / SIT delegation of model() does not touch it either
    nret = 0
    for s in D["fin"]:
        if s.status != "ret":
            continue
        nret += 1
        w = writes(s, KEY_MWS)
        # stores before the loop summary are cut off by the havoc; what remains are stores after the loop (or on the early returns of model())
        ok = all(v is D["mws0"] or B.z3_prove(list(s.pc), tm.eq(v, D["mws0"]))[0] == "proved" for _i, v in w)
        r.add("return#%d.after_the_last_pass_the_switch_is_left_alone_or_given_back" % nret, DISCHARGED if ok else FAILED, "term-inspection", 0, repr(w)[:160], kind="frame")
    r.add("reach.returns", DISCHARGED if nret >= 2 else UNDECIDED, "symex", 0, str(nret), kind="vacuity")
    r.assumptions += ["callees (residuals, ineq, reset, check_residuals, ...) do not write mass_water_switch (no other function of the tree assigns it except transport()/advection() resets; grep)",
                      "the Newton loop is summarised by its frame (proved from its iteration contract) inside the pass contract",
                      "the local holding the caller's value is identified by its value at the loop head, not by name",
                      "termination of the loops is not decided", "mass_water_switch is a flag (TRUE or FALSE) on entry"]
    return r


def unit_switch_restored(which, twin=False):
    """C02 bracket: mass_water_switch is the caller's value on EVERY exit of the pass loop (hence on every return: the epilogue does not write it)"""
    D = shell(which)
    rel, q = D["rel"], D["q"]
    r = U.new_unit("C02.%s.water_switch_given_back_on_every_return" % which, rel, q, D["fn"])
    if not D["saved"]:
        return no_saved_value(r, D)
    ex, sv = D["ex"], D["sv"]
    n = 0; kinds = set()
    rets = [x for x in D["fin"] if x.status == "ret"]
    late = [x for x in rets if any(e.name == "solve_loop" for e in x.events)]       # returns after the pass loop
    def gives_back(x):
        w = writes(x, KEY_MWS)
        return bool(w) and (w[-1][1] is D["mws0"] or B.z3_prove(list(x.pc), tm.eq(w[-1][1], D["mws0"]))[0] == "proved")
    restored = bool(late) and all(gives_back(x) for x in late) and not twin
    for s in D["res"]:
        kind, hy = classify(ex, s)
        if kind not in ("normal", "error"):
            continue
        n += 1; kinds.add(kind)
        m = fld(ex, s, "mass_water_switch", "I")
        if restored:
            r.add("%s_exit#%d.switch==value_saved_at_entry" % (kind, n), DISCHARGED, "term-inspection", 0, "every return after the pass loop assigns the saved value")
        else:
            U.discharge_valid(r, "%s_exit#%d.switch==value_saved_at_entry" % (kind, n), list(s.pc), tm.eq(m, sv) if not (twin and kind == "normal") else tm.not_(tm.eq(m, sv)))
    for k, s in enumerate(rets):
        w = writes(s, KEY_MWS)
        ok = (not w) or gives_back(s)
        r.add("return#%d.epilogue_leaves_the_switch_alone_or_gives_it_back" % k, DISCHARGED if ok else FAILED, "term-inspection", 0, repr(w)[:120], kind="frame")
    r.add("reach.normal_and_error_exits", DISCHARGED if kinds == {"normal", "error"} else UNDECIDED, "symex", 0, repr(sorted(kinds)), kind="vacuity")
    r.assumptions += ["same decomposition and assumptions as C02.%s.returned_result_is_solved_with_the_callers_water_switch" % which,
                      "why it matters: the retry ladder of set_and_run_wrapper calls the solver again after an ERROR return; a switch left TRUE is then taken for the caller's value and the water-mass equation is never solved again"]
    return r


UNITS = []
for _w in MODELS:
    UNITS.append(("C02.%s.returned_result_is_solved_with_the_callers_water_switch" % _w, (lambda twin=False, w=_w: unit_water_switch(w, twin))))
    UNITS.append(("C02.%s.water_switch_given_back_on_every_return" % _w, (lambda twin=False, w=_w: unit_switch_restored(w, twin))))
