"""C05 (fourth wave): IPhreeqc::EndRow() - the table keeps one cell per USER_PUNCH heading in EVERY row, whatever the BASIC program punched in
this row (also nothing): every heading index from the number of values punched (n_user_punch_index) up to the number of headings gets an
empty cell under ITS OWN heading in the table of the CURRENT user number, then that table's row is closed exactly once and its result
returned; the running value index is read, never written, here (punch_user_punch resets it per row, PBasic::cmdpunch advances it: units
C05.user_punch.* / C05.cmdpunch.*).  Everything is read from the symbolic execution (loop range by z3 equivalence, call events with their
receiver and argument terms); nothing is compared as source text."""
from props.common import *
from vf.core import FAILED, DISCHARGED, UNDECIDED

IPQ = "src/IPhreeqc.cpp"
NULLP = tm.num(0, "P")


def _short(e):
    return getattr(e, "name", "").split("::")[-1]


def unit_endrow_padding(twin=False):
    q = "IPhreeqc::EndRow"
    fn = A.find_function(IPQ, q)
    r = U.new_unit("C05.IPhreeqc_EndRow.pads_from_values_punched_to_heading_count.closes_the_row_once", IPQ, q, fn)
    fun = ("Get_n_user", "Get_headings", "size")
    loops = [x for x in A.walk(fn) if x.get("kind") in ("ForStmt", "WhileStmt", "DoStmt")]
    # the padding loop is the loop whose body adds an empty cell (located by what it does)
    pad = [k for k, lp in enumerate(loops) if any(strip(y["inner"][0]).get("name") == "PushBackEmpty" for y in A.walk(lp) if y.get("kind") == "CXXMemberCallExpr" and y.get("inner"))]
    if len(pad) != 1:
        r.add("padding_loop_present", FAILED if not pad else UNDECIDED, "ast", 0, "%d loops add empty cells" % len(pad)); return r
    L = pad[0]
    modes = {k: ("iter" if k == L else "havoc") for k in range(len(loops))}
    f, ex, fin, info = U.run_function(IPQ, q, modes=modes, ctx=ctx(functional=fun))
    fin = [s for s in fin if s.status == "ret" and B.z3_sat(list(s.pc)) != "unsat"]
    entries = info["entry"].get(L, []); its = [s for s in info["iter"].get(L, []) if B.z3_sat(list(s.pc)) != "unsat"]
    if not entries or not fin:
        r.add("reach.padding_loop", UNDECIDED, "symex", 0, "no path reaches the padding loop", kind="vacuity"); return r
    s0 = entries[0]
    pp = fld0(ex, s0, "PhreeqcPtr", "P")
    cso = fld0(ex, s0, "current_selected_output", "P", pp); cup = fld0(ex, s0, "current_user_punch", "P", pp)
    nu = tm.app("call:Get_n_user", (cso,), "I")
    som = tm.app("fld:SelectedOutputMap", (THIS,), "P")
    hs = [t for t in tm.subterms(tm.and_(*s0.pc)) if t.op == "select" and t.args[0].op == "sym" and "#mhas" in t.args[0].args[0]]
    if not hs:
        raise Undecided("EndRow: the table look-up of the current user number is not on the path to the padding loop")
    has = hs[0]
    # ---- (1) range of the padding loop: from the number of values punched in this row up to the number of headings
    c2 = ctx(functional=fun)
    f2, ex2, its2, info2 = U.run_loop_isolated(IPQ, q, L, ctx=c2)
    iv = [d.get("name") for d in A.walk(loops[L]["inner"][0] or {}) if d.get("kind") == "VarDecl"] if loops[L].get("kind") == "ForStmt" else []
    if not iv:
        raise Undecided("padding loop has no induction variable declared in its head")
    st0 = info2["entry_state"]
    pp2 = fld0(ex2, st0, "PhreeqcPtr", "P")
    cup2 = fld0(ex2, st0, "current_user_punch", "P", pp2)
    nhead = lambda ex_, cup_: tm.select(ex_.heap_arr(SX.State(), ("f", "#vsize", "I")), tm.app("call:Get_headings", (cup_,), "P"))
    first = fld0(ex2, st0, "n_user_punch_index", "I", pp2)
    if twin:
        first = tm.num(0, "I")
    check_loop_range(r, "padding", ex2, c2, info2, its2, iv[0], first, lambda v: tm.lt(v, nhead(ex2, cup2)))
    # ---- (2) one pass: exactly one empty cell, in the table of the current user number, under heading[i] of the current USER_PUNCH; nothing stored
    n = 0
    for s in [s for s in its if s.status in ("run", "cont")]:
        n += 1
        i_ = tm.sym("iter_" + iv[0], "I")
        E = [e for e in U.iter_events(s) if not isinstance(e, tuple)]
        pb = [e for e in E if _short(e) == "PushBackEmpty"]
        oth = [e for e in E if _short(e) not in ("PushBackEmpty", "Get_headings", "size", "c_str", "operator[]")]
        tbl = tm.select(ex.heap_arr(SX.State(), ("m2", "#mval", "P", "I")), som, nu)
        hv = tm.app("call:Get_headings", (cup,), "P")
        want = tm.app("c_str", (tm.select(ex.heap_arr(SX.State(), ("m", "S")), tm.select(ex.heap_arr(SX.State(), ("f", "#vdata", "P")), hv), i_),), "P")
        r.add("pass.exactly_one_empty_cell_and_nothing_else", DISCHARGED if len(pb) == 1 and not oth else FAILED, "trace", 0, repr([_short(e) for e in E])[:200], kind="trace")
        if pb:
            okt = pb[0].recv is tbl or B.z3_prove(list(s.pc), tm.eq(pb[0].recv, tbl))[0] == "proved"
            r.add("pass.cell_goes_to_the_table_of_the_current_user_number", DISCHARGED if okt else FAILED, "trace", 0, repr(pb[0].recv)[:200], kind="trace")
            a0 = pb[0].args[0] if pb[0].args else None
            r.add("pass.cell_is_filed_under_heading[i]_of_the_current_USER_PUNCH", DISCHARGED if a0 is want else FAILED, "trace", 0, "%r  wanted %r" % (a0, want), kind="trace")
        iw = U.iter_writes(s)
        r.add("pass.value_index_and_everything_else_left_alone", DISCHARGED if not iw else FAILED, "symex", 0, repr(iw)[:200], kind="frame")
    early = [s.status for s in its if s.status not in ("run", "cont")]
    r.add("pass.never_leaves_the_padding_loop_early", DISCHARGED if not early else FAILED, "symex", 0, "pass ends with %r" % early, kind="trace")
    r.add("reach.padding_pass", DISCHARGED if n >= 1 else UNDECIDED, "symex", 0, "%d" % n, kind="vacuity")
    # ---- (3) the loop is entered exactly when a table for the current user number exists and a USER_PUNCH is current
    cover = tm.or_(*[tm.and_(*e.pc) for e in entries])
    U.discharge_valid(r, "padding_reached_iff_table_and_USER_PUNCH_exist", [], tm.eq(cover, tm.and_(tm.not_(tm.eq(cso, NULLP)), has, tm.not_(tm.eq(cup, NULLP)))))
    # ---- (4) every return: the row of that table is closed exactly once, last, and its result returned; without a table nothing happens and 0 is returned
    seen = set()
    for i, s in enumerate(fin):
        E = [e for e in s.events if not isinstance(e, tuple)]
        er = [e for e in E if _short(e) == "EndRow"]
        wr = [(k[1], ix) for k in s.heap for ix, v in writes(s, k)]
        r.add("path%d.stores_nothing(value_index_not_reset_here)" % i, DISCHARGED if not wr else FAILED, "symex", 0, repr(wr)[:200], kind="frame")
        if er:
            seen.add("table")
            tbl = tm.select(ex.heap_arr(SX.State(), ("m2", "#mval", "P", "I")), som, nu)
            okc = len(er) == 1 and E[-1] is er[0] and s.ret is er[0].result and (er[0].recv is tbl or B.z3_prove(list(s.pc), tm.eq(er[0].recv, tbl))[0] == "proved")
            r.add("path%d.row_of_the_current_table_closed_exactly_once_last_and_result_returned" % i, DISCHARGED if okc else FAILED, "trace", 0, "%r ret %r" % ([_short(e) for e in E], s.ret), kind="trace")
            U.discharge_valid(r, "path%d.row_closed_only_with_a_table_for_the_current_user_number" % i, list(s.pc), tm.and_(tm.not_(tm.eq(cso, NULLP)), has))
            pbs = [e for e in E if _short(e) == "PushBackEmpty"]
            r.add("path%d.no_cell_added_outside_the_padding_loop" % i, DISCHARGED if not pbs else FAILED, "trace", 0, "%d" % len(pbs), kind="trace")
        else:
            seen.add("none")
            U.discharge_valid(r, "path%d.row_left_open_only_without_a_table_for_the_current_user_number" % i, list(s.pc), tm.or_(tm.eq(cso, NULLP), tm.not_(has)))
            r.add("path%d.no_table.returns_0_and_adds_no_cell" % i, DISCHARGED if tm.isnum(s.ret) and s.ret.args[0] == 0 and not [e for e in E if _short(e) == "PushBackEmpty"] else FAILED, "symex", 0, repr(s.ret)[:60])
    r.add("reach.with_and_without_table", DISCHARGED if seen == {"table", "none"} else UNDECIDED, "symex", 0, repr(sorted(seen)), kind="vacuity")
    r.assumptions += ["CSelectedOutput::PushBackEmpty / EndRow: units C05.table.*; UserPunch::Get_headings / cxxNumKeyword::Get_n_user are accessors (functions of their object)",
                      "n_user_punch_index >= 0 when a row ends (punch_user_punch sets 0 before every row: unit C05.user_punch.cell_i_under_heading_i.values_iff_headings); "
                      "int -> size_t conversion of the start index treated as mathematical", "after the loop the executor havocs what the loop may write: the closing call is checked on that state"]
    return r


UNITS = [("C05.IPhreeqc_EndRow.pads_from_values_punched_to_heading_count.closes_the_row_once", unit_endrow_padding)]
