"""C09 — file, string and line views of each output stream are identical (partial).
Line accessors return line n of the right vector / "" with no out-of-range access; every *_msg sink forwards the same text
to the string and to the stream under the documented gating.  Byte equality over whole runs is NOT decided."""
import time
from vf import core
from vf.core import Undecided, FAILED, DISCHARGED, UNDECIDED
from vf.astvc import ast as A, terms as tm, unit as U, backends as B, stl as STLM
from vf.astvc import symex as SX

PID = "C09"
IPQ = "src/IPhreeqc.cpp"
PIO = "src/phreeqcpp/common/PHRQ_io.cpp"
THIS = tm.sym("this", "P")
STREAMS = ["Output", "Log", "Error", "Warning", "Dump"]


class StaticOK(SX.Exec):
    def decl_var(self, d, st):
        if d.get("storageClass") == "static" and "const" in d["type"]["qualType"]:
            st.locals[d["id"]] = ("obj", tm.sym("&static." + d.get("name", "_"), "P"))
            return [st]
        return SX.Exec.decl_var(self, d, st)


def unit_line_accessor(stream, twin=False):
    """Get<X>StringLine(n): for 0 <= n < count the text of element n of <X>Lines; otherwise "" ; no access outside [0,size).
    Get<X>StringLineCount() = <X>Lines.size()"""
    getter, counter, vecname = "Get%sStringLine" % stream, "Get%sStringLineCount" % stream, "%sLines" % stream
    fn = A.find_function(IPQ, "IPhreeqc::" + getter)
    r = U.new_unit("C09.lines." + getter, IPQ, "IPhreeqc::" + getter, fn)
    fc = A.find_function(IPQ, "IPhreeqc::" + counter)
    va = tm.app("fld:" + vecname, (THIS,), "P")
    # count
    ctx = SX.Ctx(); ctx.stl = STLM.STL(SX)
    ex = StaticOK(ctx); finals = ex.run(fc, SX.State())
    for s in finals:
        size = tm.select(ex.heap_arr(s, ("f", "#vsize", "I")), va)
        U.discharge_valid(r, counter + "==size_of_" + vecname, list(s.pc), tm.eq(ex.coerce(s.ret, "I"), size if not twin else tm.add(size, tm.num(1, "I"))))
    # getter, with the count by its contract
    ctx = SX.Ctx(); ctx.stl = STLM.STL(SX); ctx.functional.add(counter); ctx.log_stores = True
    ex = StaticOK(ctx); st = SX.State()
    finals = ex.run(fn, st)
    n = tm.sym("P0_n", "I")
    cnt = tm.app("call:" + counter, (THIS,), "I")
    seen = set()
    for i, s in enumerate(finals):
        if s.status != "ret":
            r.add("path%d.returns" % i, FAILED, "symex", 0, s.status); continue
        size = tm.select(ex.heap_arr(s, ("f", "#vsize", "I")), va)
        data = tm.select(ex.heap_arr(s, ("f", "#vdata", "P")), va)
        hyps = list(s.pc) + [tm.eq(cnt, size), tm.le(tm.num(0, "I"), size)]
        inr = tm.and_(tm.le(tm.num(0, "I"), n), tm.lt(n, size))
        if B.z3_prove(hyps, inr)[0] == "proved":
            seen.add("in")
            want = tm.app("c_str", (tm.select(ex.heap_arr(s, ("m", "S")), data, n),), "P")
            got = s.ret
            ok = got is want or B.z3_prove(hyps, tm.eq(got, want))[0] == "proved"
            r.add("in_range.returns_text_of_element_n_of_" + vecname, DISCHARGED if ok else FAILED, "z3-5.1", 0, "" if ok else "%r vs %r" % (got, want))
        elif B.z3_prove(hyps, tm.not_(inr))[0] == "proved":
            seen.add("out")
            ok = s.ret.op == "sym" and s.ret.args[0].startswith("&static.")
            r.add("out_of_range.returns_empty_string_constant[path %d]" % i, DISCHARGED if ok else FAILED, "term-inspection", 0, repr(s.ret)[:80])
        else:
            r.add("path%d.case" % i, FAILED, "z3-5.1", 0, "path decides neither in range nor out of range")
        st_ = [e for e in s.events if e.name == "store"]
        r.add("frame.nothing_written[path %d]" % i, DISCHARGED if not st_ else FAILED, "trace", 0, "", kind="frame")
    for k, (what, pc, ob) in enumerate(ctx.stl.side):
        size = tm.select(tm.sym("H0.#vsize:I", ("A", "P", "I")), va)
        U.discharge_valid(r, "index_in_range.%d(%s)" % (k, what), list(pc) + [tm.eq(cnt, size)], ob, kind="safety")
    r.add("reach.both_cases", DISCHARGED if seen == {"in", "out"} else UNDECIDED, "symex", 0, repr(sorted(seen)), kind="vacuity")
    return r


def unit_string_sink(name, string_member, on_member, gate_member, twin=False):
    """IPhreeqc::<name>(str): with the string sink on (<on_member> && <gate_member>) the string grows by exactly str;
    the base-class writer PHRQ_io::<name> is called exactly once with the same str; nothing else"""
    fn = A.find_function(IPQ, "IPhreeqc::" + name)
    r = U.new_unit("C09.sink.IPhreeqc_" + name, IPQ, "IPhreeqc::" + name, fn)
    ctx = SX.Ctx(); ctx.stl = STLM.STL(SX)
    class AllPure(set):
        def __contains__(self, x): return True
    ctx.pure = AllPure()
    ex = SX.Exec(ctx); finals = ex.run(fn, SX.State())
    s_ = tm.sym("P0_str", "P")
    on = tm.select(tm.sym("H0.%s:B" % on_member, ("A", "P", "B")), THIS)
    gate = tm.select(tm.sym("H0.%s:B" % gate_member, ("A", "P", "B")), THIS)
    sm = tm.app("fld:" + string_member, (THIS,), "P")
    both = set()
    for i, s in enumerate(finals):
        hyps = list(s.pc)
        app = [e for e in s.events if e.name.endswith("operator+=")]
        base = [e for e in s.events if e.name == "PHRQ_io::" + name]
        ok = len(base) == 1 and base[0].args[0] is s_ and base[0].recv is THIS
        r.add("base_writer_called_once_with_same_text[path %d]" % i, DISCHARGED if ok else FAILED, "trace", 0, repr(base)[:150], kind="trace")
        is_on = B.z3_prove(hyps, tm.and_(on, gate))[0] == "proved"
        is_off = B.z3_prove(hyps, tm.not_(tm.and_(on, gate)))[0] == "proved"
        if is_on and not twin:
            both.add("on")
            ok = len(app) == 1 and app[0].recv is sm and app[0].args[0] is s_
            r.add("sink_on.string_grows_by_exactly_str[path %d]" % i, DISCHARGED if ok else FAILED, "trace", 0, repr(app)[:150], kind="trace")
        elif is_off or twin:
            both.add("off")
            r.add("sink_off.string_untouched[path %d]" % i, DISCHARGED if not app else FAILED, "trace", 0, repr(app)[:150], kind="trace")
        else:
            r.add("path%d.case" % i, FAILED, "z3-5.1", 0, "gating undecided on path %r" % (s.pc,))
        other = [e for e in s.events if e not in app and e not in base]
        r.add("nothing_else_called[path %d]" % i, DISCHARGED if not other else FAILED, "trace", 0, repr(other)[:150], kind="frame")
    r.add("reach.on_and_off", DISCHARGED if both == {"on", "off"} else UNDECIDED, "symex", 0, repr(sorted(both)), kind="vacuity")
    return r


def unit_stream_sink(name, stream_member, gate_member, twin=False):
    """PHRQ_io::<name>(str): streams exactly str to <stream_member> iff the stream is non-null and <gate_member>; else nothing"""
    fn = A.find_function(PIO, "PHRQ_io::" + name, nparams=1)
    r = U.new_unit("C09.sink.PHRQ_io_" + name, PIO, "PHRQ_io::" + name, fn)
    ctx = SX.Ctx()
    class AllPure(set):
        def __contains__(self, x): return True
    ctx.pure = AllPure()
    ex = SX.Exec(ctx); finals = ex.run(fn, SX.State())
    s_ = tm.sym("P0_str", "P")
    strm = tm.select(tm.sym("H0.%s:P" % stream_member, ("A", "P", "P")), THIS)
    gate = tm.select(tm.sym("H0.%s:B" % gate_member, ("A", "P", "B")), THIS)
    seen = set()
    for i, s in enumerate(finals):
        hyps = list(s.pc)
        w = [e for e in s.events if "operator<<" in e.name]
        cond = tm.and_(tm.not_(tm.eq(strm, tm.NULL)), gate)
        if B.z3_prove(hyps, cond)[0] == "proved" and not twin:
            seen.add("on")
            ok = len(w) == 1 and s_ in w[0].args and (w[0].recv is strm or strm in w[0].args or any(a is strm for a in w[0].args))
            r.add("enabled.streams_exactly_str_once[path %d]" % i, DISCHARGED if ok else FAILED, "trace", 0, repr(w)[:150], kind="trace")
        else:
            seen.add("off")
            r.add("disabled.streams_nothing[path %d]" % i, DISCHARGED if not w else FAILED, "trace", 0, repr(w)[:150], kind="trace")
    r.add("reach.on_and_off", DISCHARGED if seen == {"on", "off"} else UNDECIDED, "symex", 0, repr(sorted(seen)), kind="vacuity")
    return r


def units(tier):
    us = []
    def wrap(uid, f, *a):
        def g():
            r = f(*a)
            if not any(o.status == FAILED for o in r.obligations):
                U.must_fail_twin(r, "vacuity.must_fail_twin", lambda: f(*a, twin=True))
            return r
        us.append((uid, g))
    for sname in STREAMS:
        wrap("C09.lines.Get%sStringLine" % sname, unit_line_accessor, sname)
    wrap("C09.sink.IPhreeqc_output_msg", unit_string_sink, "output_msg", "OutputString", "OutputStringOn", "output_on")
    wrap("C09.sink.IPhreeqc_log_msg", unit_string_sink, "log_msg", "LogString", "LogStringOn", "log_on")
    wrap("C09.sink.PHRQ_io_output_msg", unit_stream_sink, "output_msg", "output_ostream", "output_on")
    wrap("C09.sink.PHRQ_io_log_msg", unit_stream_sink, "log_msg", "log_ostream", "log_on")
    wrap("C09.sink.PHRQ_io_punch_msg", unit_stream_sink, "punch_msg", "punch_ostream", "punch_on")
    us.append(("C09.lines.split_pairing", unit_split_pairing))
    wrap("C09.format.fpunchf_helper_complete_output", unit_format_retry)
    from props import c09_printall as PA
    from props.common import wrap as _wrap
    _wrap(us, "C09.print_all.state_reset_independent_of_output_switches", PA.unit_print_all)
    _wrap(us, "C09.lines.refreshed_also_when_the_run_is_stopped", PA.unit_lines_on_stop_path)
    from props import c10_more as _MO
    _wrap(us, "C09.dump_ostream.only_the_request_is_consumed", _MO.unit_dump_ostream_frame, "C09")
    from props import saverestore as SR
    _wrap(us, "C09.switches.saved_and_restored_into_themselves", SR.unit_save_restore, "C09.switches.saved_and_restored_into_themselves", ["src/IPhreeqc.cpp"])
    return us


def run(tier, seed, only, jobs):
    t0 = time.time()
    U.TIER.update(tier=tier, seed=seed)
    us = units(tier)
    from props.common import ext_units as _ext
    us += _ext("C09")
    if only:
        us = [x for x in us if only in x[0]]
    res = core.run_units(us, jobs=jobs)
    return core.finish(PID, tier, seed, "proof", res, t0,
        checker_cmd="astvc: clang AST of IPhreeqc.cpp / PHRQ_io.cpp -> path-wise symbolic execution with ghost call trace and STL model -> z3 5.1",
        trusted_base=["clang 14 AST", "astvc (vf/astvc)", "z3 5.1", "STL model (vector size/data/operator[], string as opaque value)"],
        assumptions=["std::string::operator+= appends its argument; operator<< writes its argument (library semantics)"],
        explanation="Per-message and per-accessor contracts; the induction over a run's messages is immediate (append-only). Line splitting, dump capture and byte equality over whole runs are not decided.")


def unit_split_pairing():
    """Every loop `while (std::getline(iss, line)) V.push_back(line)` in IPhreeqc.cpp fills the line vector V paired with the
    string S the stream `iss` was constructed from: <X>String -> <X>Lines, SelectedOutputStringMap[n] -> SelectedOutputLinesMap[n].
    (So the line view is the split of the WHOLE string view, not of a fragment.)"""
    r = core.UnitResult("C09.lines.split_pairing", file=IPQ, function="IPhreeqc::do_run / update_errors (line-splitting loops)", engine=U.ENGINE)
    shas = []
    nloops = 0
    want = {"DumpLines": "DumpString", "OutputLines": "OutputString", "LogLines": "LogString", "ErrorLines": "ErrorString",
            "WarningLines": "WarningString", "SelectedOutputLinesMap": "SelectedOutputStringMap"}
    def members(n):
        return [x.get("name") for x in A.walk(n) if x.get("kind") == "MemberExpr" and x.get("name") and x["inner"][0].get("kind") == "CXXThisExpr"]
    from vf import callsites as CS
    qs = sorted({qq for qq, _ in CS.enclosing_functions(IPQ, "std::getline(iss, line)")})      # wherever the splitting loops live
    for q in qs:
        fn = A.find_function(IPQ, q)
        shas.append(U.new_unit("x", IPQ, q, fn).sha)
        for blk in [x for x in A.walk(fn) if x.get("kind") == "CompoundStmt"]:
            stmts = blk.get("inner", [])
            for i, w in enumerate(stmts):
                if w.get("kind") != "WhileStmt":
                    continue
                cond = w["inner"][0]
                calls = [x for x in A.walk(cond) if x.get("kind") == "CallExpr" and any(y.get("kind") == "DeclRefExpr" and y.get("referencedDecl", {}).get("name") == "getline" for y in A.walk(x["inner"][0]))]
                if not calls:
                    continue
                nloops += 1
                # the stream argument of getline -> its declaration in this block -> the expression it is constructed from
                refs = [x["referencedDecl"]["id"] for x in A.walk(calls[0]) if x.get("kind") == "DeclRefExpr" and x.get("referencedDecl", {}).get("kind") == "VarDecl" and "stream" in x.get("type", {}).get("qualType", "")]
                decl = None
                for prev in stmts[:i]:
                    for d in A.walk(prev):
                        if d.get("kind") == "VarDecl" and d.get("id") in refs:
                            decl = d
                src = members(decl) if decl is not None else []
                # `(*mit).second` of an iterator obtained by SelectedOutputStringMap.find(n): resolve through the iterator declaration
                if decl is not None and not src:
                    its = [x["referencedDecl"]["id"] for x in A.walk(decl) if x.get("kind") == "DeclRefExpr" and "iterator" in x.get("type", {}).get("qualType", "")]
                    for d in A.walk(fn):
                        if d.get("kind") == "VarDecl" and d.get("id") in its:
                            src = members(d)
                dst = [m for m in members(w["inner"][-1])]
                line = (w.get("range", {}).get("begin", {}) or {}).get("line")
                ok = len(dst) >= 1 and dst[0] in want and want[dst[0]] in src
                r.add("%s.loop%d.lines_of_%s_come_from_%s" % (q.split("::")[-1], nloops, dst[0] if dst else "?", want.get(dst[0], "?") if dst else "?"),
                      DISCHARGED if ok else FAILED, "ast-scan", 0, "stream constructed from %s; pushed into %s" % (src or "a local/temporary (not the member string)", dst), kind="structure")
                # the vector is emptied on EVERY path into the loop: `this->V.clear();` is a statement of the loop's own block or of a block around it
                # (so not inside a branch the loop is not in), before the loop
                if dst:
                    def is_clear(st_):
                        st_ = A.strip(st_) if hasattr(A, "strip") else st_
                        return st_.get("kind") == "CXXMemberCallExpr" and st_["inner"][0].get("kind") == "MemberExpr" and st_["inner"][0].get("name") == "clear" and dst[0] in members(st_["inner"][0])
                    w_off = (w.get("range", {}).get("begin", {}) or {}).get("offset", -1)
                    cleared = False
                    for b2 in [x for x in A.walk(fn) if x.get("kind") == "CompoundStmt"]:
                        if not any(y is w for y in A.walk(b2)):
                            continue
                        for st_ in b2.get("inner", []):
                            if any(y is w for y in A.walk(st_)):
                                break
                            if is_clear(st_):
                                cleared = True
                    r.add("%s.loop%d.%s_emptied_on_every_path_before_it_is_refilled" % (q.split("::")[-1], nloops, dst[0]), DISCHARGED if cleared else FAILED, "ast-scan", 0,
                          "" if cleared else "no unconditional `%s.clear()` ahead of the splitting loop: old lines survive next to the new ones" % dst[0], kind="structure")
    r.add("reach.loops_found", DISCHARGED if nloops >= 5 else UNDECIDED, "ast-scan", 0, "%d line-splitting loops" % nloops, kind="vacuity")
    r.sha = core.sha256_text("".join(shas))
    r.kind = "structural"
    return r


def unit_format_retry(twin=False):
    """PHRQ_io::fpunchf_helper (every overload): the formatted cell handed to the sink is COMPLETE: after each
    `j = vsnprintf(buf, size, ...)` the flag `success` is true exactly when 0 <= j < size (vsnprintf's contract:
    j is the length the full output needs; it fits with its terminator iff j < size)."""
    r = core.UnitResult("C09.format.fpunchf_helper_complete_output", file=PIO, function="PHRQ_io::fpunchf_helper (overloads)", engine=U.ENGINE)
    docs = A.dump(PIO, "PHRQ_io::fpunchf_helper")
    fns = []
    def visit(d):
        if d.get("kind") == "CXXMethodDecl" and d.get("name") == "fpunchf_helper" and any(c.get("kind") == "CompoundStmt" for c in d.get("inner", [])):
            fns.append(d)
        for c in d.get("inner", []) if d.get("kind") in ("CXXRecordDecl", "NamespaceDecl") else []:
            visit(c)
    for d in docs:
        visit(d)
    sites = 0
    shas = []
    for fn in fns:
        shas.append(U.new_unit("x", PIO, "f", fn).sha)
        ctx = SX.Ctx()
        class AllPure(set):
            def __contains__(self, x): return True
        ctx.pure = AllPure()
        ex = SX.Exec(ctx)
        ex.local_ids = {x["id"] for x in A.walk(fn) if x.get("kind") in ("VarDecl", "ParmVarDecl") and "id" in x}
        ex.addr_taken = set(); ex.loop_ids = {}
        names = {x["name"]: x["id"] for x in A.walk(fn) if x.get("kind") in ("VarDecl", "ParmVarDecl") and "name" in x}
        st = SX.State()
        for nm, did in names.items():
            pass
        # walk statements in order; remember the size argument of the last vsnprintf
        last_size = [None]
        def scan(n):
            nonlocal sites
            k = n.get("kind")
            if k == "CallExpr" and any(y.get("kind") == "DeclRefExpr" and y.get("referencedDecl", {}).get("name") == "vsnprintf" for y in A.walk(n["inner"][0])):
                last_size[0] = n["inner"][2]
            rhs = None
            if k == "VarDecl" and n.get("name") == "success" and n.get("init"):
                rhs = n["inner"][0]
            if k == "BinaryOperator" and n.get("opcode") == "=" and n["inner"][0].get("kind") == "DeclRefExpr" and n["inner"][0]["referencedDecl"].get("name") == "success":
                rhs = n["inner"][1]
            for c in n.get("inner", []) or []:
                if isinstance(c, dict) and c.get("kind"):
                    scan(c)
            if rhs is not None and last_size[0] is not None:
                sites += 1
                s0 = SX.State()
                j = tm.sym("j", "I"); size = tm.sym("size", "I")
                for x in A.walk(fn):
                    if x.get("kind") == "VarDecl" and "id" in x:
                        q = x["type"].get("desugaredQualType") or x["type"]["qualType"]
                        if SX.is_record_type(q, ctx) or q.strip().endswith("]"):
                            continue
                        v = None
                        if x.get("init") and "const" in x["type"]["qualType"]:
                            try:
                                v = ex.ev(x["inner"][0], SX.State())[0][1]
                            except Undecided:
                                v = None
                        s0.locals[x["id"]] = v if (v is not None and tm.isnum(v)) else tm.sym("L_" + x.get("name", "_"), SX.sort_of(q))
                    if x.get("kind") == "VarDecl" and x.get("name") == "j":
                        s0.locals[x["id"]] = j
                # the size expression as a term (constants fold; a variable becomes a symbol that we equate with `size`)
                sz = ex.ev(last_size[0], s0.clone())[0][1]
                got = tm.to_bool(ex.ev(rhs, s0)[0][1])
                szI = ex.coerce(sz, "I")
                want = tm.and_(tm.le(tm.num(0, "I"), j), tm.lt(j, szI) if not twin else tm.le(j, szI))
                U.discharge_valid(r, "site%d.success<=>0<=j<size" % sites, [tm.lt(tm.num(0, "I"), szI)], tm.eq(got, want))
        scan(fn)
    r.add("reach.sites", DISCHARGED if sites >= 2 else UNDECIDED, "ast-scan", 0, "%d success assignments in %d overloads" % (sites, len(fns)), kind="vacuity")
    r.sha = core.sha256_text("".join(shas))
    r.assumptions.append("vsnprintf(buf, size, ...) returns the length the complete output needs (C99); sizes are below INT_MAX (the (int) casts are value-preserving)")
    return r
