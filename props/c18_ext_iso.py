"""C18 (extension): alkalinity derivatives (carbon_derivs / set_ph_c), isotope inequality rows of phases, charge-balance feasibility check (check_solns)."""
from props.common import *
import props.c18_ext as X
from props.c18_ext import (INV, mkctx, all_loops, ordinal, nested, head, vdata0, vsize0, at, same, vec_writes, F, match_writes, spec_cases, distinct_cells, _base, tm_fraction, I0, I1)
from vf.core import FAILED, DISCHARGED, UNDECIDED


def _skip_ctx(functional=()):
    c = mkctx(functional=functional)
    c.loop = lambda ex, st, node, o: [st]
    return c


def _body(loop):
    b = loop["inner"][-1]
    return b.get("inner", []) if b.get("kind") == "CompoundStmt" else [b]


def unit_carbon_derivs(twin=False):
    """dAlk/dpH(q) and dAlk/dC(q) are central differences of the total alkalinity of re-speciated copies of solution q:
    (Alk(pH + u) - Alk(pH - u)) / (2 u) with u the pH uncertainty of q, and (Alk(C + d) - Alk(C - d)) / (2 d) with d = |u_C| * C(4) molality
    (relative uncertainty) or -u_C (absolute); 0 when carbon has no uncertainty.  The copies are made by set_ph_c with exactly these shifts."""
    q = "Phreeqc::carbon_derivs"
    fn = A.find_function(INV, q)
    r = U.new_unit("C18.carbon_derivs.central_differences_of_alkalinity_over_the_declared_uncertainties", INV, q, fn)
    L = all_loops(fn)
    outer = [lp for lp in L if head(INV, lp)[1] == "i<inv_ptr->count_solns"]
    if len(outer) != 1:
        raise Undecided("solution loop of carbon_derivs not found")
    stmts = _body(outer[0])
    # the part after the search for the carbon uncertainty: from the first set_ph_c call on (c_uncertainty, d_carbon are then free symbols)
    k0 = next((k for k, x in enumerate(stmts) if text_of(INV, x).startswith("set_ph_c(")), None)
    if k0 is None:
        raise Undecided("set_ph_c calls not found")
    c = _skip_ctx(functional=("Rxn_find", "Get_total_alkalinity"))
    f, ex, fin, info = region(INV, q, stmts[k0:], c)
    i = tm.sym("L_i", "I")
    seen = set()
    for s in live(fin):
        inv = local(info, s, "inv_ptr")
        cu, dcar = tm.sym("L_c_uncertainty", "R"), tm.sym("L_d_carbon", "R")
        orig = tm.sym("L_solution_ptr_orig", "P")
        sp = [e for e in s.events if e.name.endswith("set_ph_c")]
        def alk(nu):
            fe = [e for e in s.events if e.name.endswith("Rxn_find") and tm.isnum(e.args[-1]) and e.args[-1].args[0] == nu]
            if not fe:
                return None
            ga = [e for e in s.events if e.name.endswith("Get_total_alkalinity") and e.recv is fe[0].result]
            return ga[0].result if ga else None
        u = tm.select(entry_arr(ex, s, ("m", "R")), vdata0(ex, s, "ph_uncertainties", inv), i)
        for case, hy in spec_cases(list(s.pc), [("cunc", tm.not_(tm.eq(cu, tm.num(0)))), ("dc", tm.not_(tm.eq(dcar, tm.num(0))))]):
            want = [(-5, tm.num(0), tm.num(1), tm.num(0)), (-4, tm.num(0), tm.num(-1), tm.num(0))]
            if case["cunc"]:
                want += [(-3, dcar, tm.num(0), tm.num(1)), (-2, dcar, tm.num(0), tm.num(-1) if not twin else tm.num(1))]
            ok = len(sp) == len(want)
            for e, (nu, d, pf, cf) in zip(sp, want):
                a = e.args
                ok = ok and a[0] is inv and a[1] is i and a[2] is orig and same(hy, a[3], tm.num(nu, "I")) and same(hy, a[4], d) and same(hy, a[5], pf) and same(hy, a[6], cf)
            seen.add("carbon" if case["cunc"] else "no_carbon")
            r.add("copies[%s].set_ph_c(q,orig,-5:+pH,-4:-pH%s)" % ("carbon_uncertain" if case["cunc"] else "carbon_exact", ",-3:+C,-2:-C" if case["cunc"] else ""), DISCHARGED if ok else FAILED, "trace", 0, repr([e.args[3:] for e in sp])[:300], kind="trace")
            wph, wdc = vec_writes(ex, s, "dalk_dph", inv), vec_writes(ex, s, "dalk_dc", inv)
            ap, am = alk(-5), alk(-4)
            if ap is None or am is None:
                r.add("dAlk/dpH.reads_alkalinity_of_copies_-5_and_-4", FAILED, "trace", 0, ""); continue
            match_writes(r, "dAlk/dpH", hy, wph, [(i, (ap - am) / (tm.num(2) * u), "==(Alk(-5)-Alk(-4))/(2*u_pH)")], "no_other_entry")
            if case["dc"]:
                cp, cm = alk(-3), alk(-2)
                if cp is None or cm is None:
                    r.add("dAlk/dC.reads_alkalinity_of_copies_-3_and_-2", FAILED, "trace", 0, ""); continue
                seen.add("dc")
                match_writes(r, "dAlk/dC", hy, wdc, [(i, (cp - cm) / (tm.num(2) * dcar), "==(Alk(-3)-Alk(-2))/(2*d_carbon)")], "no_other_entry")
            else:
                seen.add("dc0")
                match_writes(r, "dAlk/dC[no_shift]", hy, wdc, [(i, tm.num(0), "==0")], "no_other_entry")
        isol = [e for e in s.events if e.name.endswith("initial_solutions")]
        r.add("copies_re-speciated_before_their_alkalinity_is_read", DISCHARGED if len(isol) == 1 and all(s.events.index(isol[0]) < s.events.index(e) for e in s.events if e.name.endswith("Get_total_alkalinity")) and all(s.events.index(e) < s.events.index(isol[0]) for e in sp) else FAILED,
              "trace", 0, "", kind="trace")
    r.add("reach.cases", DISCHARGED if {"carbon", "no_carbon", "dc", "dc0"} <= seen else UNDECIDED, "symex", 0, repr(sorted(seen)), kind="vacuity")
    # the shift d_carbon: region before the first set_ph_c, with the two search loops skipped; c_uncertainty is whatever the search found
    # located by what the branch does (d_carbon = -c_uncertainty), not by its condition; the condition is demanded by the case split below
    k1 = next((k for k, x in enumerate(stmts) if x.get("kind") == "IfStmt" and "d_carbon=-c_uncertainty" in text_of(INV, x["inner"][1])), None)
    if k1 is None:
        r.add("shift.block_found", UNDECIDED, "syntactic", 0, "")
    else:
        c = mkctx(functional=("Get_mass_water", "strcmp"))
        kit = [lp for lp in nested(outer[0]) if "Get_totals().end()" in head(INV, lp)[1]]
        f, ex, fin, info = region(INV, q, [stmts[k1]], c)
        for s in live(fin):
            cu = tm.sym("L_c_uncertainty", "R")
            for case, hy in spec_cases(list(s.pc), [("neg", tm.lt(cu, tm.num(0)))]):
                if case["neg"]:
                    U.discharge_eq_real(r, "shift[absolute].d_carbon==-u_C", hy, local(info, s, "d_carbon"), tm.neg(cu))
        if len(kit) == 1:
            f, ex, its, info = U.run_loop_isolated(INV, q, ordinal(fn, kit[0]), ctx=mkctx(functional=("Get_mass_water", "strcmp")))
            n = 0
            for s in live(its, ("brk",)):
                n += 1
                mw = [e for e in U.iter_events(s) if e.name.endswith("Get_mass_water")]
                sc = [e for e in U.iter_events(s) if e.name.endswith("strcmp")]
                okn = len(sc) == 1 and sc[0].args[1].op == "str" and sc[0].args[1].args[0].strip('"') == "C(4)" and tm.eq(sc[0].result, I0) in s.pc
                r.add("shift[relative].taken_from_the_C(4)_total", DISCHARGED if okn else FAILED, "trace", 0, repr([e.args for e in sc])[:200])
                dv = local(info, s, "d_carbon")
                sec = [t for t in tm.subterms(dv) if t.sort == "R" and "second" in repr(t) and t.op in ("select", "sym")]
                okv = len(mw) == 1 and mw[0].recv is tm.sym("L_solution_ptr_orig", "P") and sec and same(list(s.pc), dv, sec[0] / mw[0].result * tm.sym("L_c_uncertainty", "R"))
                r.add("shift[relative].d_carbon==C(4)_moles/mass_water*u_C", DISCHARGED if okv else FAILED, "symex", 0, repr(dv)[:200])
            r.add("reach.shift", DISCHARGED if n else UNDECIDED, "symex", 0, "%d" % n, kind="vacuity")
    # set_ph_c: the copy's pH and C(4) concentration
    q2 = "Phreeqc::set_ph_c"
    f2 = A.find_function(INV, q2)
    c = mkctx(functional=("Rxn_find", "Get_ph", "Get_mass_water", "Get_input_conc", "strcmp"))
    c.loop = lambda ex, st, node, o: [st]
    f, ex, fin, info = U.run_region(INV, q2, Sel(A.body_of(f2)["inner"]), ctx=c)
    for s in live(fin, ("ret", "run")):
        inv = local(info, s, "inv_ptr"); ii = local(info, s, "i")
        rc = [e for e in s.events if e.name.endswith("Rxn_copy")]
        src_ = tm.select(entry_arr(ex, s, ("m", "I")), vdata0(ex, s, "solns", inv), ii)
        okc = len(rc) == 1 and same(list(s.pc), rc[0].args[-2], src_) and rc[0].args[-1] is local(info, s, "n_user_new")
        r.add("set_ph_c.copies_solution_solns[q]_to_the_scratch_number", DISCHARGED if okc else FAILED, "trace", 0, repr([e.args[-2:] for e in rc])[:200], kind="trace")
        spv = [e for e in s.events if e.name.endswith("Set_ph")]
        gp = [e for e in s.events if e.name.endswith("Get_ph")]
        u = tm.select(entry_arr(ex, s, ("m", "R")), vdata0(ex, s, "ph_uncertainties", inv), ii)
        okp = len(spv) == 1 and len(gp) >= 1 and same(list(s.pc), spv[0].args[0], gp[0].result + u * local(info, s, "ph_factor"))
        r.add("set_ph_c.pH==pH+u_pH*factor", DISCHARGED if okp else FAILED, "trace", 0, repr([e.args for e in spv])[:200])
    lp2 = all_loops(f2)
    if len(lp2) == 1:
        f, ex, its, info = U.run_loop_isolated(INV, q2, 0, ctx=mkctx(functional=("Get_mass_water", "Get_input_conc", "strcmp")))
        seen = set()
        for s in live(its, ("run", "cont")):
            evs = U.iter_events(s)
            sc = [e for e in evs if e.name.endswith("strcmp")]
            si = [e for e in evs if e.name.endswith("Set_input_conc")]
            gi = [e for e in evs if e.name.endswith("Get_input_conc")]
            mw = [e for e in evs if e.name.endswith("Get_mass_water")]
            if not sc or not si or not mw:
                r.add("set_ph_c.component_defined_from_the_total", FAILED, "trace", 0, ""); continue
            okm = mw[0].recv is tm.sym("L_solution_ptr_orig", "P")
            r.add("set_ph_c.concentration==moles/mass_water_of_the_original", DISCHARGED if okm and "second" in repr(si[0].args[0]) and mw[0].result in tm.subterms(si[0].args[0]) else FAILED, "trace", 0, repr(si[0].args)[:200])
            for case, hy in spec_cases(list(s.pc), [("c4", tm.eq(sc[0].result, I0))]):
                if case["c4"]:
                    seen.add("C(4)")
                    ok = len(si) == 2 and gi and same(hy, si[1].args[0], gi[0].result + tm.sym("L_d_carbon", "R") * tm.sym("L_c_factor", "R"))
                    r.add("set_ph_c.C(4)_concentration+=d_carbon*factor", DISCHARGED if ok else FAILED, "trace", 0, repr([e.args for e in si])[:200])
                else:
                    seen.add("other")
                    r.add("set_ph_c.other_elements_unshifted", DISCHARGED if len(si) == 1 else FAILED, "trace", 0, "%d" % len(si), kind="frame")
        r.add("reach.set_ph_c", DISCHARGED if seen == {"C(4)", "other"} else UNDECIDED, "symex", 0, repr(sorted(seen)), kind="vacuity")
    r.assumptions += ["Utilities::Rxn_find / Get_total_alkalinity / Get_ph / Get_mass_water / Get_input_conc / strcmp functional; initial_solutions re-speciates the scratch copies (not under this contract)",
                      "the search for the carbon element (s_co3->secondary) is skipped: c_uncertainty is whatever it found", "doubles as reals"]
    return r


def unit_phase_isotope_rows(twin=False):
    """isotope ratio adjustment e of isotope k in phase p (uncertainty u, mole transfer a with the declared sign s = +1 dissolve / -1 precipitate):
    u == 0: the column is zeroed (no adjustment); otherwise optimisation entry SCALE_EPSILON / u and the two rows  +e - s*u*a <= 0, -e - s*u*a <= 0
    (|e| <= u * |a|); an unconstrained phase is an input error."""
    q = "Phreeqc::phase_isotope_inequalities"
    fn = A.find_function(INV, q)
    r = U.new_unit("C18.phase_isotope_inequalities.adjustment_bounded_by_uncertainty_times_transfer", INV, q, fn)
    L = all_loops(fn)
    jl = [lp for lp in L if "phases[i].isotopes.size()" in head(INV, lp)[1]]
    if len(jl) != 1:
        raise Undecided("isotope loop not found")
    stmts = _body(jl[0])
    k0 = next((k for k, x in enumerate(stmts) if text_of(INV, x).startswith("column=")), None)
    if k0 is None:
        raise Undecided("column assignment not found")
    c = _skip_ctx()
    f, ex, fin, info = region(INV, q, stmts[k0:], c)
    i = tm.sym("L_i", "I"); j = tm.sym("L_j", "I"); k = tm.sym("L_k", "I")
    SC = tm.num(tm_fraction(".0009765625"))
    PREC, DISS = tm.num(c.enum_values.get("PRECIPITATE", -1), "I"), tm.num(c.enum_values.get("DISSOLVE", 1), "I")
    seen = set()
    for s in live(fin, ("run", "cont")):
        inv = local(info, s, "inv_ptr")
        ph = at(vdata0(ex, s, "phases", inv), i)
        iso = at(tm.select(entry_arr(ex, s, ("f", "#vdata", "P")), tm.app("fld:isotopes", (ph,), "P")), j)
        u = fld0(ex, s, "ratio_uncertainty", "R", iso)
        con = fld0(ex, s, "constraint", "I", ph)
        g = lambda nm: fld0(ex, s, nm, "I")
        col = g("col_phase_isotopes") + i * vsize0(ex, s, "isotopes", inv) + k
        cr0 = g("count_rows"); maxc = g("max_column_count"); ca = g("col_phases") + i
        pre = [tm.le(I0, ca), tm.lt(ca, g("col_epsilon")), tm.le(g("col_epsilon"), col), tm.lt(col, maxc), tm.lt(col - g("col_epsilon"), cr0)]
        pre += distinct_cells([(col - g("col_epsilon"), col), (cr0, ca), (cr0, col), (cr0 + I1, ca), (cr0 + I1, col)], maxc)
        for case, hy in spec_cases(list(s.pc) + pre, [("zero", tm.eq(u, tm.num(0))), ("prec", tm.eq(con, PREC)), ("diss", tm.eq(con, DISS))], base=list(s.pc)):
            ws = vec_writes(ex, s, "my_array")
            if case["zero"]:
                seen.add("zero")
                r.add("zero_uncertainty.no_row_written", DISCHARGED if not ws and s.status == "cont" and not writes(s, X.CURSOR) else FAILED, "symex", 0, repr(ws)[:200])
                continue
            if not case["prec"] and not case["diss"]:
                seen.add("unconstrained")
                ie = writes(s, ("f", "input_error", "I"))
                r.add("unconstrained_phase.is_an_input_error", DISCHARGED if ie and any(e.name.endswith("error_msg") for e in s.events) else FAILED, "symex", 0, repr(ie)[:100])
                continue
            sg = tm.num(-1) if case["prec"] else tm.num(1)
            if twin and case["prec"]:
                sg = tm.num(1)
            tag = "precipitate" if case["prec"] else "dissolve"
            seen.add(tag)
            v0 = X.take(hy, ws, (col - g("col_epsilon")) * maxc + col)
            if v0 is None:
                r.add("%s.optimise_entry_written" % tag, FAILED, "symex", 0, ""); continue
            U.discharge_eq_real(r, "%s.optimise.entry==SCALE_EPSILON/u" % tag, hy, v0, SC / u)
            a1, e1, a2, e2 = X.take(hy, ws, cr0 * maxc + ca), X.take(hy, ws, cr0 * maxc + col), X.take(hy, ws, (cr0 + I1) * maxc + ca), X.take(hy, ws, (cr0 + I1) * maxc + col)
            if None in (a1, e1, a2, e2):
                r.add("%s.two_rows_written_at_the_cursor" % tag, FAILED, "symex", 0, repr(ws)[:200]); continue
            U.discharge_valid(r, "%s.rows_are_+e-s*u*a<=0_and_-e-s*u*a<=0" % tag, hy, tm.and_(tm.eq(a1, tm.neg(sg * u)), tm.eq(a2, tm.neg(sg * u)),
                              tm.or_(tm.and_(tm.eq(e1, tm.num(1)), tm.eq(e2, tm.num(-1))), tm.and_(tm.eq(e1, tm.num(-1)), tm.eq(e2, tm.num(1))))))
            r.add("%s.no_other_entry" % tag, DISCHARGED if not ws else FAILED, "symex", 0, repr(ws)[:200], kind="frame")
            U.discharge_valid(r, "%s.count_rows+=2" % tag, hy, tm.eq(fld(ex, s, "count_rows", "I"), cr0 + tm.num(2, "I")))
    r.add("reach.cases", DISCHARGED if {"zero", "unconstrained", "precipitate", "dissolve"} <= seen else UNDECIDED, "symex", 0, repr(sorted(seen)), kind="vacuity")
    # the index search: k is the position of the phase's isotope in the problem's isotope list
    sl = [lp for lp in nested(jl[0]) if head(INV, lp)[1] == "k<inv_ptr->isotopes.size()"]
    if len(sl) == 1:
        f, ex, its, info = U.run_loop_isolated(INV, q, ordinal(fn, sl[0]), ctx=mkctx())
        for s in live(its, ("run", "cont", "brk")):
            inv = local(info, s, "inv_ptr"); kk = tm.sym("iter_k", "I")
            ph = at(vdata0(ex, s, "phases", inv), tm.sym("L_i", "I"))
            iso = at(tm.select(entry_arr(ex, s, ("f", "#vdata", "P")), tm.app("fld:isotopes", (ph,), "P")), tm.sym("L_j", "I"))
            gi = at(vdata0(ex, s, "isotopes", inv), kk)
            hit = tm.and_(tm.eq(fld0(ex, s, "elt_name", "P", iso), fld0(ex, s, "elt_name", "P", gi)), tm.eq(fld0(ex, s, "isotope_number", "R", iso), fld0(ex, s, "isotope_number", "R", gi)))
            for case, hy in spec_cases(list(s.pc), [("hit", hit)]):
                r.add("search.stops_at_the_isotope_with_the_same_element_and_number", DISCHARGED if (s.status == "brk") == case["hit"] else FAILED, "symex", 0, "%s %s" % (s.status, case["hit"]))
    else:
        r.add("search.loop_found", UNDECIDED, "syntactic", 0, "%d" % len(sl))
    r.assumptions += ["element names are interned strings (pointer equality), as in the source", "the zeroing loop of the u == 0 case and the search loop are skipped when reading the straight-line effect; the search has its own iteration contract",
                      "cl1 honours the sign vector, so a has the declared sign", "doubles as reals"]
    return r



def unit_isotope_balance(twin=False):
    """isotope balance row of isotope n (element E, number N): for every solution q and every isotope entry of q with primary element E and number N
    (total T, ratio R):  c(q)*T*R on alpha_q, c(q)*R on delta(total of that redox state, q), c(q)*T on delta(ratio of that redox state, q);
    for every phase p holding the isotope (ratio Rp, coefficient cp):  Rp*cp on alpha_p and cp on the phase's isotope adjustment; c = -1 for the
    final solution."""
    q = "Phreeqc::isotope_balance_equation"
    fn = A.find_function(INV, q)
    r = U.new_unit("C18.isotope_balance_equation.terms_of_the_isotope_mole_balance", INV, q, fn)
    L = all_loops(fn)
    outer = [lp for lp in L if head(INV, lp)[1] == "i<inv_ptr->count_solns"]
    if len(outer) != 1:
        raise Undecided("solution loop not found")
    jl = [lp for lp in nested(outer[0]) if "Get_isotopes().end()" in head(INV, lp)[1]]
    if len(jl) != 3:
        raise Undecided("three isotope loops expected, found %d" % len(jl))
    # sign of the solution
    first = [x for x in _body(outer[0]) if x.get("kind") == "IfStmt"][:1]
    f, ex, fin, info = region(INV, q, first, mkctx())
    i = tm.sym("L_i", "I")
    seen = set()
    for s in live(fin):
        inv = local(info, s, "inv_ptr")
        for hy, last in cases(list(s.pc), tm.eq(i, fld0(ex, s, "count_solns", "I", inv) - I1)):
            seen.add(last)
            U.discharge_eq_real(r, "sign.c(q)==%s" % ("-1_for_the_final_solution" if last else "+1_for_initial_solutions"), hy, local(info, s, "f"), tm.num(-1) if (last and not twin) else tm.num(1))
    r.add("reach.sign", DISCHARGED if seen == {True, False} else UNDECIDED, "symex", 0, repr(sorted(seen)), kind="vacuity")
    fv = tm.sym("L_f", "R"); row = tm.sym("L_row", "I")
    FUN = ("master_bsearch", "master_bsearch_primary", "Get_total", "Get_ratio", "Get_isotope_number", "Get_elt_name")
    names = ["mixing_fraction", "delta_of_the_element_total", "delta_of_the_isotope_ratio"]
    for nm, lp in zip(names, jl):
        c = mkctx(functional=FUN)
        f, ex, its, info = U.run_loop_isolated(INV, q, ordinal(fn, lp), ctx=c)
        seen = set()
        for s in live(its, ("run", "cont")):
            evs = U.iter_events(s)
            inv = local(info, s, "inv_ptr")
            prim = [e for e in evs if e.name.endswith("master_bsearch_primary")]
            num = [e for e in evs if e.name.endswith("Get_isotope_number")]
            ws = vec_writes(ex, s, "my_array")
            maxc = F(ex, s, "max_column_count"); ns = fld0(ex, s, "count_solns", "I", inv)
            R0 = entry_arr(ex, s, ("m", "R")); A0 = vdata0(ex, s, "my_array")
            if not prim or not num:
                seen.add("skipped")
                r.add("%s.no_entry_without_a_match_test" % nm, DISCHARGED if not ws else FAILED, "symex", 0, repr(ws)[:150], kind="frame")
                continue
            match = tm.and_(tm.eq(prim[0].result, tm.sym("L_primary_ptr", "P")), tm.eq(num[0].result, tm.sym("L_isotope_number", "R")))
            for hy, hit in cases(list(s.pc), match):
                if not hit:
                    seen.add("other")
                    r.add("%s.other_isotopes_add_nothing" % nm, DISCHARGED if not ws else FAILED, "symex", 0, repr(ws)[:150], kind="frame")
                    continue
                tot = [e.result for e in evs if e.name.endswith("Get_total")]
                rat = [e.result for e in evs if e.name.endswith("Get_ratio")]
                kk = local(info, s, "k")
                if nm == "mixing_fraction":
                    col, add = i, (fv * tot[0] * rat[0] if tot and rat else None)
                elif nm == "delta_of_the_element_total":
                    col, add = F(ex, s, "col_epsilon") + kk * ns + i, (fv * rat[0] if rat else None)
                else:
                    col, add = local(info, s, "column"), (fv * tot[0] if tot else None)
                if add is None:
                    r.add("%s.reads_total_/_ratio_of_the_entry" % nm, FAILED, "trace", 0, ""); continue
                seen.add("match")
                idx = row * maxc + col
                match_writes(r, nm, hy, list(ws), [(idx, tm.select(R0, A0, idx) + add, "entry(row,%s)+=%s" % ({"mixing_fraction": "q", "delta_of_the_element_total": "col_epsilon+m*solns+q", "delta_of_the_isotope_ratio": "column_of_the_ratio_unknown"}[nm],
                                                                                                      {"mixing_fraction": "c*T*R", "delta_of_the_element_total": "c*R", "delta_of_the_isotope_ratio": "c*T"}[nm]))])
        need = {"match", "other"}
        r.add("reach.%s" % nm, DISCHARGED if need <= seen else UNDECIDED, "symex", 0, repr(sorted(seen)), kind="vacuity")
    # the searches: k = index of the entry's master species among the elements / isotope unknowns
    ks = [lp for lp in nested(outer[0]) if head(INV, lp)[1] == "k<inv_ptr->elts.size()"]
    if len(ks) == 1:
        f, ex, its, info = U.run_loop_isolated(INV, q, ordinal(fn, ks[0]), ctx=mkctx())
        for s in live(its, ("run", "cont", "brk")):
            inv = local(info, s, "inv_ptr"); kk = tm.sym("iter_k", "I")
            hit = tm.eq(tm.sym("L_master_jit", "P"), fld0(ex, s, "master", "P", at(vdata0(ex, s, "elts", inv), kk)))
            for hy, h in cases(list(s.pc), hit):
                r.add("element_search.stops_at_the_element_whose_master_species_is_the_entry's", DISCHARGED if (s.status == "brk") == h else FAILED, "symex", 0, "%s %s" % (s.status, h))
    ku = [lp for lp in nested(outer[0]) if head(INV, lp)[1] == "k<inv_ptr->isotope_unknowns.size()"]
    if len(ku) == 1:
        f, ex, its, info = U.run_loop_isolated(INV, q, ordinal(fn, ku[0]), ctx=mkctx(functional=FUN))
        for s in live(its, ("run", "cont")):
            inv = local(info, s, "inv_ptr"); kk = tm.sym("iter_k", "I")
            iu = at(vdata0(ex, s, "isotope_unknowns", inv), kk)
            num = [e for e in U.iter_events(s) if e.name.endswith("Get_isotope_number")]
            col0, col1 = tm.sym("iter_column", "I"), local(info, s, "column")
            if not num:
                r.add("ratio_search.unmatched_unknown_leaves_the_column", DISCHARGED if col1 is col0 else FAILED, "symex", 0, ""); continue
            hit = tm.and_(tm.eq(tm.sym("L_master_jit", "P"), fld0(ex, s, "master", "P", iu)), tm.eq(num[0].result, fld0(ex, s, "isotope_number", "R", iu)))
            for hy, h in cases(list(s.pc), hit):
                want = F(ex, s, "col_isotopes") + tm.sym("L_i", "I") * vsize0(ex, s, "isotope_unknowns", inv) + kk if h else col0
                U.discharge_eq_real(r, "ratio_search.%s" % ("column==col_isotopes+q*unknowns+k_for_the_matching_unknown" if h else "unmatched_unknown_leaves_the_column"), hy, col1, want)
    # phases
    pl = [lp for lp in L if head(INV, lp)[1] == "i<inv_ptr->phases.size()"]
    if len(pl) == 1 and len(nested(pl[0])) == 1:
        f, ex, its, info = U.run_loop_isolated(INV, q, ordinal(fn, nested(pl[0])[0]), ctx=mkctx())
        seen = set()
        for s in live(its, ("run", "cont", "brk")):
            inv = local(info, s, "inv_ptr"); jj = tm.sym("iter_j", "I"); ii = tm.sym("L_i", "I")
            iso = at(tm.select(entry_arr(ex, s, ("f", "#vdata", "P")), tm.sym("L_isotope_ref_ref", "P")), jj)      # element j of the referenced vector
            ws = vec_writes(ex, s, "my_array")
            hit = tm.and_(tm.eq(fld0(ex, s, "primary", "P", iso), tm.sym("L_primary_ptr", "P")), tm.eq(fld0(ex, s, "isotope_number", "R", iso), tm.sym("L_isotope_number", "R")))
            maxc = F(ex, s, "max_column_count")
            for hy, h in cases(list(s.pc), hit):
                seen.add(h)
                if not h:
                    r.add("phase.other_isotopes_add_nothing", DISCHARGED if not ws and s.status != "brk" else FAILED, "symex", 0, "", kind="frame"); continue
                ca = F(ex, s, "col_phases") + ii
                ci = F(ex, s, "col_phase_isotopes") + ii * vsize0(ex, s, "isotopes", inv) + tm.sym("L_n", "I")
                pre = [tm.le(I0, ca), tm.lt(ca, ci), tm.lt(ci, maxc)] + distinct_cells([(tm.sym("L_row", "I"), ca), (tm.sym("L_row", "I"), ci)], maxc)
                match_writes(r, "phase", hy + pre, list(ws), [(tm.sym("L_row", "I") * maxc + ca, fld0(ex, s, "ratio", "R", iso) * fld0(ex, s, "coef", "R", iso), "entry(row,col_phases+p)==ratio*coef"),
                                                           (tm.sym("L_row", "I") * maxc + ci, fld0(ex, s, "coef", "R", iso), "entry(row,col_phase_isotopes+p*isotopes+n)==coef")])
        r.add("reach.phase", DISCHARGED if seen == {True, False} else UNDECIDED, "symex", 0, repr(sorted(seen)), kind="vacuity")
    else:
        r.add("phase.loops_found", UNDECIDED, "syntactic", 0, "")
    r.assumptions += ["getters of cxxSolutionIsotope and master_bsearch / master_bsearch_primary are functional", "H and O isotopes are skipped for the element-total term, as in the source (a documented open question there)",
                      "the row was zero before (memcpy from inv_zero in setup_inverse)", "doubles as reals"]
    return r


UNITS = [("C18.carbon_derivs.central_differences_of_alkalinity_over_the_declared_uncertainties", unit_carbon_derivs),
         ("C18.phase_isotope_inequalities.adjustment_bounded_by_uncertainty_times_transfer", unit_phase_isotope_rows),
         ("C18.isotope_balance_equation.terms_of_the_isotope_mole_balance", unit_isotope_balance)]
