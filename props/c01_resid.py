"""C01/C02/C03: the rows of Phreeqc::residuals — each `x[i]->type == ROW` branch is a statement contract: the residual of that row
is the stated equation of the model; the convergence flag is only ever lowered inside the loop."""
from props.common import *
from vf.core import FAILED, DISCHARGED, UNDECIDED
from vf.astvc import hdr

MODEL = "src/phreeqcpp/model.cpp"
GS = "src/phreeqcpp/global_structures.h"
Q = "Phreeqc::residuals"


def _branch(fn, cond_prefix):
    ns = find_nodes(fn, MODEL, lambda t, x: text_of(MODEL, x["inner"][0]).startswith(cond_prefix), kinds=("IfStmt",))
    if not ns:
        raise Undecided("branch `%s` of residuals() not found" % cond_prefix)
    return ns[0]["inner"][1]


ROWS = [
    # (row, condition text prefix, description)
    ("MB", "x[i]->type==MB", "mole balance: input total - sum of species"),
    ("ALK", "x[i]->type==ALK", "alkalinity: input - sum"),
    ("SOLUTION_PHASE_BOUNDARY", "x[i]->type==SOLUTION_PHASE_BOUNDARY", "phase boundary: ln10*SI-sum"),
    ("CB", "x[i]->type==CB", "charge balance"),
    ("MU", "x[i]->type==MU", "ionic strength: mu*kgw - 0.5*sum(z^2 m)"),
    ("MH", "x[i]->type==MH", "total hydrogen"),
    ("MH2O", "x[i]->type==MH2O", "total oxygen"),
    ("PP", "x[i]->type==PP", "pure phase: ln10*(IAP sum - target)"),
    ("SS_MOLES", "x[i]->type==SS_MOLES", "solid-solution component"),
    ("EXCH", "x[i]->type==EXCH", "exchange sites"),
    ("SURFACE", "x[i]->type==SURFACE&&", None),
]


def unit_residual_rows(twin=False):
    fn = A.find_function(MODEL, Q)
    r = U.new_unit("C01.residuals.row_equations", MODEL, Q, fn)
    c0 = lambda: ctx(functional=("Get_add_formula", "Get_initial_moles", "size", "fabs", "sqrt", "exp"))
    i = tm.sym("L_i", "I")
    done = 0
    import re as _re
    has = lambda rel: bool(_re.search(r"^\s*#\s*define\s+COMBINE\s*$", src(rel).decode("latin1"), _re.M))
    combine = has(MODEL)
    agree = has("src/phreeqcpp/prep.cpp") == combine
    r.add("water_in_H_O_sums.model_and_prep_agree(COMBINE)", DISCHARGED if agree else FAILED, "syntactic", 0,
          "model.cpp COMBINE=%s prep.cpp COMBINE=%s" % (combine, has("src/phreeqcpp/prep.cpp")), kind="structural")
    for row, cond, _ in ROWS:
        if row == "SURFACE":
            cond = "x[i]->type==SURFACE"
            ns = [n for n in find_nodes(fn, MODEL, lambda t, x: text_of(MODEL, x["inner"][0]) == "x[i]->type==SURFACE", kinds=("IfStmt",))]
            if not ns:
                raise Undecided("SURFACE branch not found")
            body = ns[0]["inner"][1]
        else:
            body = _branch(fn, cond)
        f, ex, fin, info = region(MODEL, Q, [body], c0())
        paths = live(fin, ("run", "cont"))
        nrow = 0
        for s in paths:
            xi = vec_elem(ex, s, "x", i)
            F = lambda name, so="R", obj=None: fld0(ex, s, name, so, xi if obj is None else obj)
            T = lambda name, so="R": fld0(ex, s, name, so)
            rd = tm.select(entry_arr(ex, s, ("f", "#vdata", "P")), tm.app("fld:residual", (THIS,), "P"))
            w = [(ix, v) for ix, v in writes(s, ("m", "R")) if ix == (rd, i)]
            other = [(ix, v) for ix, v in writes(s, ("m", "R")) if ix != (rd, i)]
            hy = list(s.pc)
            if other:
                r.add("%s.writes_only_its_own_residual" % row, FAILED, "symex", 0, repr(other)[:300], kind="frame"); continue
            if row in ("MH2O",) and not w:
                # mass_water_switch: the row is skipped
                if B.z3_prove(hy, tm.eq(T("mass_water_switch", "I"), tm.num(1, "I")))[0] == "proved":
                    continue
            if row == "SS_MOLES" and not w:
                if B.z3_prove(hy, tm.eq(F("ss_in", "I"), tm.num(0, "I")))[0] == "proved":
                    continue
            if not w:
                r.add("%s.residual_written" % row, FAILED, "symex", 0, "path %r writes no residual" % (s.pc,)); continue
            val = w[-1][1]
            nrow += 1
            ln10 = T("LOG_10")
            alts = None
            h2o_m = fld0(ex, s, "moles", "R", T("s_h2o", "P"))
            if row in ("MB", "ALK", "EXCH", "SURFACE"):
                spec = F("moles") - F("f")
            elif row in ("SOLUTION_PHASE_BOUNDARY", "PP", "SS_MOLES"):
                spec = F("f") * ln10
            elif row == "CB":
                same = tm.eq(T("ph_unknown", "P"), T("charge_balance_unknown", "P"))
                alts = [(h, F("moles") - F("f") if v else tm.neg(F("f"))) for h, v in cases(hy, same)]
            elif row == "MU":
                spec = T("mass_water_aq_x") * T("mu_x") - (tm.Q("0.5") if not twin else tm.num(1)) * F("f")
            elif row == "MH" and combine:
                spec = F("moles") - F("f")
                mo = T("mass_oxygen_unknown", "P")
                sw = tm.eq(T("mass_water_switch", "I"), tm.num(1, "I"))
                alts = [(h, spec - tm.num(2) * (fld0(ex, s, "moles", "R", mo) - fld0(ex, s, "f", "R", mo)) if v else spec) for h, v in cases(hy, sw)]
            elif row == "MH2O" and combine:
                spec = F("moles") - F("f")
            elif row == "MH":
                spec = (F("moles") - tm.num(2) * h2o_m) - F("f")
                mo = T("mass_oxygen_unknown", "P")
                sw = tm.eq(T("mass_water_switch", "I"), tm.num(1, "I"))
                alts = [(h, spec - tm.num(2) * (fld0(ex, s, "moles", "R", mo) - fld0(ex, s, "f", "R", mo)) if v else spec) for h, v in cases(hy, sw)]
                wf = [v for ix, v in writes(s, ("f", "f", "R")) if ix == (xi,)]
                if len(wf) != 1:
                    r.add("MH.f_includes_water_once", FAILED, "symex", 0, repr(wf)[:200])
                else:
                    U.discharge_eq_real(r, "MH.f+=2*moles(H2O)", hy, wf[0], F("f") + tm.num(2) * h2o_m)
            elif row == "MH2O":
                spec = (F("moles") - h2o_m) - F("f")
                wf = [v for ix, v in writes(s, ("f", "f", "R")) if ix == (xi,)]
                if len(wf) != 1:
                    r.add("MH2O.f_includes_water_once", FAILED, "symex", 0, repr(wf)[:200])
                else:
                    U.discharge_eq_real(r, "MH2O.f+=moles(H2O)", hy, wf[0], F("f") + h2o_m)
            for h_, spec_ in (alts if alts is not None else [(hy, spec)]):
                U.discharge_eq_real(r, "%s.residual_equation" % row, h_, val, spec_)
            # the convergence flag is never raised
            cv = s.locals.get(info["names"]["converge"])
            if cv is not tm.sym("L_converge", "I") and cv != tm.num(0, "I"):
                if B.z3_prove(hy, tm.or_(tm.eq(cv, tm.sym("L_converge", "I")), tm.eq(cv, tm.num(0, "I"))))[0] != "proved":
                    r.add("%s.converge_only_lowered" % row, FAILED, "z3", 0, repr(cv)[:200])
        if nrow:
            done += 1
        else:
            r.add("reach.%s" % row, UNDECIDED, "symex", 0, "no path writes the residual", kind="vacuity")
    r.add("reach.rows", DISCHARGED if done == len(ROWS) else UNDECIDED, "symex", 0, "%d of %d rows" % (done, len(ROWS)), kind="vacuity")
    r.assumptions += ["x[i]->f holds the sums built by build_model/mb_sums (not under this contract)", "the tests that lower `converge` (tolerance scaling) are not pinned, only that the flag is never raised in a row",
                      "AH2O, GAS_MOLES, PITZER_GAMMA and CD-MUSIC rows are not in this unit (surface charge rows: C20)", "doubles as reals"]
    return r
