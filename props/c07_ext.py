"""C07 (extension): the load path around the member reset that C07.reset.* already decides.
 * IPhreeqc::load_db / load_db_str / LoadDatabase / LoadDatabaseString / test_db: the old engine state is discarded (UnLoadDatabase) BEFORE the new
   database is read, the result reported is the engine's input-error count, the three global output switches are silenced during the load and
   restored (they survive the load), the probe run of test_db leaves no user-visible entity behind;
 * the BASIC interpreter after a load is a newly constructed PBasic whose every data member has a constructor value; the old one is deleted;
 * the Pitzer / SIT work lists that C07.reset.Phreeqc_members had to leave undecided are rebuilt from empty by their only writer;
 * Phreeqc::do_initialize runs initialize() in state INITIALIZE."""
from props.common import *
from vf.core import FAILED, DISCHARGED, UNDECIDED

IP = "src/IPhreeqc.cpp"
I0, I1 = tm.num(0, "I"), tm.num(1, "I")
SWITCHES = ("ErrorFileOn", "OutputFileOn", "LogFileOn")


def _before(evs, a, b):
    return evs.index(a) < evs.index(b)


def unit_load_sequence(twin=False):
    fn0 = A.find_function(IP, "IPhreeqc::load_db")
    r = U.new_unit("C07.load_db.old_state_discarded_before_the_new_database_is_read", IP, "IPhreeqc::load_db; load_db_str; LoadDatabase; LoadDatabaseString; test_db", fn0)
    PH = lambda ex, s: fld0(ex, s, "PhreeqcPtr", "P")
    for q, kind in (("IPhreeqc::load_db", "file"), ("IPhreeqc::load_db_str", "string")):
        c = ctx(functional=("get_input_errors",), enums_from="Phreeqc.h", enums=["TRUE", "FALSE", "STOP"])
        f, ex, fin, info = U.run_function(IP, q, ctx=c, default="havoc")
        n = 0
        for s in live(fin, ("ret",)):
            evs = s.events
            if any(e.name.endswith("error_msg") for e in evs):
                continue                    # error_msg(..., STOP) throws: the file could not be opened (handled by the catch arm, not specified here)
            n += 1
            un = [e for e in evs if e.name.endswith("UnLoadDatabase")]
            rd = [e for e in evs if e.name.endswith("read_database")]
            pu = [e for e in evs if e.name.endswith("push_istream")]
            cl = [e for e in evs if e.name.endswith("clear_istream")]
            ok = len(un) == 1 and un[0].recv is THIS and evs.index(un[0]) == min(evs.index(e) for e in evs if not e.name.startswith("ctor"))
            r.add("%s.UnLoadDatabase_is_the_first_action" % kind, DISCHARGED if ok else FAILED, "trace", 0, repr([e.name for e in evs[:4]]), kind="trace")
            ok = len(rd) == 1 and len(pu) == 1 and rd[0].recv is PH(ex, s) and _before(evs, un[0], pu[0]) and _before(evs, pu[0], rd[0]) if un else False
            r.add("%s.read_database_once_on_the_engine_after_the_stream_is_installed" % kind, DISCHARGED if ok else FAILED, "trace", 0, repr([e.name for e in evs]), kind="trace")
            ok = len(cl) == 1 and rd and _before(evs, rd[0], cl[0])
            r.add("%s.input_stream_released_after_reading" % kind, DISCHARGED if ok else FAILED, "trace", 0, "", kind="trace")
            errs = tm.app("call:get_input_errors", (PH(ex, s),), "I")
            U.discharge_valid(r, "%s.returns_the_engine's_input_error_count" % kind, list(s.pc), tm.eq(s.ret, errs if not twin else errs + I1))
            dl = fld(ex, s, "DatabaseLoaded", "B")
            U.discharge_valid(r, "%s.DatabaseLoaded<=>no_input_errors" % kind, list(s.pc), tm.and_(tm.or_(tm.not_(dl), tm.eq(errs, I0)), tm.or_(tm.not_(tm.eq(errs, I0)), dl)))
        r.add("reach.%s" % kind, DISCHARGED if n else UNDECIDED, "symex", 0, "%d" % n, kind="vacuity")
    for q, callee in (("IPhreeqc::LoadDatabase", "load_db"), ("IPhreeqc::LoadDatabaseString", "load_db_str")):
        c = ctx(enums_from="Phreeqc.h", enums=["TRUE", "FALSE", "STOP"])
        c.snapshot = {callee: [(m, "B") for m in SWITCHES], "test_db": [(m, "B") for m in SWITCHES]}
        f, ex, fin, info = U.run_function(IP, q, ctx=c, default="havoc")
        seen = set()
        tag = q.split("::")[-1]
        for s in live(fin, ("ret",)):
            ld = [e for e in s.events if e.name.endswith("::" + callee)]
            td = [e for e in s.events if e.name.endswith("::test_db")]
            if len(ld) != 1:
                r.add("%s.calls_%s_once" % (tag, callee), FAILED, "trace", 0, "%d" % len(ld)); continue
            n = ld[0].result
            for sw in SWITCHES:
                U.discharge_valid(r, "%s.switch_%s_survives_the_load(restored_to_its_entry_value)" % (tag, sw), list(s.pc), tm.and_(tm.or_(tm.not_(fld(ex, s, sw, "B")), fld0(ex, s, sw, "B")), tm.or_(tm.not_(fld0(ex, s, sw, "B")), fld(ex, s, sw, "B"))))
                for e in ld + td:
                    v = getattr(e, "snap", {}).get(sw)
                    r.add("%s.switch_%s_off_while_%s_runs" % (tag, sw, e.name.split("::")[-1]), DISCHARGED if v is tm.FALSE else FAILED, "trace", 0, repr(v), kind="trace")
            for hy, okload in cases(list(s.pc), tm.eq(n, I0)):
                seen.add(okload)
                if okload:
                    r.add("%s.probe_run_after_a_clean_load" % tag, DISCHARGED if len(td) == 1 and td[0].recv is THIS else FAILED, "trace", 0, "%d test_db calls" % len(td), kind="trace")
                    if td:
                        U.discharge_valid(r, "%s.returns_the_probe's_result_after_a_clean_load" % tag, hy, tm.eq(s.ret, td[0].result))
                else:
                    r.add("%s.no_probe_run_after_a_failed_load" % tag, DISCHARGED if not td else FAILED, "trace", 0, "", kind="trace")
                    U.discharge_valid(r, "%s.returns_the_error_count_of_a_failed_load" % tag, hy, tm.eq(s.ret, n))
        r.add("reach.%s" % tag, DISCHARGED if seen == {True, False} else UNDECIDED, "symex", 0, repr(sorted(seen)), kind="vacuity")
    # test_db: the probe defines and deletes the same scratch solution number, inside the reading-database bracket
    c = ctx(enums_from="Phreeqc.h", enums=["TRUE", "FALSE"])
    f, ex, fin, info = U.run_function(IP, "IPhreeqc::test_db", ctx=c, default="havoc")
    n = 0
    for s in live(fin, ("ret",)):
        n += 1
        evs = s.events
        nu = [e for e in evs if e.name.endswith("next_user_number")]
        out = [e.args[0] for e in evs if e.name.endswith("operator<<") and e.args]
        lit = [a.args[0].strip('"') if a.op == "str" else a for a in out]
        ok = len(nu) == 1 and "SOLUTION " in lit and "DELETE; -solution " in lit and lit.index("SOLUTION ") + 1 < len(lit) and lit[lit.index("SOLUTION ") + 1] is nu[0].result and lit[-1] is nu[0].result and lit[-2] == "DELETE; -solution "
        r.add("test_db.probe_defines_and_deletes_the_same_unused_solution_number", DISCHARGED if ok else FAILED, "trace", 0, repr(lit)[:300], kind="trace")
        sr = [e for e in evs if e.name.endswith("set_reading_database")]
        rs = [e for e in evs if e.name.endswith("RunString")]
        ok = len(sr) == 2 and len(rs) == 1 and same_num(sr[0].args[0], 1) and same_num(sr[1].args[0], 0) and _before(evs, sr[0], rs[0]) and _before(evs, rs[0], sr[1])
        r.add("test_db.reading_database_flag_set_for_the_probe_and_cleared_after", DISCHARGED if ok else FAILED, "trace", 0, repr([e.args for e in sr]), kind="trace")
        U.discharge_valid(r, "test_db.returns_the_probe_run's_result", list(s.pc), tm.eq(s.ret, rs[0].result) if rs else tm.FALSE)
    r.add("reach.test_db", DISCHARGED if n else UNDECIDED, "symex", 0, "%d" % n, kind="vacuity")
    r.assumptions += ["only the try-bodies are executed: the catch arms (IPhreeqcStop -> close_input_files, unknown exception -> rethrow) are not specified",
                      "UnLoadDatabase itself is unit C07.reset.IPhreeqc_UnLoadDatabase; read_database / RunString / get_input_errors are opaque (get_input_errors functional)",
                      "stream insertions are read as the ordered list of their right operands"]
    return r


def same_num(t, k):
    return tm.isnum(t) and int(t.args[0]) == k or (k == 1 and t is tm.TRUE) or (k == 0 and t is tm.FALSE)


def unit_basic_interpreter(twin=False):
    """after the unload sequence the BASIC interpreter is a new PBasic: initialize() frees an old one and allocates a new one bound to this engine;
    basic_free() deletes and nulls it; the PBasic constructor gives every scalar / pointer data member a value that does not depend on anything
    that happened before (so no compiled program, DATA pointer, loop stack or error state can be inherited)."""
    PB = "src/phreeqcpp/PBasic.cpp"
    MS = "src/phreeqcpp/mainsubs.cpp"
    BS = "src/phreeqcpp/basicsubs.cpp"
    fnc = A.find_function(PB, "PBasic::PBasic")
    r = U.new_unit("C07.PBasic.new_interpreter_with_constructor_values_after_load", PB, "PBasic::PBasic; Phreeqc::basic_free; Phreeqc::initialize", fnc, kind="structural")
    from props import C07 as M
    fields = A.class_fields("PBasic.h", "PBasic")
    if twin:
        fields = fields + [("verif_twin_member_never_set", "int")]
    c = ctx()
    f, ex, fin, info = U.run_function(PB, "PBasic::PBasic", ctx=c, default="havoc")
    sts = live(fin, ("ret", "run"))
    n = 0
    for name, typ in fields:
        if name is None or not M.is_scalar_type(typ) or "static" in typ:
            continue
        n += 1
        bad = None
        for s in sts:
            hit = [k for k in s.heap if k[0] == "f" and k[1] == name and writes(s, k)]
            if not hit:
                bad = "never assigned by the constructor"; break
            val = tm.select(s.heap[hit[0]], THIS)
            deps = M.pre_state_syms(val)
            deps = [d for d in deps if not d.startswith(("P0", "P1"))]        # the two constructor arguments (engine, io) are the new bindings
            if deps:
                bad = "depends on the state before: %s" % ", ".join(deps[:3]); break
        r.add("constructor.member_%s_initialised" % name, FAILED if bad else DISCHARGED, "term-inspection", 0, "%s%s" % (typ, (" : " + bad) if bad else ""), kind="reset")
    r.add("reach.constructor", DISCHARGED if sts and n >= 15 else UNDECIDED, "symex", 0, "%d paths, %d scalar members" % (len(sts), n), kind="vacuity")
    # basic_free: delete + NULL
    f, ex, fin, info = U.run_function(BS, "Phreeqc::basic_free", ctx=ctx(), default="havoc")
    for s in live(fin, ("ret", "run")):
        dl = [e for e in s.events if e.name == "delete"]
        old = fld0(ex, s, "basic_interpreter", "P")
        r.add("basic_free.deletes_the_interpreter", DISCHARGED if len(dl) == 1 and dl[0].args[0] is old else FAILED, "trace", 0, repr([e.args for e in dl]), kind="trace")
        U.discharge_valid(r, "basic_free.pointer_nulled", list(s.pc), tm.eq(fld(ex, s, "basic_interpreter", "P"), tm.NULL))
    # initialize(): region around `new PBasic`
    fi = A.find_function(MS, "Phreeqc::initialize")
    body = A.body_of(fi)["inner"]
    k = next((i for i, x in enumerate(body) if "newPBasic(" in text_of(MS, x)), None)
    if k is None:
        raise Undecided("`new PBasic` not found in Phreeqc::initialize")
    f, ex, fin, info = region(MS, "Phreeqc::initialize", body[k - 1:k + 1], ctx())
    seen = set()
    for s in live(fin):
        old = fld0(ex, s, "basic_interpreter", "P")
        nw = [e for e in s.events if e.name.startswith("new ") and "PBasic" in e.name]
        fr = [e for e in s.events if e.name.endswith("basic_free")]
        for hy, had in cases(list(s.pc), tm.not_(tm.eq(old, tm.NULL))):
            seen.add(had)
            if had:
                r.add("initialize.old_interpreter_freed_first", DISCHARGED if len(fr) == 1 and nw and _before(s.events, fr[0], nw[0]) else FAILED, "trace", 0, "", kind="trace")
        ok = len(nw) == 1 and nw[0].args and nw[0].args[0] is THIS and fld(ex, s, "basic_interpreter", "P") is nw[0].result
        r.add("initialize.interpreter_is_a_new_PBasic_bound_to_this_engine", DISCHARGED if ok else FAILED, "trace", 0, repr([e.args for e in nw])[:200], kind="trace")
    r.add("reach.initialize", DISCHARGED if seen == {True, False} else UNDECIDED, "symex", 0, repr(sorted(seen)), kind="vacuity")
    r.assumptions += ["members of class type (maps of commands, std::string) are default-constructed by C++; only scalar / pointer / enum members are generated as obligations",
                      "the static command table of PBasic is shared by all instances and never written after start-up (not checked)",
                      "clean_up() calls basic_free (obligation sequence.basic_free_is_called_from_clean_up of C07.reset.Phreeqc_members)"]
    return r


def unit_work_lists(twin=False):
    """s_list, cation_list, neutral_list, anion_list, ion_list, param_list (indices into s_x / pitz_params of the CURRENT model) are not reset by the
    unload sequence (C07.reset.Phreeqc_members leaves them undecided).  They cannot carry anything across a load: their only writers,
    pitzer_make_lists and sit_make_lists, empty all six before the first element is appended, and every model build (prep) calls the writer of
    the active model before the lists are read."""
    PZ, SI, PR = "src/phreeqcpp/pitzer.cpp", "src/phreeqcpp/sit.cpp", "src/phreeqcpp/prep.cpp"
    LISTS = ["s_list", "cation_list", "neutral_list", "anion_list", "ion_list", "param_list"]
    fn0 = A.find_function(PZ, "Phreeqc::pitzer_make_lists")
    r = U.new_unit("C07.pitzer_sit.work_lists_rebuilt_from_empty_by_their_only_writer", PZ, "Phreeqc::pitzer_make_lists; sit_make_lists", fn0)
    for rel, q in ((PZ, "Phreeqc::pitzer_make_lists"), (SI, "Phreeqc::sit_make_lists")):
        fn = A.find_function(rel, q)
        body = A.body_of(fn)["inner"]
        k = next((i for i, x in enumerate(body) if x.get("kind") in ("ForStmt", "WhileStmt", "DoStmt")), None)
        if k is None:
            raise Undecided("fill loops of %s not found" % q)
        f, ex, fin, info = region(rel, q, body[:k], ctx())
        tag = q.split("::")[-1]
        for s in live(fin):
            for nm in (LISTS if not twin else LISTS + ["verif_twin_list"]):
                sz = tm.select(ex.heap_arr(s, ("f", "#vsize", "I")), tm.app("fld:" + nm, (THIS,), "P"))
                r.add("%s.%s_emptied_before_the_fill_loops" % (tag, nm), DISCHARGED if tm.isnum(sz) and int(sz.args[0]) == 0 else FAILED, "symex", 0, repr(sz)[:80], kind="reset")
            U.discharge_valid(r, "%s.cached_temperature_invalidated(OTEMP=-100)" % tag, list(s.pc), tm.eq(fld(ex, s, "OTEMP", "R"), tm.num(-100)))
        # appends happen only after that point
        pre = "".join(text_of(rel, x) for x in body[:k])
        r.add("%s.no_append_before_the_lists_are_emptied" % tag, DISCHARGED if ".push_back(" not in pre else FAILED, "syntactic", 0, "", kind="structural")
    # only writers
    import glob, os, re
    from vf.core import REPO
    writers = {}
    for path in sorted(glob.glob(os.path.join(REPO, "src/phreeqcpp/*.cpp"))):
        raw = open(path, encoding="latin1").read()
        if not any(nm in raw for nm in LISTS):
            continue
        for fname, body_txt in _function_bodies(raw):
            for nm in LISTS:
                if re.search(r"(?<![\w>.])%s\s*(\.(push_back|resize|insert|erase|assign|swap|emplace_back)\s*\(|\[[^\]]*\]\s*=[^=]|=[^=])" % nm, body_txt):
                    writers.setdefault(nm, set()).add(fname)
    allowed = {"pitzer_make_lists", "sit_make_lists", "InternalCopy", "Phreeqc"}
    for nm in LISTS:
        ok = bool(writers.get(nm)) and writers[nm] <= allowed
        r.add("%s.written_only_by_the_two_list_builders(and_the_copy_constructor)" % nm, DISCHARGED if ok else FAILED, "ast-scan", 0, repr(sorted(writers.get(nm, []))), kind="structural")
    tp = text_of(PR, A.find_function(PR, "Phreeqc::prep"))
    r.add("prep.builds_the_lists_of_the_active_model_on_every_model_build", DISCHARGED if "if(sit_model)sit_make_lists();" in tp and "pitzer_make_lists();" in tp else FAILED, "syntactic", 0, "", kind="structural")
    r.assumptions += ["the readers of the lists (pitzer, sit, their gamma / derivative helpers) run only after prep() has built the model (not decided)",
                      "writers are found by a text scan of src/phreeqcpp/*.cpp (push_back / resize / insert / erase / element or whole assignment)", "std::vector::clear sets the size to 0 (STL model)"]
    return r


def _function_bodies(txt):
    """[(function name, text)] of the definitions of a phreeqc source file (name at column 0 after a `Class::` line, or `type Class::name(` on one line)"""
    import re
    lines = txt.split("\n")
    defs = []
    for i, l in enumerate(lines):
        m = re.match(r"^([A-Za-z_]\w*)\s*\(.*", l)
        if m and i > 0 and re.search(r"(\w+)::\s*$", lines[i - 1]):
            defs.append((i, m.group(1))); continue
        m = re.match(r"^(?:[\w:<>\*&\s]+?\s+)?(\w+)::(~?\w+)\s*\(", l)
        if m and not l.rstrip().endswith(";"):
            defs.append((i, m.group(2)))
    return [(name, "\n".join(lines[i:(defs[k + 1][0] if k + 1 < len(defs) else len(lines))])) for k, (i, name) in enumerate(defs)]


def unit_do_initialize(twin=False):
    MS = "src/phreeqcpp/mainsubs.cpp"
    q = "Phreeqc::do_initialize"
    fn = A.find_function(MS, q)
    r = U.new_unit("C07.do_initialize.runs_initialize_in_state_INITIALIZE", MS, q, fn)
    c = ctx(enums_from="Phreeqc.h", enums=["INITIALIZE"])
    c.snapshot = {"initialize": [("state", "I")]}
    f, ex, fin, info = U.run_function(MS, q, ctx=c, default="havoc")
    n = 0
    for s in live(fin, ("ret",)):
        n += 1
        ini = [e for e in s.events if e.name.endswith("::initialize")]
        r.add("initialize_called_once_on_this_engine", DISCHARGED if len(ini) == 1 and ini[0].recv is THIS else FAILED, "trace", 0, repr([e.name for e in s.events]), kind="trace")
        if ini:
            v = getattr(ini[0], "snap", {}).get("state")
            want = c.enum_values["INITIALIZE"] + (1 if twin else 0)
            r.add("state==INITIALIZE_while_it_runs", DISCHARGED if v is not None and tm.isnum(v) and int(v.args[0]) == want else FAILED, "trace", 0, repr(v), kind="trace")
        U.discharge_valid(r, "returns_0_when_initialize_completes", list(s.pc), tm.eq(s.ret, I0))
    r.add("reach.do_initialize", DISCHARGED if n else UNDECIDED, "symex", 0, "%d" % n, kind="vacuity")
    r.assumptions += ["the catch arm (PhreeqcStop -> return get_input_errors()) is not specified"]
    return r


UNITS = [("C07.load_db.old_state_discarded_before_the_new_database_is_read", unit_load_sequence),
         ("C07.PBasic.new_interpreter_with_constructor_values_after_load", unit_basic_interpreter),
         ("C07.pitzer_sit.work_lists_rebuilt_from_empty_by_their_only_writer", unit_work_lists),
         ("C07.do_initialize.runs_initialize_in_state_INITIALIZE", unit_do_initialize)]
from props.c07_ext2 import UNITS as _U2; UNITS = UNITS + _U2
