"""C20 extension, read-outs (basicsubs.cpp) and diffuse-layer composition (integrate.cpp).

* calc_surface_charge(surface): sum over the surface species bound to a site of that surface of moles * z.
* diffuse-layer composition: for every aqueous species (type AQ or HPLUS) the amount held by the layer of one charge record is
        n_i = c_i * erm_i * (W_dl + W_aq * g(z_i))            c_i molality, W_dl water of the layer, W_aq free water, g the excess factor
  both where the layer enters the element totals (sum_diffuse_layer) and where it is reported (diff_layer_total = EDL("element", ...)).
* diff_layer_total("psi"/"psi1"/"psi2"/"charge"../"sigma"..): the reported potential is the one the charge-potential rows use
  (DDL/CCM: psi = 2 R T ln(10) la / F; CD-MUSIC: psi_k = -R T ln(10) la_k / F) and the reported charge density is charge * F / (A g)."""
from props.c20_ext_util import *

BS = "src/phreeqcpp/basicsubs.cpp"
INTEG = "src/phreeqcpp/integrate.cpp"
SURFDL = ["Get_g", "Set_g", "Get_dg", "Set_dg"]


def _ctx(extra=()):
    c = ctx(functional={"Get_surface_ptr", "Get_type", "under", "Find_charge", "Get_g_map", "surface_get_psi_master", "Get_thickness", "Get_only_counter_ions",
                        "Get_debye_lengths", "Get_DDL_limit", "Get_solution_ptr", "Get_name"} | set(extra))
    surface_enums(c)
    inline_accessors(c, SURFCHARGE_TU, "cxxSurfaceCharge", CHARGE_ACCESSORS)
    inline_accessors(c, SURFCHARGE_TU, "cxxSurfDL", SURFDL)
    return c


def _param(fn, k):
    ps = A.params_of(fn)
    if len(ps) <= k:
        raise Undecided("function has no parameter %d" % k)
    return ps[k]["name"]


# ------------------------------------------------------------------------------------------------ calc_surface_charge
def unit_calc_surface_charge(twin=False):
    q = "Phreeqc::calc_surface_charge"
    fn = A.find_function(BS, q)
    r = U.new_unit("C20.calc_surface_charge.sum_of_z_times_moles_over_the_surface's_species", BS, q, fn)
    lps = loops_of(fn)
    if len(lps) != 2:
        raise Undecided("calc_surface_charge: expected the species loop and the token loop, found %d loops" % len(lps))
    accs = accumulators(lps[1])
    if len(accs) != 1:
        raise Undecided("calc_surface_charge: the token loop accumulates into %r" % accs)
    acc = accs[0]
    pname = _param(fn, 0)
    SURF = KI("SURF")
    # inner loop: one reaction token of species k
    f, ex, its, inf = U.run_loop_isolated(BS, q, 1, ctx=_ctx())
    ind = induction_name(lps[1]); kname = induction_name(lps[0])
    seen = set()
    for s in live(its, ("run", "cont")):
        i = loc(inf, s, ind)
        tok = tm.select(entry_arr(ex, s, ("f", "#vdata", "P")), tm.app("fld:token", (tm.app("fld:trxn", (THIS,), "P"),), "P")) + i
        tsp = fld0(ex, s, "s", "P", tok)
        ty = fld0(ex, s, "type", "I", tsp)
        site_name = fld0(ex, s, "name", "P", fld0(ex, s, "elt", "P", fld0(ex, s, "primary", "P", tsp)))
        spk = vec_elem(ex, s, "s_x", tm.sym("L_" + kname, "I"))
        zm = fld0(ex, s, "moles", "R", spk) * (fld0(ex, s, "z", "R", spk) if not twin else tm.num(1))
        new, old = unstack(loc(inf, s, acc)), tm.sym("iter_" + acc, "R")
        cmps = [e for e in ev_named(s, "strcmp")]
        for hy, surf in cases(list(s.pc), tm.eq(ty, SURF)):
            if not surf:
                seen.add("not_a_site")
                U.discharge_valid(r, "token.not_a_surface_site:charge_unchanged", hy, tm.eq(new, old))
                continue
            # the name compared with the requested surface derives from THIS token's site master element
            srcs = [e for e in U.iter_events(s) if site_name in e.args]
            r.add("token.surface_site:its_master_element_name_is_what_is_compared", DISCHARGED if srcs and cmps and tm.sym("L_" + pname, "P") in cmps[-1].args else FAILED, "symex", 0,
                  "events using the site's element name: %d; strcmp calls: %r" % (len(srcs), cmps)[:200])
            if not cmps:
                continue
            for h, match in cases(hy, tm.eq(cmps[-1].result, tm.num(0, "I"))):
                if match:
                    seen.add("match")
                    U.discharge_valid(r, "token.site_of_the_surface:charge+=moles_k*z_k(same_species_k)", h, tm.eq(new, old + zm))
                else:
                    seen.add("other_surface")
                    U.discharge_valid(r, "token.site_of_another_surface:charge_unchanged", h, tm.eq(new, old))
    r.add("reach.token_cases", DISCHARGED if seen == {"not_a_site", "match", "other_surface"} else UNDECIDED, "symex", 0, repr(sorted(seen)), kind="vacuity")
    # outer loop: which species are visited and which reaction is scanned
    c0 = _ctx(); c0.log_stores = True
    f, ex, its, inf = U.run_loop_isolated(BS, q, 0, ctx=c0)
    seen = set()
    for s in live(its, ("run", "cont")):
        spk = vec_elem(ex, s, "s_x", loc(inf, s, kname))
        ty = fld0(ex, s, "type", "I", spk)
        adds = ev_named(s, "trxn_add")
        new = loc(inf, s, acc)
        for hy, surf in cases(list(s.pc), tm.eq(ty, SURF)):
            if not surf:
                seen.add("skipped")
                r.add("species.not_a_surface_species:skipped", DISCHARGED if new is tm.sym("iter_" + acc, "R") and not adds else FAILED, "symex", 0, repr(new)[:100])
                continue
            seen.add("scanned")
            ok = len(adds) == 1 and spk in tm.subterms(adds[0].args[0]) and "rxn_s" in repr(adds[0].args[0]) and spk not in [t for a in adds[0].args[1:] for t in tm.subterms(a)]
            r.add("species.surface_species:its_own_reaction_is_scanned", DISCHARGED if ok else FAILED, "symex", 0, repr(adds)[:200])
            evs = U.iter_events(s)
            resets = [k_ for k_, e in enumerate(evs) if e.name == "store" and e.args and e.args[0] is tm.strc("count_trxn") and tm.isnum(e.args[1]) and e.args[1].args[0] == 0]
            first_add = next((k_ for k_, e in enumerate(evs) if e.name.split("::")[-1] == "trxn_add"), None)
            r.add("species.surface_species:reaction_buffer_restarted_before_loading", DISCHARGED if resets and first_add is not None and resets[-1] < first_add else FAILED, "symex", 0, "resets at %r, trxn_add at %r" % (resets, first_add))
    r.add("reach.species_cases", DISCHARGED if seen == {"skipped", "scanned"} else UNDECIDED, "symex", 0, repr(sorted(seen)), kind="vacuity")
    check_accumulator_init(r, fn, BS, lps[0], acc, "charge")
    # result
    c = _ctx()
    fnx, exx, finals, info = U.run_function(BS, q, ctx=c)
    rets = [s for s in live(finals, ("ret",))]
    ok = rets and all(s.ret is not None and any(str(t.args[0]).startswith("havoc_%s!" % acc) for t in tm.subterms(s.ret) if t.op == "sym") and s.ret.op == "sym" for s in rets)
    r.add("returns_the_sum", DISCHARGED if ok else FAILED, "symex", 0, repr([s.ret for s in rets])[:200])
    r.head_exempt = {(q, 1): "token 0 is the species itself: tokens 1..count_trxn-1 are scanned"}
    h = (text_of(BS, lps[1]["inner"][0]), text_of(BS, lps[1]["inner"][2]), text_of(BS, lps[1]["inner"][3]))
    okh = h[0].rstrip(";") == ind + "=1" and h[1] in (ind + "<count_trxn", "count_trxn>" + ind) and h[2] in (ind + "++", "++" + ind)
    r.add("token_scan.covers_tokens_1..count_trxn-1", DISCHARGED if okh else FAILED, "syntactic", 0, "for (%s %s; %s)" % h, kind="establishment")
    r.assumptions += ["strcpy_safe / replace / copy_token / strcmp are the string helpers they are named after: the compared name is the first '_' token of the site master's element name (the data flow through the char buffers is not modelled)",
                      "trxn_add(rxn, 1.0, false) loads the species' reaction into trxn (not under this contract)",
                      "a species whose reaction holds two site types of the same surface is counted once per site token (as the code does)", "doubles as reals"]
    return r


# ------------------------------------------------------------------------------------------------ diffuse layer composition
def _layer_iteration(rel, q, nodes, c, marker="add_elt_list("):
    """iteration contract of the (one) loop inside the region `nodes`, started from the state the region reaches at the loop"""
    got = []
    def loop_cb(ex, st, node, o):
        if any(y.get("kind") in ("CallExpr", "CXXMemberCallExpr") and marker in text_of(rel, y) for y in A.walk(node)):
            got.extend(ex.iterate_loop(node, st.clone()))
        return ex.havoc_loop(node, st)
    c.loop = loop_cb
    fn, ex, fin, info = U.run_region(rel, q, Sel(nodes), ctx=c)
    return fn, ex, got, info


def _composition(r, tag, ex, its, charge_of, twin=False):
    HPLUS = KI("HPLUS")
    seen = set()
    for s in live(its, ("run", "cont")):
        adds = ev_named(s, "add_elt_list")
        js = [t for p in s.pc for t in tm.subterms(p) if t.op == "sym" and str(t.args[0]).startswith("iter_")]
        sps = sorted({t for p in s.pc for t in tm.subterms(p) if t.op == "select" and len(t.args[1]) == 2 and t.args[1][0].op == "select" and t.args[1][0].args[1][0] is tm.app("fld:s_x", (THIS,), "P")}, key=repr)
        if len(sps) != 1:
            r.add(tag + ".species_of_the_iteration", UNDECIDED, "symex", 0, repr(sps)[:200]); continue
        sp = sps[0]
        ty = fld0(ex, s, "type", "I", sp)
        for hy, aq in cases(list(s.pc), tm.le(ty, HPLUS)):
            if not aq:
                seen.add("other")
                r.add(tag + ".other_species_contribute_nothing", DISCHARGED if not adds else FAILED, "symex", 0, repr(adds)[:160])
                continue
            seen.add("aqueous")
            if len(adds) != 1:
                r.add(tag + ".aqueous_species_added_once", FAILED, "symex", 0, "%d add_elt_list calls" % len(adds)); continue
            ch = charge_of(s)
            if ch is None:
                r.add(tag + ".charge_record_identified", FAILED, "symex", 0, "no Get_g_map receiver"); continue
            lm = fld0(ex, s, "lm", "R", sp)
            us = [e.result for e in ev_named(s, "under") if e.args and e.args[-1] is lm]
            if not us:
                r.add(tag + ".molality_is_under(lm)_of_the_species", FAILED, "symex", 0, ""); continue
            m = us[0]
            z = fld0(ex, s, "z", "R", sp)
            gmap = tm.app("call:Get_g_map", (ch,), "P")
            gz = tm.select(entry_arr(ex, s, ("f", "g", "R")), ex.ctx.stl.mobj(gmap, ex.ctx.stl.mkey(ex, z)))
            erm = fld0(ex, s, "erm_ddl", "R", sp)
            wdl = fld0(ex, s, "mass_water", "R", ch)
            waq = fld0(ex, s, "mass_water_aq_x", "R")
            spec = m * (erm if not twin else tm.num(1)) * (wdl + waq * gz)
            r.add(tag + ".elements_are_those_of_the_species", DISCHARGED if adds[0].args[0] is tm.app("fld:next_elt", (sp,), "P") else FAILED, "symex", 0, repr(adds[0].args[0])[:120])
            U.discharge_eq_real(r, tag + ".amount==c_i*erm_i*(W_dl+W_aq*g(z_i))", hy, adds[0].args[1], spec)
    r.add("reach.%s.both_species_classes" % tag, DISCHARGED if seen == {"aqueous", "other"} else UNDECIDED, "symex", 0, repr(sorted(seen)), kind="vacuity")


def unit_layer_composition(twin=False):
    q1, q2 = "Phreeqc::sum_diffuse_layer", "Phreeqc::diff_layer_total"
    fn1 = A.find_function(INTEG, q1)
    r = U.new_unit("C20.diffuse_layer.composition_c*erm*(W_dl+W_aq*g)_in_totals_and_read_out", INTEG, q1, fn1)
    # (1) sum_diffuse_layer(charge_ptr): whole body as the region, its loop as an iteration
    body1 = A.body_of(fn1)["inner"]
    f, ex, its, info = _layer_iteration(INTEG, q1, body1, _ctx())
    p0 = tm.sym("L_" + _param(fn1, 0), "P")
    def charge1(s):
        rec = {e.recv for e in ev_named(s, "Get_g_map")}
        return p0 if rec == {p0} else None
    _composition(r, "sum_diffuse_layer", ex, its, charge1, twin)
    # the water of the layer itself: W_dl / gfw_water moles of H2O
    fnx, exx, fin, inf = U.run_region(INTEG, q1, Sel(body1), ctx=_ctx())
    n = 0
    for s in live(fin, ("run", "ret")):
        adds = [e for e in s.events if e.name.split("::")[-1] == "add_elt_list"]
        if not adds:
            continue
        n += 1
        h2o = tm.app("fld:next_elt", (fld(exx, s, "s_h2o", "P"),), "P")
        r.add("sum_diffuse_layer.water_of_the_layer_added_as_H2O", DISCHARGED if adds[-1].args[0] is h2o else FAILED, "symex", 0, repr(adds[-1].args[0])[:100])
        U.discharge_eq_real(r, "sum_diffuse_layer.water_moles==W_dl/gfw_water", list(s.pc), adds[-1].args[1], fld0(exx, s, "mass_water", "R", p0) / fld0(exx, s, "gfw_water", "R"))
    r.add("reach.sum_diffuse_layer.water", DISCHARGED if n else UNDECIDED, "symex", 0, "%d" % n, kind="vacuity")
    # (2) diff_layer_total: the tail that reports an element total of the layer
    fn2 = A.find_function(BS, q2)
    body2 = A.body_of(fn2)["inner"]
    lp_idx = [k for k, st in enumerate(body2) if any(y.get("kind") in ("ForStmt", "WhileStmt") and any(z.get("kind") in ("CallExpr", "CXXMemberCallExpr") and "add_elt_list" in text_of(BS, z) for z in A.walk(y)) for y in A.walk(st))]
    if len(lp_idx) != 1 or lp_idx[0] == 0:
        raise Undecided("diff_layer_total: the statement holding the layer loop was not found")
    nodes = body2[lp_idx[0] - 1: lp_idx[0] + 1]       # charge record look-up; if (record) { W_dl = ...; loop; ... }
    f, ex2, its2, info2 = _layer_iteration(BS, q2, nodes, _ctx())
    def charge2(s):
        rec = {e.recv for e in ev_named(s, "Get_g_map")}
        fc = [e.result for e in s.events if e.name.split("::")[-1] == "Find_charge"]
        return fc[-1] if fc and rec == {fc[-1]} else None
    _composition(r, "diff_layer_total", ex2, its2, charge2, twin)
    r.assumptions += ["doubles as reals; W_dl and W_aq non-zero where the code divides by them (species with erm_ddl != 1)", "under(lm) is the molality of the species",
                      "std::map<double, cxxSurfDL>::operator[] designates the entry of the species' charge", "add_elt_list(list, n) adds n times the list to the element totals (not under this contract)",
                      "get_edl_species (EDL_SPECIES read-out) is not under this contract: it omits erm_ddl (see report)"]
    return r


# ------------------------------------------------------------------------------------------------ diff_layer_total read-outs
def unit_readouts(twin=False):
    q = "Phreeqc::diff_layer_total"
    fn = A.find_function(BS, q)
    r = U.new_unit("C20.diff_layer_total.reported_potential_and_charge_density", BS, q, fn)
    body = A.body_of(fn)["inner"]
    chain = [st for st in body if st.get("kind") == "IfStmt" and any(y.get("kind") in ("CallExpr", "CXXMemberCallExpr") and text_of(BS, y).startswith("calc_surface_charge(") for y in A.walk(st))]
    if len(chain) != 1:
        raise Undecided("diff_layer_total: the chain of read-outs was not found")
    c = _ctx(extra={"calc_surface_charge"})
    ev = surface_enums(c)
    fnx, ex, fin, info = U.run_region(BS, q, Sel(chain), ctx=c)
    R_, FK, FC = KR("R_KJ_DEG_MOL"), KR("F_KJ_V_EQ"), KR("F_C_MOL")
    DDL, CCM, CD, NO_DL = (tm.num(ev[k], "I") for k in ("DDL", "CCM", "CD_MUSIC", "NO_DL"))
    sp = tm.app("call:Get_surface_ptr", (tm.app("fld:use", (THIS,), "P"),), "P")
    ty = tm.app("call:Get_type", (sp,), "I")
    seen = set()
    # the unknown of the named surface is x[J], J the index the DDL/CCM potential is read with (a local set by the search loop before the chain)
    Js = set()
    xvec = tm.app("fld:x", (THIS,), "P")
    def _xelems(t):
        return {u for u in tm.subterms(t) if u.op == "select" and len(u.args[1]) == 2 and u.args[1][0].op == "select" and u.args[1][0].args[1][0] is xvec}
    for s in live(fin, ("ret",)):
        if s.ret is not None and any(u.op == "select" and "la:" in repr(u.args[0])[:12] for u in tm.subterms(s.ret)):
            Js |= {u.args[1][1] for u in _xelems(s.ret)}
    if len(Js) != 1:
        raise Undecided("diff_layer_total: the index of the surface's unknown is not identified (%r)" % sorted(Js, key=repr))
    Jidx = Js.pop()
    def _xj(ex_, s_, J):
        return tm.select(ex_.heap_arr(s_, ("m", "P")), tm.select(ex_.heap_arr(s_, ("f", "#vdata", "P")), xvec), J)
    for s in live(fin, ("ret",)):
        # which quantity: the literal whose comparison succeeded on this path
        lit = None
        for e in s.events:
            if e.name.split("::")[-1] == "strcmp_nocase" and proves(s.pc, tm.eq(e.result, tm.num(0, "I"))):
                lit = next((str(a.args[0]).strip('"') for a in e.args if a.op == "str"), None)
        if lit is None:
            continue
        hy = list(s.pc)
        tk, ln10 = fld(ex, s, "tk_x", "R"), fld(ex, s, "LOG_10", "R")
        dl = fld(ex, s, "dl_type_x", "I")
        xj = _xj(ex, s, Jidx)
        fcs = [e for e in s.events if e.name.split("::")[-1] == "Find_charge"]
        ch = fcs[-1].result if fcs else None
        def ag():
            return fld(ex, s, "specific_area", "R", ch) * fld(ex, s, "grams", "R", ch)
        def la_of_unknown():
            m0 = tm.select(ex.heap_arr(s, ("m", "P")), tm.select(ex.heap_arr(s, ("f", "#vdata", "P")), tm.app("fld:master", (xj,), "P")), tm.num(0, "I"))
            return fld(ex, s, "la", "R", fld(ex, s, "s", "P", m0))
        def psi_master(code):
            ms = [e for e in s.events if e.name.split("::")[-1] == "surface_get_psi_master" and tm.isnum(e.args[-1]) and int(e.args[-1].args[0]) == int(K(code))]
            return ms[-1].result if ms else None
        def cd_psi(code, name):
            m = psi_master(code)
            if m is None:
                r.add("%s.cd_music.looks_up_the_plane's_potential_master" % name, FAILED, "symex", 0, "no surface_get_psi_master(.., %s)" % code); return
            for h, present in cases(hy, tm.not_(tm.eq(m, tm.NULL))):
                if present:
                    la = fld(ex, s, "la", "R", fld(ex, s, "s", "P", m))
                    U.discharge_eq_real(r, "%s.cd_music==-R*T*ln10*la/F" % name, h, s.ret, tm.neg(la) * R_ * tk * ln10 / FK)
                else:
                    U.discharge_valid(r, "%s.cd_music.no_master=>0" % name, h, tm.eq(s.ret, tm.num(0)))
        is_edl = tm.or_(tm.eq(ty, DDL), tm.eq(ty, CCM))
        if lit == "psi":
            for h, edl in cases(hy, is_edl):
                if edl:
                    seen.add("psi.ddl_ccm")
                    k2 = tm.num(2) if not twin else tm.num(1)
                    U.discharge_eq_real(r, "psi.ddl_ccm==2*R*T*ln10*la/F(la of the unknown's potential master)", h, s.ret, la_of_unknown() * k2 * R_ * tk * ln10 / FK)
                else:
                    for h2, cd in cases(h, tm.eq(ty, CD)):
                        if cd:
                            seen.add("psi.cd_music")
                            cd_psi("SURF_PSI", "psi")
                        else:
                            U.discharge_valid(r, "psi.no_edl==0", h2, tm.eq(s.ret, tm.num(0)))
        elif lit in ("psi1", "psi2"):
            seen.add(lit)
            cd_psi("SURF_PSI1" if lit == "psi1" else "SURF_PSI2", lit)
        elif lit == "charge":
            for h, a in cases(hy, tm.and_(is_edl, tm.eq(dl, NO_DL))):
                if a:
                    seen.add("charge.ddl_ccm")
                    U.discharge_valid(r, "charge.ddl_ccm_without_layer==f_of_the_charge_unknown", h, tm.eq(s.ret, fld(ex, s, "f", "R", xj)))
                else:
                    for h2, cd in cases(h, tm.eq(ty, CD)):
                        if cd:
                            seen.add("charge.cd_music")
                            U.discharge_eq_real(r, "charge.cd_music==sigma0*A*g/F", h2, s.ret, fld(ex, s, "sigma0", "R", ch) * ag() / FC)
                        else:
                            seen.add("charge.species_sum")
                            cs = [e for e in s.events if e.name.split("::")[-1] == "calc_surface_charge"]
                            r.add("charge.otherwise==calc_surface_charge(surface)", DISCHARGED if cs and s.ret is cs[-1].result else FAILED, "symex", 0, repr(s.ret)[:100])
        elif lit in ("charge1", "charge2"):
            fldn = "sigma1" if lit == "charge1" else "sigma2"
            for h, cd in cases(hy, tm.eq(ty, CD)):
                if cd:
                    seen.add(lit)
                    U.discharge_eq_real(r, "%s.cd_music==%s*A*g/F" % (lit, fldn), h, s.ret, fld(ex, s, fldn, "R", ch) * ag() / FC)
                else:
                    U.discharge_valid(r, "%s.other_models==0" % lit, h, tm.eq(s.ret, tm.num(0)))
        elif lit == "sigma":
            for h, edl in cases(hy, is_edl):
                if edl:
                    for h2, expl in cases(h, tm.not_(tm.eq(dl, NO_DL))):
                        cs = [e for e in s.events if e.name.split("::")[-1] == "calc_surface_charge"]
                        if expl:
                            if not cs:
                                r.add("sigma.ddl_ccm.explicit_layer_uses_the_species_charge", FAILED, "symex", 0, ""); continue
                            q_ = cs[-1].result
                        else:
                            q_ = fld(ex, s, "f", "R", xj)
                        for h3, pos in cases(h2, tm.lt(tm.num(0), ag())):
                            if pos:
                                seen.add("sigma.ddl_ccm")
                                U.discharge_eq_real(r, "sigma.ddl_ccm==charge*F/(A*g)(charge: f, or the species sum with an explicit layer)", h3, s.ret, q_ * FC / ag())
                            else:
                                U.discharge_valid(r, "sigma.ddl_ccm.no_area=>0", h3, tm.eq(s.ret, tm.num(0)))
                else:
                    for h2, cd in cases(h, tm.eq(ty, CD)):
                        if cd:
                            seen.add("sigma.cd_music")
                            U.discharge_valid(r, "sigma.cd_music==sigma0", h2, tm.eq(s.ret, fld(ex, s, "sigma0", "R", ch)))
                        else:
                            U.discharge_valid(r, "sigma.no_edl==0", h2, tm.eq(s.ret, tm.num(0)))
        elif lit in ("sigma1", "sigma2"):
            for h, cd in cases(hy, tm.eq(ty, CD)):
                if cd:
                    seen.add(lit)
                    U.discharge_valid(r, "%s.cd_music==%s" % (lit, lit), h, tm.eq(s.ret, fld(ex, s, lit, "R", ch)))
                else:
                    U.discharge_valid(r, "%s.other_models==0" % lit, h, tm.eq(s.ret, tm.num(0)))
        # the charge record, where one is used, is that of the unknown found for the surface
        if ch is not None and xj is not None and lit in ("charge", "charge1", "charge2", "sigma", "sigma1", "sigma2"):
            want = fld(ex, s, "surface_charge", "P", xj)
            ok = any(want in tm.subterms(a) for a in fcs[-1].args) and all(u is xj for a in fcs[-1].args for u in _xelems(a))
            r.add("%s.charge_record==Find_charge(x[j]->surface_charge)" % lit, DISCHARGED if ok else FAILED, "symex", 0, repr(fcs[-1].args)[:120])
    want = {"psi.ddl_ccm", "psi.cd_music", "psi1", "psi2", "charge.ddl_ccm", "charge.cd_music", "charge.species_sum", "charge1", "charge2", "sigma.ddl_ccm", "sigma.cd_music", "sigma1", "sigma2"}
    r.add("reach.all_read_outs", DISCHARGED if want <= seen else UNDECIDED, "symex", 0, repr(sorted(want - seen)), kind="vacuity")
    r.assumptions += ["doubles as reals", "strcmp_nocase(a, b) == 0 iff the names are equal ignoring case; the quantity of a path is the literal whose comparison succeeded",
                      "the search for the unknown x[j] of the named surface (loop before the chain, string handling) is not under this contract",
                      "surface_get_psi_master / Find_charge / calc_surface_charge are deterministic (the latter is unit C20.calc_surface_charge..)"]
    return r


# ------------------------------------------------------------------------------------------------ molalities(): moles held by the diffuse layers
MODEL = "src/phreeqcpp/model.cpp"
SPECIESDL = ["Get_g_moles", "Set_g_moles", "Get_dg_g_moles", "Set_dg_g_moles", "Get_dx_moles", "Set_dx_moles", "Get_dh2o_moles", "Set_dh2o_moles", "Get_drelated_moles", "Set_drelated_moles"]


def unit_molalities_layer(twin=False):
    """model.cpp molalities(): for an aqueous species i and the diffuse layer of charge record j
           g_moles[i][j] = moles_i * erm_i * (g_j(z_i) + W_dl_j / W_aq)         (= c_i erm_i (W_dl_j + W_aq g_j(z_i)), moles_i = c_i W_aq)
       and the species' total over the free solution and all layers is moles_i * (1 + erm_i * sum_j (g_j(z_i) + W_dl_j / W_aq))."""
    q = "Phreeqc::molalities"
    fn = A.find_function(MODEL, q)
    r = U.new_unit("C20.molalities.moles_held_by_each_diffuse_layer", MODEL, q, fn)
    lps = loops_of(fn)
    # the per-record loop: the loop (nested in a species loop) that stores g_moles
    cand = [k for k, lp in enumerate(lps) if any(y.get("kind") == "CXXMemberCallExpr" and text_of(MODEL, y).split("(")[0].endswith("Set_g_moles") for y in A.walk(lp))]
    if len(cand) != 2:
        raise Undecided("molalities: expected the species loop and the per-record loop around Set_g_moles, found loops %r" % cand)
    outer, inner = cand
    def mk():
        c = _ctx(extra={"Get_surface_charges"})
        inline_accessors(c, SURFCHARGE_TU, "cxxSpeciesDL", SPECIESDL)
        return c
    accs = accumulators(lps[inner])
    f, ex, its, inf = U.run_loop_isolated(MODEL, q, inner, ctx=mk())
    jn = induction_name(lps[inner])
    n = 0
    for s in live(its, ("run", "cont")):
        w = writes(s, ("f", "g_moles", "R"))
        if len(w) != 1:
            r.add("layer.g_moles_stored_once_per_record", FAILED, "symex", 0, "%d stores" % len(w)); continue
        (slot,), val = w[0]
        # the species: the record whose enrichment factor is read
        sps = sorted({t.args[1][0] for t in tm.subterms(val) if t.op == "select" and "erm_ddl:" in repr(_b(t.args[0]))[:40]}, key=repr)
        if len(sps) != 1:
            r.add("layer.species_identified", FAILED, "symex", 0, repr(sps)[:160]); continue
        sp = sps[0]
        n += 1
        rec = tm.select(entry_arr(ex, s, ("f", "#vdata", "P")), tm.app("call:Get_surface_charges", (tm.app("call:Get_surface_ptr", (tm.app("fld:use", (THIS,), "P"),), "P"),), "P")) + loc(inf, s, jn)
        z = fld0(ex, s, "z", "R", sp)
        gz = tm.select(entry_arr(ex, s, ("f", "g", "R")), ex.ctx.stl.mobj(tm.app("call:Get_g_map", (rec,), "P"), ex.ctx.stl.mkey(ex, z)))
        wdl, waq = fld0(ex, s, "mass_water", "R", rec), fld0(ex, s, "mass_water_aq_x", "R")
        erm, mol = fld0(ex, s, "erm_ddl", "R", sp), fld0(ex, s, "moles", "R", sp)
        U.discharge_eq_real(r, "layer.g_moles==moles_i*erm_i*(g_j(z_i)+W_dl_j/W_aq)", list(s.pc), val, mol * (erm if not twin else tm.num(1)) * (gz + wdl / waq))
        # stored in the slot of (this species, this record)
        names = [e for e in ev_named(s, "Get_name") if e.recv is rec]
        dl_map = tm.select(entry_arr(ex, s, ("f", "#vdata", "P")), tm.app("fld:s_diff_layer", (THIS,), "P")) + fld0(ex, s, "number", "I", sp)
        ok = bool(names) and slot is ex.ctx.stl.mobj(dl_map, ex.ctx.stl.mkey(ex, names[0].result))
        r.add("layer.slot_is_s_diff_layer[species.number][name_of_record_j]", DISCHARGED if ok else FAILED, "symex", 0, repr(slot)[:200])
        if len(accs) >= 1:
            tg = [a for a in accs if any(t is gz for t in tm.subterms(loc(inf, s, a)))]
            if len(tg) != 1:
                r.add("layer.total_g_accumulates", FAILED, "symex", 0, repr(accs)); continue
            U.discharge_eq_real(r, "layer.total_g+=g_j(z_i)+W_dl_j/W_aq", list(s.pc), loc(inf, s, tg[0]), tm.sym("iter_" + tg[0], "R") + gz + wdl / waq)
            r._tg = tg[0]
    r.add("reach.layer_iteration", DISCHARGED if n else UNDECIDED, "symex", 0, "%d" % n, kind="vacuity")
    tgn = getattr(r, "_tg", None)
    if tgn is None:
        return r
    check_accumulator_init(r, fn, MODEL, lps[inner], tgn, "layers")
    # species iteration: total held by free solution + all layers
    f, ex, its, inf = U.run_loop_isolated(MODEL, q, outer, ctx=mk())
    ev = surface_enums(ctx())
    HPLUS = KI("HPLUS")
    n = 0
    for s in live(its, ("run", "cont")):
        w = writes(s, ("f", "tot_g_moles", "R"))
        sp = vec_elem(ex, s, "s_x", loc(inf, s, induction_name(lps[outer])))
        if not w:
            continue
        n += 1
        (obj,), val = w[-1]
        hs = havoc_sym(val, tgn)
        if len(hs) != 1:
            r.add("species.total_uses_the_sum_over_layers", FAILED, "symex", 0, repr(val)[:200]); continue
        r.add("species.total_stored_on_the_species", DISCHARGED if obj is sp else FAILED, "symex", 0, repr(obj)[:120])
        U.discharge_eq_real(r, "species.tot_g_moles==moles_i*(1+erm_i*sum_j(g_j+W_dl_j/W_aq))", list(s.pc), val,
                            fld(ex, s, "moles", "R", sp) * (tm.num(1) + hs[0] * fld(ex, s, "erm_ddl", "R", sp)))
        U.discharge_valid(r, "species.only_aqueous_species_are_in_the_layers", list(s.pc), tm.le(fld0(ex, s, "type", "I", sp), HPLUS))
    r.add("reach.species_iteration", DISCHARGED if n else UNDECIDED, "symex", 0, "%d" % n, kind="vacuity")
    r.assumptions += ["doubles as reals", "std::map operator[] designates the entry of its key; cxxSpeciesDL / cxxSurfDL / cxxSurfaceCharge accessors executed from their inline definitions",
                      "the g factors are those left by calc_all_g / calc_all_donnan (not under this contract); the derivative fields (dg_g_moles, dx_moles, dh2o_moles) are not under contract"]
    return r


def _b(a):
    while a.op == "store":
        a = a.args[0]
    return a


# ------------------------------------------------------------------------------------------------ get_edl_species (EDL_SPECIES read-out)
def unit_edl_species(twin=False):
    """basicsubs.cpp get_edl_species(record): the species list of one diffuse layer must be the composition the layer has in the
    element totals (unit C20.diffuse_layer.composition..): n_i = c_i * erm_i * (W_dl + W_aq * g(z_i)) for aqueous species, W_dl / gfw_water
    for water, and sys_tot their sum.  ON THE UNCHANGED TREE THE AQUEOUS OBLIGATION FAILS: the enrichment factor erm_i is missing
    (native demonstration: $OUT/demo/erm.cpp; EDL("Na") / EDL_SPECIES Na+ = erm_ddl)."""
    q = "Phreeqc::get_edl_species"
    fn = A.find_function(BS, q)
    r = U.new_unit("C20.get_edl_species.species_list_is_the_layer_composition", BS, q, fn)
    body = A.body_of(fn)["inner"]
    f, ex, its, info = _layer_iteration(BS, q, body, _ctx(), marker="string_duplicate(")
    H2O = KI("H2O")
    seen = set()
    for s in live(its, ("run", "cont")):
        sps = sorted({t for p in s.pc for t in tm.subterms(p) if t.op == "select" and len(t.args[1]) == 2 and t.args[1][0].op == "select" and t.args[1][0].args[1][0] is tm.app("fld:s_x", (THIS,), "P")}, key=repr)
        if len(sps) != 1:
            r.add("species_of_the_iteration", UNDECIDED, "symex", 0, repr(sps)[:200]); continue
        sp = sps[0]
        ty = fld0(ex, s, "type", "I", sp)
        wm = writes(s, ("f", "moles", "R"))
        tot1, tot0 = fld(ex, s, "sys_tot", "R"), fld0(ex, s, "sys_tot", "R")
        recs = {e.recv for e in ev_named(s, "Get_g_map")}
        for hy, water in cases(list(s.pc), tm.eq(ty, H2O)):
            if water:
                seen.add("water")
                if len(wm) != 1:
                    r.add("water.listed_once", FAILED, "symex", 0, "%d entries" % len(wm)); continue
                wd = [t for t in tm.subterms(wm[0][1]) if t.op == "select" and "mass_water:" in repr(_b(t.args[0]))[:30]]
                if len(wd) != 1:
                    r.add("water.amount_from_the_record's_layer_water", FAILED, "symex", 0, repr(wm[0][1])[:120]); continue
                U.discharge_eq_real(r, "water.moles==W_dl/gfw_water", hy, wm[0][1], wd[0] / fld0(ex, s, "gfw_water", "R"))
                U.discharge_eq_real(r, "water.sys_tot+=moles", hy, tot1, tot0 + wm[0][1])
                continue
            for h, aq in cases(hy, tm.lt(ty, H2O)):
                if not aq:
                    seen.add("other")
                    r.add("other_species_not_listed", DISCHARGED if not wm and tot1 is tot0 else FAILED, "symex", 0, "")
                    continue
                seen.add("aqueous")
                if len(wm) != 1 or len(recs) != 1:
                    r.add("aqueous.listed_once_from_one_record", FAILED, "symex", 0, "%d entries, records %r" % (len(wm), recs)); continue
                ch = recs.pop(); recs.add(ch)
                lm = fld0(ex, s, "lm", "R", sp)
                us = [e.result for e in ev_named(s, "under") if e.args and e.args[-1] is lm]
                if not us:
                    r.add("aqueous.molality_is_under(lm)", FAILED, "symex", 0, ""); continue
                z = fld0(ex, s, "z", "R", sp)
                gz = tm.select(entry_arr(ex, s, ("f", "g", "R")), ex.ctx.stl.mobj(tm.app("call:Get_g_map", (ch,), "P"), ex.ctx.stl.mkey(ex, z)))
                erm = fld0(ex, s, "erm_ddl", "R", sp) if not twin else tm.num(3)
                spec = us[0] * erm * (fld0(ex, s, "mass_water", "R", ch) + fld0(ex, s, "mass_water_aq_x", "R") * gz)
                U.discharge_eq_real(r, "aqueous.moles==c_i*erm_i*(W_dl+W_aq*g(z_i))(as in the element totals of the layer)", h, wm[0][1], spec)
                U.discharge_eq_real(r, "aqueous.sys_tot+=moles", h, tot1, tot0 + wm[0][1])
    r.add("reach.water_aqueous_other", DISCHARGED if seen == {"water", "aqueous", "other"} else UNDECIDED, "symex", 0, repr(sorted(seen)), kind="vacuity")
    r.assumptions += ["doubles as reals", "the reference is the composition used by sum_diffuse_layer / diff_layer_total / molalities (units C20.diffuse_layer.composition.., C20.molalities..)"]
    return r


# ------------------------------------------------------------------------------------------------ surf_total (SURF read-out)
def unit_surf_total(twin=False):
    """basicsubs.cpp surf_total(total, surface): the amount of `total` held by the surface species of `surface` is the sum over those
    species of (coefficient of the matching entry of the species' reaction / secondary-element list) * (moles of the SAME species),
    each species contributing at most once; species that are not surface species contribute nothing."""
    q = "Phreeqc::surf_total"
    fn = A.find_function(BS, q)
    r = U.new_unit("C20.surf_total.sum_of_coefficient_times_moles_over_the_surface's_species", BS, q, fn)
    lps = loops_of(fn)
    inner = [k for k, lp in enumerate(lps) if accumulators(lp) and not any(accumulators(x) for x in loops_of(lp)[1:])]
    if len(inner) != 2:
        raise Undecided("surf_total: expected two innermost accumulating loops (reaction tokens, secondary elements), found %r" % inner)
    acc = accumulators(lps[inner[0]])
    if len(acc) != 1 or accumulators(lps[inner[1]]) != acc:
        raise Undecided("surf_total: accumulators %r / %r" % (acc, accumulators(lps[inner[1]])))
    acc = acc[0]
    outer = [k for k, lp in enumerate(lps) if k not in inner and acc in accumulators(lp)]
    if len(outer) != 1:
        raise Undecided("surf_total: species loop not identified (%r)" % outer)
    outer = outer[0]
    jn = induction_name(lps[outer])
    pname = _param(fn, 0)
    seen = set()
    for k in inner:
        f, ex, its, inf = U.run_loop_isolated(BS, q, k, ctx=_ctx())
        spj = vec_elem(ex, its[0], "s_x", tm.sym("L_" + jn, "I")) if its else None
        for s in live(its, ("run", "cont", "brk")):
            spj = vec_elem(ex, s, "s_x", tm.sym("L_" + jn, "I"))
            new, old = loc(inf, s, acc), tm.sym("iter_" + acc, "R")
            cmps = ev_named(s, "strcmp")
            hy = list(s.pc)
            if new is old:
                seen.add("no_match")
                # nothing added: no comparison with the requested name succeeded
                if cmps:
                    U.discharge_valid(r, "loop%d.nothing_added=>no_name_matched" % k, hy, tm.and_(*[tm.not_(tm.eq(e.result, tm.num(0, "I"))) for e in cmps]))
                continue
            seen.add("match")
            coefs = sorted({t for t in tm.subterms(new) if t.op == "select" and "coef:" in repr(_b(t.args[0]))[:24]}, key=repr)
            if len(coefs) != 1:
                r.add("loop%d.added_amount_uses_one_coefficient" % k, FAILED, "symex", 0, repr(new)[:160]); continue
            entry = coefs[0].args[1][0]
            mol = fld0(ex, s, "moles", "R", spj) if not twin else tm.num(1)
            U.discharge_eq_real(r, "loop%d.match:total+=coef_of_the_entry*moles_of_species_j" % k, hy, new, old + coefs[0] * mol)
            # the entry whose coefficient is used is the entry whose name matched, and the name is compared with the requested total
            named = any(entry in tm.subterms(a) for e in U.iter_events(s) for a in e.args if isinstance(a, tm.T)) or any(entry in tm.subterms(p) for p in s.pc)
            r.add("loop%d.match:coefficient_is_of_the_entry_that_was_examined" % k, DISCHARGED if named else FAILED, "symex", 0, repr(entry)[:120])
            okc = bool(cmps) and tm.sym("L_" + pname, "P") in cmps[-1].args
            r.add("loop%d.match:compared_with_the_requested_total_name" % k, DISCHARGED if okc else FAILED, "symex", 0, repr(cmps[-1:])[:160])
            if cmps:
                U.discharge_valid(r, "loop%d.match=>a_name_comparison_succeeded" % k, hy, tm.or_(*[tm.eq(e.result, tm.num(0, "I")) for e in cmps]))
            r.add("loop%d.match:species_contributes_once(scan_ends)" % k, DISCHARGED if s.status == "brk" else FAILED, "symex", 0, s.status)
    r.add("reach.match_and_no_match", DISCHARGED if seen == {"match", "no_match"} else UNDECIDED, "symex", 0, repr(sorted(seen)), kind="vacuity")
    # species loop
    SURF = KI("SURF")
    f, ex, its, inf = U.run_loop_isolated(BS, q, outer, ctx=_ctx())
    seen = set()
    for s in live(its, ("run", "cont")):
        sp = vec_elem(ex, s, "s_x", loc(inf, s, jn))
        ty = fld0(ex, s, "type", "I", sp)
        new, old = loc(inf, s, acc), tm.sym("iter_" + acc, "R")
        for hy, surf in cases(list(s.pc), tm.eq(ty, SURF)):
            if not surf:
                seen.add("skipped")
                r.add("species.not_a_surface_species:contributes_nothing", DISCHARGED if new is old else FAILED, "symex", 0, repr(new)[:100])
            else:
                seen.add("surface_species")
    r.add("reach.species_cases", DISCHARGED if seen == {"skipped", "surface_species"} else UNDECIDED, "symex", 0, repr(sorted(seen)), kind="vacuity")
    check_accumulator_init(r, fn, BS, lps[outer], acc, "total")
    fnx, exx, finals, info = U.run_function(BS, q, ctx=_ctx())
    rets = [s for s in live(finals, ("ret",)) if s.ret is not None and not tm.isnum(s.ret)]
    ok = bool(rets) and all(s.ret.op == "sym" and str(s.ret.args[0]).startswith("havoc_%s!" % acc) or ev_named(s, "surf_total_no_redox", only_iter=False) for s in rets)
    r.add("returns_the_sum(or_delegates_H/O_to_surf_total_no_redox)", DISCHARGED if ok else FAILED, "symex", 0, repr([s.ret for s in rets])[:200])
    r.head_exempt = {(q, k): "sentinel-terminated scan of the species' own list" for k in range(len(lps))}
    r.assumptions += ["the string handling that decides WHICH name an entry carries (secondary / primary master element, truncation at '_') and whether the species belongs to the named surface is not modelled: "
                      "strcmp(name, total_name) == 0 is taken as 'the entry matches'", "the two scans end at a NULL sentinel of the species' own list (head not under contract)", "doubles as reals"]
    return r
