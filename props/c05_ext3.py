"""C05 (third helper wave): selected-output table / string / file / line views agree; headings and cells pair up.

 * Phreeqc::tidy_punch - every definition is re-resolved on every call (no skip keyed on its own new_def flag) and tidy_model calls it
   whenever the definition or the chemical model is new; while the heading row is written BOTH sinks switches (pr.punch and the io
   layer's punch_on) are forced on and put back on every path; the identifier headings come one per switched-on flag in the fixed order.
 * the punch_* functions of print.cpp / isotopes.cpp - heading side and cell side paired semantically per section (same list, same
   element, same prefix, same order), identifier cells one per flag, the three block cells of -gases, exactly one cell per listed
   solid-solution component (found / not found / found in two solid solutions).
 * the C binding's VRESULT -> IPQ_RESULT tables and the cell type / value rules of the scalar accessors (C++ / Fortran siblings).
The units are in props/c05_ext3_*.py; this module only collects them."""
from props.c05_ext3_tidy import UNITS as _A
from props.c05_ext3_cells import UNITS as _B
from props.c05_ext3_bind import UNITS as _C

UNITS = list(_A) + list(_B) + list(_C)
