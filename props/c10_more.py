"""C10 (added after round-2 seeds): (a) list options of RAW readers that clear the vector 'once' before appending (continuation
lines of a dumped list) really do it once: the guard flag is raised inside the guarded block; (b) DUMP into the string happens for
the dump request of the run: IPhreeqc::do_run restores the saved dump request BEFORE testing whether anything is to be dumped
into the string (the file dump that precedes it consumes the request)."""
import re, glob, os
from props.common import *
from vf.core import FAILED, DISCHARGED, UNDECIDED, REPO


def unit_clear_once(twin=False):
    r = U.new_unit("C10.read_raw.list_options_clear_their_vector_once", "src/phreeqcpp/Temperature.cxx", "cxxTemperature::read_raw", None, kind="structural")
    n = 0
    for path in sorted(glob.glob(os.path.join(REPO, "src/phreeqcpp/*.cxx"))):
        rel = os.path.relpath(path, REPO)
        t = open(path, encoding="latin1").read()
        if "cleared_once" not in t:
            continue
        from vf import callsites as CS
        for q, _ in CS.enclosing_functions(rel, "cleared_once"):
            fn = A.find_function(rel, q)
            guards = [x for x in A.walk(fn) if x.get("kind") == "IfStmt" and text_of(rel, x["inner"][0]) == "!cleared_once"]
            decl = [x for x in A.walk(fn) if x.get("kind") == "VarDecl" and x.get("name") == "cleared_once"]
            for g in guards:
                n += 1
                body = text_of(rel, g["inner"][1])
                ok = "cleared_once=true;" in body and ".clear();" in body
                if twin and n == 1:
                    ok = False
                r.add("%s.flag_raised_where_the_vector_is_cleared" % q.split("::")[0], DISCHARGED if ok else FAILED, "syntactic", 0, body[:120])
            if decl:
                init = text_of(rel, decl[0]["inner"][-1]) if decl[0].get("inner") else ""
                r.add("%s.flag_starts_false" % q.split("::")[0], DISCHARGED if init == "false" else FAILED, "syntactic", 0, init)
    r.add("reach.readers", DISCHARGED if n >= 3 else UNDECIDED, "syntactic", 0, "%d guarded clears" % n, kind="vacuity")
    return r


def unit_dump_string_request(twin=False):
    IPQ = "src/IPhreeqc.cpp"
    fn = A.find_function(IPQ, "IPhreeqc::do_run")
    r = U.new_unit("C10.do_run.dump_string_uses_the_run's_dump_request", IPQ, "IPhreeqc::do_run", fn, kind="structural")
    blocks = [x for x in A.walk(fn) if x.get("kind") == "IfStmt" and text_of(IPQ, x["inner"][0]) == "this->DumpStringOn"]
    if len(blocks) != 1:
        r.add("dump_string_block_found", UNDECIDED, "syntactic", 0, "%d" % len(blocks)); return r
    stmts = [text_of(IPQ, x) for x in blocks[0]["inner"][1].get("inner", [])]
    def idx(pred):
        return next((i for i, t in enumerate(stmts) if pred(t)), None)
    i_restore = idx(lambda t: t.startswith("this->PhreeqcPtr->dump_info=dump_info_save"))
    i_test = idx(lambda t: t.startswith("if(this->PhreeqcPtr->dump_info.Get_bool_any())"))
    ok = i_restore is not None and i_test is not None and i_restore < i_test
    if twin:
        ok = False
    r.add("request_restored_before_it_is_tested", DISCHARGED if ok else FAILED, "syntactic", 0, "statements of the DumpStringOn block: %r" % [t[:50] for t in stmts])
    t_all = text_of(IPQ, fn)
    r.add("request_saved_before_the_file_dump", DISCHARGED if "dump_info_save=this->PhreeqcPtr->dump_info;" in t_all or "dump_info_save(this->PhreeqcPtr->dump_info)" in t_all else FAILED, "syntactic", 0, "", kind="structural")
    r.assumptions += ["dump_entities / dump_ostream reset dump_info after dumping (SetAll(false)); text anchors"]
    return r


def unit_dump_ostream_frame(pid="C09", twin=False):
    """dump_ostream consumes the dump REQUEST (which entities) and nothing else of dump_info: the append flag and the file name that
    the string sink reads afterwards stay as the DUMP block set them."""
    RC = "src/phreeqcpp/ReadClass.cxx"
    fn = A.find_function(RC, "Phreeqc::dump_ostream")
    r = U.new_unit("%s.dump_ostream.only_the_request_is_consumed" % pid, RC, "Phreeqc::dump_ostream", fn, kind="structural")
    muts = []
    for x in A.walk(fn):
        if x.get("kind") == "CXXMemberCallExpr":
            me = strip(x["inner"][0])
            if me.get("kind") == "MemberExpr" and text_of(RC, strip(me["inner"][0])) in ("dump_info", "this->dump_info"):
                nm = me.get("name", "")
                if not nm.startswith("Get_") and nm not in ("Get_bool_any",):
                    muts.append((nm, [text_of(RC, a) for a in x["inner"][1:]]))
    want = [("SetAll", ["false"])]
    if twin:
        want = []
    r.add("dump_info_mutated_only_by_SetAll(false)", DISCHARGED if muts == want else FAILED, "syntactic", 0, "non-getter calls on dump_info: %r" % (muts,), kind="frame")
    return r
