"""C17 extension: the small routines whose contracts the statement units assume (iseos, require, skiptoeos, the error exits)."""
from props.c17_ext_model import *

LINK0 = tm.sym("P0_LINK", "P")


def unit_iseos(twin=False):
    """iseos: a statement ends at the end of the line, at ELSE and at ':' and nowhere else."""
    q = "PBasic::iseos"
    fn = A.find_function(PB, q)
    r = U.new_unit("C17.iseos.end_of_statement_is_end_of_line_ELSE_or_colon", PB, q, fn)
    c = mkctx(); c.handlers.pop("PBasic::iseos")
    f, ex, fin, info = run_fn(q, c)
    n = 0
    t = F0("t", "P", LINK0)
    kind = F0("kind", "I", t)
    spec = tm.or_(tm.eq(t, NULLP), tm.eq(kind, tk("tokelse")), tm.eq(kind, tk("tokcolon") if not twin else tk("toksemi")))
    for s in alive(fin, ("ret",)):
        n += 1
        got = tm.to_bool(s.ret)
        U.discharge_valid(r, "result<=>(t==NULL_or_ELSE_or_colon)", list(s.pc), tm.and_(tm.implies(got, spec), tm.implies(spec, got)))
        ok(r, "writes_nothing", not any(writes(s, k) for k in s.heap), "", kind="frame")
    reach(r, "reach.iseos", n)
    return r


def unit_require(twin=False):
    """require(k): the next token is of kind k and is consumed (exactly one token), otherwise a syntax error is reported."""
    q = "PBasic::require"
    fn = A.find_function(PB, q)
    r = U.new_unit("C17.require.consumes_exactly_the_required_token_or_reports_an_error", PB, q, fn)
    c = mkctx(); c.handlers.pop("PBasic::require")
    def quiet_exit(ex_, st, n, name, recv, args):
        st.status = "exit"; return [(st, ZI)]
    c.handlers["exit"] = quiet_exit
    f, ex, fin, info = run_fn(q, c)
    k = tm.sym("P0_k", "I")
    LINK1 = tm.sym("P1_LINK", "P")
    t = F0("t", "P", LINK1)
    good = tm.and_(tm.not_(tm.eq(t, NULLP)), tm.eq(F0("kind", "I", t), k))
    n_ok = n_err = 0
    for s in alive(fin):
        if s.status in ("run", "ret"):
            n_ok += 1
            U.discharge_valid(r, "returns_only_when_the_token_at_hand_is_of_kind_k", list(s.pc), good)
            wt = writes(s, ("f", "t", "P"))
            ok(r, "consumes_exactly_that_token(t:=t->next)", len(wt) == 1 and wt[0][0] == (LINK1,) and wt[0][1] is (F0("next", "P", t) if not twin else t), repr(wt))
            ok(r, "writes_nothing_else", not [kk for kk in s.heap if kk != ("f", "t", "P") and kk[0] == "f" and writes(s, kk)], "", kind="frame")
        else:
            n_err += 1
            U.discharge_valid(r, "error_only_when_the_token_is_missing_or_of_another_kind", list(s.pc), tm.not_(good))
            ok(r, "error_path_ends_in_a_syntax_error_report", s.status == "throw" and bool(evs(s, "snerr")), s.status)
    reach(r, "reach.require(ok,error)", min(n_ok, n_err))
    r.assumptions += ["snerr does not return (unit C17.errormsg)", "the loop that looks up the token's name for the message is havocked (it only prepares the message text)"]
    return r


def unit_skiptoeos(twin=False):
    """skiptoeos: moves forward token by token and stops at the first end-of-statement position at or behind the current one."""
    q = "PBasic::skiptoeos"
    fn = A.find_function(PB, q)
    r = U.new_unit("C17.skiptoeos.stops_at_the_first_end_of_statement", PB, q, fn)
    loops = loops_of(fn)
    if len(loops) > 1:
        raise Undecided("skiptoeos: expected one loop")
    c = mkctx(); c.handlers.pop("PBasic::skiptoeos")
    snaps = {}
    f, ex, fin, info = run_fn(q, c, loop=snap_and_havoc(snaps))
    n = 0
    for s in alive(snaps.get(0, [])):
        ok(r, "entry.starts_at_the_current_position", not any(writes(s, k) for k in s.heap), "", kind="establishment")
    c2 = mkctx(); c2.handlers.pop("PBasic::skiptoeos")
    its, ex2 = [], None
    if loops:
        f2, ex2, its, info2 = run_iter(q, 0, c2)
    ni = 0 if loops else 1
    for s in alive(its, ("run", "cont")):
        ni += 1
        link = tm.sym("L_LINK", "P")
        t0 = tm.select(entry_arr(ex2, s, ("f", "t", "P")), link)
        k0 = tm.select(entry_arr(ex2, s, ("f", "kind", "I")), t0)
        eos0 = tm.or_(tm.eq(t0, NULLP), tm.eq(k0, tk("tokelse")), tm.eq(k0, tk("tokcolon")))
        U.discharge_valid(r, "step.only_from_a_position_that_is_not_an_end_of_statement", list(s.pc), tm.not_(eos0) if not twin else eos0)
        U.discharge_valid(r, "step.exactly_one_token_forward", list(s.pc), tm.eq(F(ex2, s, "t", "P", link), tm.select(entry_arr(ex2, s, ("f", "next", "P")), t0)))
        ok(r, "step.writes_only_the_position", sorted(set(k for k, _, _ in U.iter_writes(s))) == [("f", "t", "P")], "", kind="frame")
    for s in alive(fin, ("run", "ret")):
        n += 1
        t1 = F(ex, s, "t", "P", LINK0)
        k1 = F(ex, s, "kind", "I", t1)
        U.discharge_valid(r, "exit.position_is_an_end_of_statement", list(s.pc), tm.or_(tm.eq(t1, NULLP), tm.eq(k1, tk("tokelse")), tm.eq(k1, tk("tokcolon"))))
        ok(r, "exit.nothing_done_behind_the_loop", not after(s) or all(e.name.endswith("iseos") for e in after(s)), "", kind="frame")
    reach(r, "reach.skiptoeos", min(n, ni))
    r.assumptions += ["iseos: unit C17.iseos"]
    return r


def unit_error_exits(twin=False):
    """A BASIC error never returns to the statement that raised it: _Escape throws PBasicStop on every path, errormsg ends in _Escape on
    every path, snerr / tmerr / badsubscr end in errormsg on every path."""
    r = U.new_unit("C17.errormsg.error_exits_never_return", PB, "PBasic::errormsg", A.find_function(PB, "PBasic::errormsg"))
    n = 0
    for q, via in (("PBasic::_Escape", None), ("PBasic::errormsg", "_Escape"), ("PBasic::snerr", "errormsg"), ("PBasic::tmerr", "errormsg"), ("PBasic::badsubscr", "errormsg")):
        c = mkctx()
        for k in THROWERS:
            c.handlers.pop("PBasic::" + k, None)
        if via:
            def thr(ex_, st, n_, name, recv, args):
                st.events.append(SX.Event(name, recv, args, ZI, n_)); st.status = "throw"; return [(st, ZI)]
            c.handlers["PBasic::" + via] = thr
        f, ex, fin, info = run_fn(q, c)
        live_ = alive(fin)
        n += len(live_)
        short = q.split("::")[-1]
        ends = [s.status for s in live_]
        ok(r, "%s.every_path_ends_in_%s" % (short, via or "throw PBasicStop"), bool(live_) and all(x == "throw" for x in ends) if not (twin and short == "errormsg") else False, "%s" % ends)
        if not via:
            for s in live_:
                U.discharge_valid(r, "_Escape.records_the_escape_code", list(s.pc), tm.eq(F(ex, s, "P_escapecode", "I", THIS), tm.sym("P0_code", "I")))
    reach(r, "reach.error_exits", n, 5)
    r.assumptions += ["a C++ throw leaves the function (exception propagation to exec's handler is the language's)"]
    return r
