"""C17 extension: FOR (loop entry), WHILE / WEND, skiploop."""
from props.c17_ext_model import *


def line_advance_summary(q_link_name="LINK"):
    """summary of the p2c line-advance loop `while (LINK->t == NULL) { if (no next line) error/leave; stmtline = stmtline->next;
    LINK->t = stmtline->txt; }` inside a scanning loop: not entered when a token is at hand; otherwise everything it may write is
    arbitrary afterwards and its exit condition holds (a token is at hand).  The loop body has its own obligations (line_advance.*)."""
    def h(ex, st, n, o):
        init, cond, inc, body = ex.loop_parts(n)
        out = []
        for s1, v in ex.ev(cond, st):
            c = tm.to_bool(v)
            a, b = s1.clone(), s1
            if a.assume(tm.not_(c)):
                a.events.append(SX.Event("token_at_hand", None, [tm.FALSE], ZI))
                out.append(a)
            if b.assume(c):
                for s2 in ex.havoc_loop(n, b):
                    for s3, v3 in ex.ev(cond, s2):
                        if s3.assume(tm.not_(tm.to_bool(v3))):
                            s3.events.append(SX.Event("token_at_hand", None, [tm.TRUE], ZI))
                            out.append(s3)
        return out
    return h


def body_nodes(loop):
    body = loop["inner"][0] if loop["kind"] == "DoStmt" else loop["inner"][-1]
    return body.get("inner", []) if body.get("kind") == "CompoundStmt" else [body]


def cond_node(loop):
    return loop["inner"][1] if loop["kind"] == "DoStmt" else (loop["inner"][2] if loop["kind"] == "ForStmt" else loop["inner"][0])


def int_counters(ex, loop, info):
    """locals of integer type assigned inside the loop (the depth counters of a scanning loop)"""
    ids = locals_assigned_in(ex, loop)
    return {did: nm for did, (nm, q) in ids.items() if SX.sort_of(q) == "I"}


def check_line_advance(r, q, ordinal, c, tag="line_advance", on_giveup=None, line_field="stmtline", lib_only=False):
    """one iteration of the line-advance loop: with no token at hand the scan moves to the FIRST token of the NEXT line; it never
    moves when a token is at hand (loop condition) and reports the error / leaves when there is no next line"""
    f, ex, its, info = run_iter(q, ordinal, c)
    n_ok = n_out = 0
    for s in its:
        if B.z3_sat(list(s.pc)) == "unsat":
            continue
        link = local(info, s, "LINK")
        sl0 = tm.select(entry_arr(ex, s, ("f", line_field, "P")), THIS)
        t0 = tm.select(entry_arr(ex, s, ("f", "t", "P")), link)
        hy = hyp(s) if lib_only else list(s.pc)
        if lib_only and B.z3_sat(hy) == "unsat":
            continue
        nxt0 = tm.select(entry_arr(ex, s, ("f", "next", "P")), sl0)
        have_next = tm.and_(tm.not_(tm.eq(sl0, NULLP)), tm.not_(tm.eq(nxt0, NULLP)))
        if s.status in ("throw", "goto", "ret"):
            n_out += 1
            U.discharge_valid(r, "%s.gives_up_only_when_there_is_no_next_line" % tag, hy, tm.not_(have_next))
            if on_giveup is not None:
                on_giveup(ex, s, info)
            continue
        if s.status not in ("run", "cont"):
            continue
        n_ok += 1
        U.discharge_valid(r, "%s.entered_only_without_a_token_at_hand" % tag, hy, tm.eq(t0, NULLP))
        U.discharge_valid(r, "%s.moves_only_when_a_next_line_exists" % tag, hy, have_next)
        sl1 = fld(ex, s, line_field, "P")
        U.discharge_valid(r, "%s.%s:=%s->next" % (tag, line_field, line_field), hy, tm.eq(sl1, nxt0))
        U.discharge_valid(r, "%s.token:=first_token_of_that_line" % tag, hy, tm.eq(F(ex, s, "t", "P", link), tm.select(entry_arr(ex, s, ("f", "txt", "P")), nxt0)))
    reach(r, "reach.%s" % tag, min(n_ok, n_out), 1)


# --------------------------------------------------------------------------------------------------------------- FOR

def unit_cmdfor_entry(twin=False):
    """FOR v = e1 TO e2 [STEP e3]: v := e1; limit and step evaluated once, in that order (step 1 when absent); when the range is
    not empty a FOR record (variable, limit, step, position right after the header) is pushed on the loop stack and execution goes on
    behind the header; when it is empty (step > 0 and e1 > e2, or step < 0 and e1 < e2) nothing is pushed and the scan for the
    matching NEXT starts with both nesting counters at 0."""
    q = "PBasic::cmdfor"
    fn = A.find_function(PB, q)
    r = U.new_unit("C17.cmdfor.entry_stores_initial_value_and_pushes_the_FOR_record", PB, q, fn)
    c = mkctx(repoint=False)
    snaps = {}
    f, ex, fin, info = run_fn(q, c, loop=snap_and_havoc(snaps))
    loops = loops_of(fn)
    scan = [k for k, lp in enumerate(loops) if lp["kind"] == "DoStmt"]
    if len(scan) != 1:
        raise Undecided("cmdfor: expected one do-while scan loop, found %d" % len(scan))
    link = tm.sym("P0_LINK", "P")
    lb0 = F0("loopbase", "P", THIS)
    sl0 = F0("stmtline", "P", THIS)
    FOR = tm.num(define("forloop"), "I")
    n_push = n_skip = 0

    def header(s, tag):
        """facts common to both outcomes; returns (v, e1, e2, step) or None"""
        fv = evs(s, "findvar"); re_ = evs(s, "realexpr")
        if len(fv) != 1 or len(re_) not in (2, 3):
            ok(r, "%s.header_parsed_as_variable_then_2_or_3_expressions" % tag, False, "findvar x%d realexpr x%d" % (len(fv), len(re_)))
            return None
        v = fv[0].result
        e1, e2 = re_[0].result, re_[1].result
        step = re_[2].result if len(re_) == 3 else tm.num(1)
        # order of the header: variable, '=', e1, TO, e2 [, STEP, e3]
        seq = [e.name.split("::")[-1] + (":%s" % e.args[0] if e.name.endswith("require") else "") for e in s.events if e.name.split("::")[-1] in ("findvar", "require", "realexpr")]
        want = ["findvar", "require:%s" % tk("tokeq"), "realexpr", "require:%s" % tk("tokto"), "realexpr"] + (["realexpr"] if len(re_) == 3 else [])
        ok(r, "%s.header_syntax_is_var_=_e1_TO_e2_[STEP_e3]" % tag, seq == want, "%s" % seq)
        hy = list(s.pc)
        t2 = re_[1].snap                     # position behind e2
        has_step = tm.and_(tm.not_(tm.eq(t2, NULLP)), tm.eq(tm.select(arr0(("f", "kind", "I")), t2), tk("tokstep")))
        if len(re_) == 3:
            U.discharge_valid(r, "%s.third_expression_is_read_only_behind_a_STEP_token" % tag, hy, tm.and_(has_step, tm.eq(re_[2].args[-1], tm.select(arr0(("f", "next", "P")), t2))))
        else:
            U.discharge_valid(r, "%s.step_defaults_to_1_only_without_a_STEP_token" % tag, hy, tm.not_(has_step))
        wv = writes(s, ("m", "R"))
        valp = F0("val", "P", U0(v))
        ok(r, "%s.loop_variable:=e1_and_no_other_variable_written" % tag, len(wv) == 1 and wv[0][0] == (valp, ZI) and wv[0][1] is (e1 if not twin else e2), repr(wv)[:200])
        return v, e1, e2, step

    for s in alive(snaps.get(scan[0], [])):
        # ---- empty range: state at the head of the scan loop
        n_skip += 1
        h = header(s, "skip")
        if h is None:
            continue
        v, e1, e2, step = h
        hy = list(s.pc)
        empty = tm.or_(tm.and_(tm.lt(tm.num(0), step), tm.lt(e2, e1)), tm.and_(tm.lt(step, tm.num(0)), tm.lt(e1, e2)))
        U.discharge_valid(r, "skip.only_when_the_range_is_empty(step!=0)", hy + [tm.not_(tm.eq(step, tm.num(0)))], empty)
        ok(r, "skip.no_loop_record_pushed", not writes(s, ("f", "loopbase", "P")), repr(writes(s, ("f", "loopbase", "P")))[:120], kind="frame")
        cnt = int_counters(ex, loops[scan[0]], info)
        vals = [s.locals.get(did) for did in cnt]
        ok(r, "skip.nesting_counters_start_at_0", len(cnt) >= 1 and all(x is ZI for x in vals), "%s -> %s" % (sorted(cnt.values()), vals), kind="establishment")
        # the variable the scan compares NEXT/FOR tokens with is this loop's variable
        lr = [x for x in s.locals.values() if isinstance(x, tuple) and x[0] == "obj"]
        ok(r, "skip.scan_starts_behind_the_header_on_the_FOR's_line", F(ex, s, "stmtline", "P", THIS) is sl0 and F(ex, s, "t", "P", link) is _last_pos(s), "", kind="establishment")
    for s in alive(fin, ("run", "ret")):
        if any(e.name == "loop_exit" for e in s.events):
            # ---- behind the scan loop: to the end of the NEXT statement, nothing else
            post = after(s)
            sk = [e for e in post if e.name.endswith("skiptoeos")]
            others = [e for e in post if not e.name.endswith("skiptoeos") and not e.name.endswith("iseos")]
            wl = writes(s, ("f", "loopbase", "P")); wv = writes(s, ("m", "R")); wt = writes(s, ("f", "t", "P"))
            ok(r, "skip.after_the_matching_NEXT:rest_of_that_statement_skipped,nothing_else_done",
               len(sk) == 1 and not others and not wl and not wv and len(wt) == 1 and wt[0][1] is sk[0].result and sk[0].args[1] is tm.select(_base(s, ("f", "t", "P")), link) and not writes(s, ("f", "stmtline", "P")),
               "skiptoeos x%d, other calls %s, writes loopbase=%d mem=%d" % (len(sk), [e.name for e in others][:3], len(wl), len(wv)))
            continue
        if any(e.name.endswith("malloc_error") for e in s.events):
            continue
        # ---- range not empty: record pushed
        n_push += 1
        h = header(s, "enter")
        if h is None:
            continue
        v, e1, e2, step = h
        hy = list(s.pc)
        nonempty = tm.or_(tm.and_(tm.lt(tm.num(0), step), tm.le(e1, e2)), tm.and_(tm.lt(step, tm.num(0)), tm.le(e2, e1)))
        U.discharge_valid(r, "enter.only_when_the_range_is_not_empty(step!=0)", hy + [tm.not_(tm.eq(step, tm.num(0)))], nonempty)
        wl = writes(s, ("f", "loopbase", "P"))
        if not ok(r, "enter.one_record_pushed_on_the_loop_stack", len(wl) == 1 and wl[0][0] == (THIS,), repr(wl)[:150]):
            continue
        l = wl[0][1]
        ok(r, "enter.record_is_a_new_allocation", tm._fresh_alloc(l), repr(l))
        u = U0(l)
        U.discharge_valid(r, "enter.record.next==previous_top", hy, tm.eq(F(ex, s, "next", "P", l), lb0))
        U.discharge_valid(r, "enter.record.kind==forloop", hy, tm.eq(F(ex, s, "kind", "I", l), FOR))
        U.discharge_valid(r, "enter.record.variable==the_FOR_variable", hy, tm.eq(F(ex, s, "vp", "P", u), v))
        U.discharge_valid(r, "enter.record.limit==e2", hy, tm.eq(F(ex, s, "max", "R", u), e2))
        U.discharge_valid(r, "enter.record.step==e3_or_1", hy, tm.eq(F(ex, s, "step", "R", u), step))
        U.discharge_valid(r, "enter.record.homeline==current_line", hy, tm.eq(F(ex, s, "homeline", "P", l), sl0))
        U.discharge_valid(r, "enter.record.hometok==position_behind_the_header", hy, tm.eq(F(ex, s, "hometok", "P", l), _last_pos(s)))
        ok(r, "enter.execution_continues_behind_the_header", F(ex, s, "t", "P", link) is _last_pos(s) and not writes(s, ("f", "stmtline", "P")), repr(F(ex, s, "t", "P", link)), kind="frame")
    reach(r, "reach.enter_paths(with_and_without_STEP)", n_push, 2)
    reach(r, "reach.skip_paths(with_and_without_STEP)", n_skip, 2)
    r.assumptions += ["findvar / realexpr return arbitrary values and move the token position (expression units)", "the loop variable is a scalar (its value pointer is not re-pointed by the limit/step expressions)",
                      "require(k): next token is k and is consumed, else BASIC error (unit C17.require)", "errormsg/snerr do not return", "doubles as reals; STEP 0 is outside the contract",
                      "PHRQ_calloc failure path (malloc_error) not under contract", "struct copy *l = lr copies the members of looprec listed in PBasic.h"]
    return r


def scan_iteration(r, q, loop, c, up_kind, dn_kind, own_of=None, tag="scan", line_bound=False):
    """One iteration of a p2c nesting scan (do { <line advance>; if (kind == up) depth++; if (kind == dn) depth--; t = t->next; }
    while (depth >= 0)) from an ARBITRARY state.  Obligations: exactly one token is consumed; an opening token raises exactly one depth
    counter by one, a closing token lowers exactly one by one, any other token leaves them alone; the scan goes on exactly while no counter
    is negative.  up_kind / dn_kind: terms (token kinds) or callables state -> term (parameters of skiploop).
    own_of(ex, s, T, kind_arr, next_arr) -> condition 'this opening/closing token names the loop's own variable' (FOR only)."""
    fn = A.find_function(PB, q)
    loops = loops_of(fn)
    inner = [k for k, lp in enumerate(loops) if lp is not loop and any(y is lp for y in A.walk(loop))]
    f, ex, fin, info = run_stmts(q, body_nodes(loop), c, loop=line_advance_summary())
    cnt = int_counters(ex, loop, info)
    if not cnt:
        raise Undecided("%s: no integer depth counter assigned in the scan loop" % q)
    link = tm.sym("L_LINK", "P")
    n = {"up": 0, "dn": 0, "other": 0}
    n_end = [0]
    used = {}
    for s in alive(fin, ("run", "cont")):
        mark = [e for e in s.events if e.name == "token_at_hand"]
        if len(mark) != (0 if line_bound else 1):
            ok(r, "%s.line_advance_loop_precedes_the_token_test" % tag, False, "%d" % len(mark)); continue
        # the arrays as they were when the token was examined (behind the line advance)
        k_arr = _base(s, ("f", "kind", "I")) or ex.heap_arr(s, ("f", "kind", "I"))
        n_arr = _base(s, ("f", "next", "P")) or ex.heap_arr(s, ("f", "next", "P"))
        t_arr = _base(s, ("f", "t", "P")) or ex.heap_arr(s, ("f", "t", "P"))
        T = tm.select(t_arr, link)
        K = tm.select(k_arr, T)
        hy = list(s.pc)
        up = up_kind(ex, s) if callable(up_kind) else up_kind
        dn = dn_kind(ex, s) if callable(dn_kind) else dn_kind
        if line_bound:
            # a scan confined to the current line: at the end of the line nothing moves and the scan stops
            if prove(hy, tm.eq(T, NULLP)):
                n_end[0] += 1
                ok(r, "%s.at_the_end_of_the_line_nothing_changes" % tag, F(ex, s, "t", "P", link) is T and all(s.locals[d_] is tm.sym("L_%s" % nm_, "I") for d_, nm_ in cnt.items()), "")
                outs = ex.ev(cond_node(loop), s.clone())
                U.discharge_valid(r, "%s.stops_at_the_end_of_the_line" % tag, hy, tm.not_(tm.to_bool(outs[0][1])) if len(outs) == 1 else tm.FALSE)
                continue
            hy = hy + [tm.not_(tm.eq(T, NULLP))]
            if B.z3_sat(hy) == "unsat":
                continue
        U.discharge_valid(r, "%s.exactly_one_token_consumed(t:=t->next)" % tag, hy, tm.eq(F(ex, s, "t", "P", link), tm.select(n_arr, T)))
        ok(r, "%s.token_list_and_line_pointer_not_written_by_the_token_test" % tag, not writes(s, ("f", "kind", "I")) and not writes(s, ("f", "next", "P")) and not writes(s, ("f", "stmtline", "P")), "", kind="frame")
        d = {did: tm.sub(s.locals[did], tm.sym("L_%s" % nm, "I")) for did, nm in cnt.items()}
        total = None
        for x in d.values():
            total = x if total is None else tm.add(total, x)
        isup, isdn = tm.eq(K, up), tm.eq(K, dn)
        hy = hy + [tm.not_(tm.eq(up, dn))]            # the interpreter never scans with equal opening and closing kinds
        if B.z3_sat(hy) == "unsat":
            continue
        U.discharge_valid(r, "%s.depth_changes_by_+1_on_an_opening_token,-1_on_a_closing_token,0_on_any_other" % tag, hy,
                          tm.eq(total, tm.ite(isup, tm.num(1, "I"), tm.ite(isdn, tm.num(-1, "I"), ZI))))
        cls = "up" if prove(hy, isup) else "dn" if prove(hy, isdn) else "other" if prove(hy, tm.and_(tm.not_(isup), tm.not_(isdn))) else None
        if cls:
            n[cls] += 1
        if len(cnt) > 1:
            changed = [did for did in cnt if not prove(hy, tm.eq(d[did], ZI))]
            ok(r, "%s.at_most_one_counter_changes" % tag, len(changed) <= 1, "%s" % [cnt[x] for x in changed])
            if own_of is not None and cls in ("up", "dn") and len(changed) == 1:
                own = own_of(ex, s, T, k_arr, n_arr)
                o = True if prove(hy, own) else (False if prove(hy, tm.not_(own)) else None)
                used.setdefault((cls, o), set()).add(changed[0])
        # continuation test
        outs = ex.ev(cond_node(loop), s.clone())
        if len(outs) != 1:
            r.add("%s.continuation_test_evaluates_without_branching" % tag, UNDECIDED, "symex", 0, "%d" % len(outs)); continue
        cont = tm.to_bool(outs[0][1])
        allnn = tm.and_(*[tm.le(ZI, s.locals[did]) for did in cnt])
        if line_bound:
            allnn = tm.and_(allnn, tm.not_(tm.eq(F(ex, s, "t", "P", link), NULLP)))
        U.discharge_valid(r, "%s.goes_on_exactly_while_no_depth_counter_is_negative%s" % (tag, "_and_the_line_has_more_tokens" if line_bound else ""), hy, tm.and_(tm.implies(cont, allnn), tm.implies(allnn, cont)))
    if own_of is not None and len(cnt) > 1:
        for o in (True, False):
            a = set().union(*[v for (cls, oo), v in used.items() if cls == "up" and oo in (o, None)] or [set()])
            b = set().union(*[v for (cls, oo), v in used.items() if cls == "dn" and oo in (o, None)] or [set()])
            ok(r, "%s.FOR_and_NEXT_of_%s_variable_use_the_same_counter" % (tag, "the_loop's_own" if o else "another"), len(a) == 1 and a == b, "%s / %s" % ([cnt[x] for x in a], [cnt[x] for x in b]))
        a = set().union(*[v for (cls, oo), v in used.items() if oo is True] or [set()]); b = set().union(*[v for (cls, oo), v in used.items() if oo is False] or [set()])
    reach(r, "reach.%s(opening,closing,other)" % tag, min(n.values()), 1)
    if line_bound:
        reach(r, "reach.%s(end_of_line)" % tag, n_end[0], 1)
    return ex, info


def unit_cmdfor_scan(twin=False):
    """Empty FOR range: the scan for the matching NEXT.  Every token behind the header is visited once, lines are crossed only at their
    end and in order; FOR raises and NEXT lowers the nesting depth (FOR/NEXT naming this loop's variable are counted apart from the
    others, each pair in one counter); the scan stops exactly at the first NEXT that makes a counter negative."""
    q = "PBasic::cmdfor"
    fn = A.find_function(PB, q)
    r = U.new_unit("C17.cmdfor.empty_range_skips_to_the_matching_NEXT", PB, q, fn)
    loops = loops_of(fn)
    scan = [lp for lp in loops if lp["kind"] == "DoStmt"]
    if len(scan) != 1:
        raise Undecided("cmdfor: expected one do-while scan loop")
    c = mkctx()
    recs = [x.get("name") for x in A.walk(fn) if x.get("kind") == "VarDecl" and SX.strip_type(x["type"].get("desugaredQualType") or x["type"]["qualType"]) == "looprec"]
    if len(recs) != 1:
        raise Undecided("cmdfor: the FOR record under construction (a local of type looprec) not found")

    def own_of(ex, s, T, k_arr, n_arr):
        nx = tm.select(n_arr, T)
        vp_tok = F(ex, s, "vp", "P", UUo(nx))
        vp_loop = F(ex, s, "vp", "P", U0(tm.sym("&L_%s" % recs[0], "P")))
        return tm.and_(tm.not_(tm.eq(nx, NULLP)), tm.eq(tm.select(k_arr, nx), tk("tokvar")), tm.eq(vp_tok, vp_loop))
    scan_iteration(r, q, scan[0], c, tk("tokfor") if not twin else tk("tokwhile"), tk("toknext"), own_of=own_of)
    inner = [k for k, lp in enumerate(loops) if lp["kind"] == "WhileStmt" and any(y is lp for y in A.walk(scan[0]))]
    if len(inner) != 1:
        raise Undecided("cmdfor: line-advance loop not found")
    check_line_advance(r, q, inner[0], mkctx())
    r.assumptions += ["the token list and the line list are not modified while scanning", "errormsg('FOR without NEXT') does not return", "the FOR being skipped is described by the function's one local of type looprec",
                      "the line-advance loop is summarised by its exit condition inside the token test; its body carries the line_advance.* obligations"]
    return r


# --------------------------------------------------------------------------------------------------------------- WHILE / WEND

def pv(r, name, s, goal, kind="post"):
    return U.discharge_valid(r, name, hyp(s, [goal]), goal, kind=kind)


def unit_cmdwhile(twin=False):
    """WHILE c: a WHILE record (line and token position of the condition, so that WEND can evaluate it again) is pushed; c true: go on
    behind the condition with the record on the stack; c false: scan to the matching WEND (nesting counted by skiploop(WHILE, WEND)) from
    behind the condition, drop the record again, go on behind that WEND statement; no matching WEND: BASIC error."""
    q = "PBasic::cmdwhile"
    fn = A.find_function(PB, q)
    r = U.new_unit("C17.cmdwhile.false_condition_skips_behind_the_matching_WEND", PB, q, fn)
    f, ex, fin, info = run_fn(q, mkctx())
    link = tm.sym("P0_LINK", "P")
    lb0, sl0, t0 = F0("loopbase", "P", THIS), F0("stmtline", "P", THIS), F0("t", "P", link)
    WH = tm.num(define("whileloop"), "I")
    n = {"true": 0, "false": 0, "nowend": 0}
    for s in alive_lib(fin):
        if any(e.name.endswith("malloc_error") for e in s.events):
            continue
        re_ = evs(s, "realexpr"); sk = evs(s, "skiploop")
        wl = writes(s, ("f", "loopbase", "P"))
        al = [e.result for e in s.events if isinstance(e.result, tm.T) and e.result.sort == "P" and tm._fresh_alloc(e.result) and e.result.op == "sym"]
        if len(al) != 1:
            ok(r, "push.one_new_record_allocated", False, repr(al)[:150]); continue
        l = al[0]
        if s.status == "throw":
            n["nowend"] += 1
            ok(r, "false.error_only_when_skiploop_finds_no_matching_WEND", len(sk) == 1 and sk[0].result is tm.FALSE and len(re_) == 1, "%s" % [e.name for e in s.events][-3:])
            if len(re_) == 1:
                pv(r, "false.scan_only_when_the_condition_is_0", s, tm.eq(re_[0].result, tm.num(0)))
            continue
        pv(r, "push.record.kind==whileloop", s, tm.eq(F(ex, s, "kind", "I", l), WH if not twin else tm.num(define("forloop"), "I")))
        pv(r, "push.record.next==previous_top", s, tm.eq(F(ex, s, "next", "P", l), lb0))
        pv(r, "push.record.homeline==line_of_the_WHILE", s, tm.eq(F(ex, s, "homeline", "P", l), sl0))
        pv(r, "push.record.hometok==position_of_the_condition", s, tm.eq(F(ex, s, "hometok", "P", l), t0))
        if not re_:
            ok(r, "WHILE_without_condition.record_stays,position_unchanged", F(ex, s, "loopbase", "P", THIS) is l and not writes(s, ("f", "t", "P")) and not sk, "")
            continue
        cond = re_[0].result
        ok(r, "condition_evaluated_once_at_the_position_behind_WHILE", len(re_) == 1 and re_[0].args[-1] is t0, repr(re_[0].args[-1]))
        if not sk:
            n["true"] += 1
            pv(r, "true.body_entered_only_when_the_condition_is_not_0", s, tm.not_(tm.eq(cond, tm.num(0))))
            ok(r, "true.new_record_is_the_top_of_the_loop_stack", F(ex, s, "loopbase", "P", THIS) is l, repr(wl)[:100])
            ok(r, "true.execution_continues_behind_the_condition_on_the_same_line", F(ex, s, "t", "P", link) is re_[0].snap and not writes(s, ("f", "stmtline", "P")), "")
        else:
            n["false"] += 1
            pv(r, "false.body_skipped_only_when_the_condition_is_0", s, tm.eq(cond, tm.num(0)))
            if not ok(r, "false.one_scan_for_the_matching_WEND", len(sk) == 1 and sk[0].result is tm.TRUE, "%d" % len(sk)):
                continue
            e = sk[0]
            pv(r, "false.scan_counts_WHILE_as_opening_and_WEND_as_closing", s, tm.and_(tm.eq(e.args[0], tk("tokwhile")), tm.eq(e.args[1], tk("tokwend"))))
            ok(r, "false.scan_starts_behind_the_condition_on_the_WHILE's_line", e.args[3] is re_[0].snap and e.args[4] is sl0, "%r %r" % (e.args[3], e.args[4]))
            pv(r, "false.record_dropped_again(stack_as_before)", s, tm.eq(F(ex, s, "loopbase", "P", THIS), lb0))
            fr = evs(s, "PHRQ_free")
            ok(r, "false.dropped_record_released_once", len(fr) == 1 and fr[0].args[0] is l, "%s" % [x.args for x in fr])
            se = [x for x in evs(s, "skiptoeos")]
            ok(r, "false.continues_at_the_end_of_the_WEND_statement_on_the_WEND's_line", len(se) == 1 and se[0].args[1] is e.snap[0] and F(ex, s, "t", "P", link) is se[0].result and F(ex, s, "stmtline", "P", THIS) is e.snap[1],
               "t=%r line=%r" % (F(ex, s, "t", "P", link), F(ex, s, "stmtline", "P", THIS)))
    reach(r, "reach.true_condition", n["true"]); reach(r, "reach.false_condition", n["false"]); reach(r, "reach.WHILE_without_WEND", n["nowend"])
    r.assumptions += ["library build (phreeqci_gui false)", "skiploop(up, dn): contract of unit C17.skiploop", "realexpr returns an arbitrary value and moves the position", "errormsg does not return (unit C17.errormsg)",
                      "a record from PHRQ_calloc is distinct from every existing object", "PHRQ_calloc failure path not under contract"]
    return r


def unit_skiploop(twin=False):
    """skiploop(up, dn): starting behind the opening statement, every token is visited once, lines are crossed in order at their end;
    `up` raises, `dn` lowers the nesting depth (from 0); true is returned right behind the first `dn` token that closes the depth-0 level;
    when the program ends first, false is returned and the current line is restored."""
    q = "PBasic::skiploop"
    fn = A.find_function(PB, q)
    r = U.new_unit("C17.skiploop.stops_behind_the_matching_closing_token", PB, q, fn)
    loops = loops_of(fn)
    scan = [lp for lp in loops if lp["kind"] == "DoStmt"]
    inner = [k for k, lp in enumerate(loops) if lp["kind"] == "WhileStmt"]
    if len(scan) != 1 or len(inner) != 1:
        raise Undecided("skiploop: scan / line-advance loops not found")
    up = (lambda ex, s: tm.sym("L_up", "I")) if not twin else (lambda ex, s: tm.sym("L_dn", "I"))
    dn = (lambda ex, s: tm.sym("L_dn", "I")) if not twin else (lambda ex, s: tm.sym("L_up", "I"))
    scan_iteration(r, q, scan[0], mkctx(), up, dn)
    labels = [x for x in A.walk(fn) if x.get("kind") == "LabelStmt"]
    ret_local = None
    if len(labels) == 1 and labels[0]["inner"][-1].get("kind") == "ReturnStmt":
        d = [y for y in A.walk(labels[0]["inner"][-1]) if y.get("kind") == "DeclRefExpr"]
        ret_local = d[0]["referencedDecl"]["id"] if len(d) == 1 else None

    def giveup(ex, s, info):
        if s.status != "goto" or ret_local is None or getattr(s, "goto_label", None) != labels[0].get("declId"):
            ok(r, "no_more_lines.leaves_through_the_function's_return", False, s.status); return
        res = s.locals.get(ret_local)
        ok(r, "no_more_lines.returns_false", res is tm.FALSE, repr(res))
        saved = [did for nm, did in info["names"].items() if isinstance(s.locals.get(did), tm.T) and s.locals.get(did) is fld(ex, s, "stmtline", "P")]
        ok(r, "no_more_lines.current_line_restored_from_a_saved_value", len(saved) >= 1 and bool(writes(s, ("f", "stmtline", "P"))), "%s" % saved)
        s.saved_ids = saved
        giveup.saved.update(saved)
    giveup.saved = set()
    check_line_advance(r, q, inner[0], mkctx(), on_giveup=giveup)
    # whole function: establishment and the normal return
    snaps = {}
    f, ex, fin, info = run_fn(q, mkctx(), loop=snap_and_havoc(snaps))
    k = loops.index(scan[0])
    ne = 0
    for s in alive(snaps.get(k, [])):
        ne += 1
        cnt = int_counters(ex, scan[0], info)
        ok(r, "entry.nesting_depth_starts_at_0", all(s.locals.get(d) is ZI for d in cnt) and len(cnt) >= 1, "%s" % [s.locals.get(d) for d in cnt], kind="establishment")
        ok(r, "entry.the_value_restored_on_failure_is_the_line_at_entry", bool(giveup.saved) and all(s.locals.get(d) is F0("stmtline", "P", THIS) for d in giveup.saved), "", kind="establishment")
        ok(r, "entry.scan_starts_at_the_caller's_position", not writes(s, ("f", "t", "P")) and not writes(s, ("f", "stmtline", "P")), "", kind="establishment")
    nr = 0
    for s in alive(fin, ("ret",)):
        nr += 1
        post = after(s)
        ok(r, "found.returns_true_at_the_position_the_scan_stopped", s.ret is tm.TRUE and not writes(s, ("f", "t", "P")) and not writes(s, ("f", "stmtline", "P")) and not post, "ret=%r" % (s.ret,))
    reach(r, "reach.entry_and_return", min(ne, nr))
    r.assumptions += ["token and line lists are not modified while scanning", "the line-advance loop is summarised by its exit condition inside the token test; its body carries the line_advance.* obligations",
                      "`goto _L1` is a jump to the labelled return statement at the end of the function"]
    return r


def stack_search_iteration(r, q, ordinal, wanted_kind, stop_kinds, tag="search", twin=False):
    """one iteration of the p2c loop-stack search `do { if (top unusable) error; found = (top is of the wanted kind ...); if (!found) pop; }
    while (!found)`: error exactly when the stack is empty or the top is of a kind the statement must not cross; a top record of the wanted kind
    ends the search and stays; any other top record is popped and released; the search goes on exactly until a record is found"""
    f, ex, its, info = run_iter(q, ordinal, mkctx())
    n = {"found": 0, "popped": 0, "error": 0}
    loop = info["node"]
    for s in alive_lib(its):
        lb0 = tm.select(entry_arr(ex, s, ("f", "loopbase", "P")), THIS)
        kind0 = tm.select(entry_arr(ex, s, ("f", "kind", "I")), lb0)
        bad = tm.or_(tm.eq(lb0, NULLP), *[tm.eq(kind0, tm.num(define(k), "I")) for k in stop_kinds])
        hy = hyp(s)
        if s.status == "throw":
            n["error"] += 1
            U.discharge_valid(r, "%s.error_only_when_stack_empty_or_top_is_%s" % (tag, "/".join(stop_kinds) or "-"), hy, bad)
            continue
        if s.status not in ("run", "cont"):
            continue
        U.discharge_valid(r, "%s.no_search_past_an_empty_stack_or_a_%s_record" % (tag, "/".join(stop_kinds) or "-"), hy, tm.not_(bad))
        want = tm.eq(kind0, tm.num(define(wanted_kind if not twin else "forloop" if wanted_kind != "forloop" else "whileloop"), "I"))
        w = writes(s, ("f", "loopbase", "P"))
        frees = [e for e in U.iter_events(s) if e.name.endswith("PHRQ_free")]
        outs = ex.ev(cond_node(loop), s.clone())
        cont = tm.to_bool(outs[0][1]) if len(outs) == 1 else None
        for hy2, wanted in cases(hy, want):
            if wanted:
                n["found"] += 1
                ok(r, "%s.record_of_the_wanted_kind_stays_on_the_stack" % tag, not w and not frees, repr(w)[:100], kind="frame")
                if cont is not None:
                    U.discharge_valid(r, "%s.ends_when_found" % tag, hy2, tm.not_(cont))
            else:
                n["popped"] += 1
                ok(r, "%s.other_record_popped_and_released" % tag, len(w) == 1 and w[0][1] is tm.select(entry_arr(ex, s, ("f", "next", "P")), lb0) and len(frees) == 1 and frees[0].args[0] is lb0, "%r %r" % (w, [e.args for e in frees]))
                if cont is not None:
                    U.discharge_valid(r, "%s.goes_on_after_popping" % tag, hy2, cont)
    reach(r, "reach.%s(found,popped,error)" % tag, min(n.values()))


def unit_cmdwend(twin=False):
    """WEND: records above the innermost WHILE record (unfinished FOR loops inside the body) are dropped, a GOSUB record or an empty stack is
    an error; the WHILE condition is evaluated again at the recorded position; true: execution continues behind the condition in the WHILE line,
    the record stays; false: the record is dropped and execution continues behind the WEND."""
    q = "PBasic::cmdwend"
    fn = A.find_function(PB, q)
    r = U.new_unit("C17.cmdwend.returns_to_its_WHILE_and_reevaluates_the_condition", PB, q, fn)
    loops = loops_of(fn)
    if len(loops) != 1 or loops[0]["kind"] != "DoStmt":
        raise Undecided("cmdwend: expected exactly the stack-search loop")
    stack_search_iteration(r, q, 0, "whileloop", ["gosubloop"], twin=False)
    snaps = {}
    f, ex, fin, info = run_fn(q, mkctx(), loop=snap_and_havoc(snaps))
    link = tm.sym("P0_LINK", "P")
    n = {"again": 0, "leave": 0}
    for s in alive_lib(snaps.get(0, [])):
        ok(r, "entry.stack_search_starts_from_the_current_stack_without_other_effects", not any(writes(s, k) for k in list(s.heap)) and not [e for e in s.events if not e.name.endswith("iseos")], "", kind="establishment")
    for s in alive_lib(fin, ("run", "ret")):
        if not any(e.name == "loop_exit" for e in s.events):
            continue
        top = Fb(ex, s, "loopbase", "P", THIS)
        t_w, sl_w = Fb(ex, s, "t", "P", link), Fb(ex, s, "stmtline", "P", THIS)
        hy = hyp(s)
        post = after(s)
        if not prove(hy, is_eos_at_base(ex, s, t_w)):
            continue                               # WEND followed by an expression of its own: outside the documented statement forms
        re_ = [e for e in post if e.name.endswith("realexpr")]
        home_t, home_l = Fb(ex, s, "hometok", "P", top), Fb(ex, s, "homeline", "P", top)
        frees = [e for e in post if e.name.endswith("PHRQ_free")]
        if not re_:
            continue                               # WHILE without a condition: loops until left otherwise
        ok(r, "condition_reevaluated_once_at_the_position_recorded_by_WHILE", len(re_) == 1 and re_[0].args[-1] is (home_t if not twin else t_w), repr(re_[0].args[-1]))
        c = re_[0].result
        if not frees:
            n["again"] += 1
            U.discharge_valid(r, "true.loop_repeated_only_when_the_condition_is_not_0", hy, tm.not_(tm.eq(c, tm.num(0))))
            ok(r, "true.continues_behind_the_condition_in_the_WHILE_line", F(ex, s, "t", "P", link) is re_[0].snap and F(ex, s, "stmtline", "P", THIS) is home_l, "t=%r line=%r" % (F(ex, s, "t", "P", link), F(ex, s, "stmtline", "P", THIS)))
            ok(r, "true.WHILE_record_stays_on_the_stack", not writes(s, ("f", "loopbase", "P")), "", kind="frame")
        else:
            n["leave"] += 1
            U.discharge_valid(r, "false.loop_left_only_when_the_condition_is_0", hy, tm.eq(c, tm.num(0)))
            ok(r, "false.continues_behind_the_WEND", F(ex, s, "t", "P", link) is t_w and F(ex, s, "stmtline", "P", THIS) is sl_w, "t=%r line=%r" % (F(ex, s, "t", "P", link), F(ex, s, "stmtline", "P", THIS)))
            ok(r, "false.WHILE_record_dropped_and_released", F(ex, s, "loopbase", "P", THIS) is Fb(ex, s, "next", "P", top) and len(frees) == 1 and frees[0].args[0] is top, repr(writes(s, ("f", "loopbase", "P")))[:120])
    reach(r, "reach.condition_true_again", n["again"]); reach(r, "reach.condition_false", n["leave"])
    r.assumptions += ["library build (phreeqci_gui false)", "realexpr returns an arbitrary value and moves the position", "errormsg does not return (unit C17.errormsg)",
                      "the search loop is summarised behind it by its exit condition; its body carries the search.* obligations", "`WEND <expr>` (an extension) and WHILE without a condition are not under this contract"]
    return r


def is_eos_at_base(ex, s, t):
    kind = Fb(ex, s, "kind", "I", t)
    return tm.or_(tm.eq(t, NULLP), tm.eq(kind, tk("tokelse")), tm.eq(kind, tk("tokcolon")))


# --------------------------------------------------------------------------------------------------------------- IF

def unit_cmdif(twin=False):
    """IF c THEN a [ELSE b]: c is evaluated once and THEN is required.  c != 0: execution goes on behind THEN.  c == 0: the tokens behind THEN
    are skipped up to and including the ELSE that belongs to this IF (an inner IF raises, an ELSE lowers the nesting depth, from 0) or to the
    end of the line.  In both cases a line number at the position reached is a GOTO to that line; otherwise the statement at that position is
    executed next (elseflag).  ELSE met while executing the THEN part ends the line."""
    q = "PBasic::cmdif"
    fn = A.find_function(PB, q)
    r = U.new_unit("C17.cmdif.false_condition_skips_to_its_ELSE_or_the_end_of_the_line", PB, q, fn)
    loops = loops_of(fn)
    if len(loops) != 1 or loops[0]["kind"] != "DoStmt":
        raise Undecided("cmdif: expected exactly the ELSE scan loop")
    scan_iteration(r, q, loops[0], mkctx(), tk("tokif"), tk("tokelse") if not twin else tk("tokthen"), line_bound=True)
    snaps = {}
    f, ex, fin, info = run_fn(q, mkctx(), loop=snap_and_havoc(snaps))
    link = tm.sym("P0_LINK", "P")
    n = {"true": 0, "false": 0, "goto": 0, "stmt": 0}
    for s in alive(snaps.get(0, [])):
        re_ = evs(s, "realexpr"); rq = evs(s, "require")
        cnt = int_counters(ex, loops[0], info)
        ok(r, "false.nesting_depth_starts_at_0", len(cnt) >= 1 and all(s.locals.get(d) is ZI for d in cnt), "%s" % [s.locals.get(d) for d in cnt], kind="establishment")
        if len(re_) == 1 and len(rq) == 1:
            U.discharge_valid(r, "false.scan_only_when_the_condition_is_0", hyp(s), tm.eq(re_[0].result, tm.num(0)))
            ok(r, "false.scan_starts_behind_THEN", F(ex, s, "t", "P", link) is F0("next", "P", rq[0].args[2]), repr(F(ex, s, "t", "P", link)), kind="establishment")
    for s in alive(fin, ("run", "ret")):
        re_ = evs(s, "realexpr"); rq = evs(s, "require")
        names = [e.name.split("::")[-1] for e in s.events if e.name.split("::")[-1] in ("realexpr", "require")]
        if not ok(r, "condition_evaluated_once_then_THEN_required", names == ["realexpr", "require"] and prove(hyp(s), tm.eq(rq[0].args[0], tk("tokthen"))) and rq[0].args[2] is re_[0].snap, "%s" % names):
            continue
        skipped = any(e.name == "loop_exit" for e in s.events)
        c = re_[0].result
        hy = hyp(s)
        if skipped:
            n["false"] += 1
        else:
            n["true"] += 1
            U.discharge_valid(r, "true.THEN_part_entered_only_when_the_condition_is_not_0", hy, tm.not_(tm.eq(c, tm.num(0))))
        # decision at the position reached
        gt = [e for e in after(s) if e.name.endswith("cmdgoto")] if skipped else evs(s, "cmdgoto")
        t1 = Fb(ex, s, "t", "P", link) if skipped else (gt[0].args[-1] if gt else F(ex, s, "t", "P", link))
        if not skipped:
            ok(r, "true.position_is_right_behind_THEN", t1 is F0("next", "P", rq[0].args[2]), "")
        isnum = tm.and_(tm.not_(tm.eq(t1, NULLP)), tm.eq(Fb(ex, s, "kind", "I", t1) if skipped else F(ex, s, "kind", "I", t1), tk("toknum")))
        if gt:
            n["goto"] += 1
            U.discharge_valid(r, "goto.only_when_a_line_number_stands_at_the_position_reached", hy, isnum)
            ok(r, "goto.one_GOTO_at_the_position_reached", len(gt) == 1 and gt[0].args[0] is link and gt[0].args[-1] is t1 and F(ex, s, "stmtline", "P", THIS) is gt[0].snap, "%s" % [e.args for e in gt])
        else:
            n["stmt"] += 1
            ok(r, "statement.position_not_moved_after_the_scan", (not writes(s, ("f", "t", "P")) if skipped else F(ex, s, "t", "P", link) is t1) and not writes(s, ("f", "stmtline", "P")), "", kind="frame")
            U.discharge_valid(r, "statement.executed_next_only_when_no_line_number_stands_there", hy, tm.not_(isnum))
            U.discharge_valid(r, "statement.elseflag_set(so_that_exec_runs_the_statement_at_the_position)", hy, F(ex, s, "elseflag", "B", link))
    reach(r, "reach.condition_true", n["true"], 2); reach(r, "reach.condition_false", n["false"], 2); reach(r, "reach.goto_and_statement", min(n["goto"], n["stmt"]), 2)
    # ELSE reached while executing the THEN part
    q2 = "PBasic::cmdelse"
    f2, ex2, fin2, info2 = run_fn(q2, mkctx())
    ne = 0
    for s in alive(fin2, ("run", "ret")):
        ne += 1
        wt = writes(s, ("f", "t", "P"))
        ok(r, "else.reached_in_the_THEN_part_ends_the_line", len(wt) == 1 and wt[0][0] == (tm.sym("P0_LINK", "P"),) and wt[0][1] is NULLP and not [k for k in s.heap if k != ("f", "t", "P") and writes(s, k)], repr(wt))
    reach(r, "reach.cmdelse", ne)
    r.assumptions += ["realexpr returns an arbitrary value and moves the position", "require(k): unit C17.require", "cmdgoto: unit C17.cmdgoto (called, not inlined)", "the token list is not modified while scanning",
                      "the scan loop is summarised behind it by its exit condition; its body carries the scan.* obligations"]
    return r


def _last_pos(s):
    """token position left by the last parsing call (findvar / realexpr / ...) of the statement"""
    last = None
    for e in s.events:
        if e.name.split("::")[-1] in PARSERS:
            last = e
    return last.snap if last is not None else None


_base = base_arr
