"""C14: Phreeqc::list_components visits every numbered reactant of every kind and adds its element list (structural contract:
one block per reactant map, iterated begin..end, accumulated with a positive coefficient through the accessor that lists all
elements of the definition, independent of the amounts present)."""
from props.common import *
from vf.core import FAILED, DISCHARGED, UNDECIDED

PH = "src/phreeqcpp/Phreeqc.cpp"
Q = "Phreeqc::list_components"
# reactant map -> accessor of the element list that does not depend on the amount present
TABLE = {"Rxn_solution_map": "Get_totals", "Rxn_reaction_map": "Get_elementList", "Rxn_pp_assemblage_map": "Get_eltList", "Rxn_exchange_map": "Get_totals",
         "Rxn_surface_map": "Get_totals", "Rxn_gas_phase_map": "Get_totals", "Rxn_ss_assemblage_map": "Get_totals", "Rxn_kinetics_map": "Get_totals"}


# reactant map -> the call that (re)computes that element list from the definition; the stored list of a reactant that never took part in a
# calculation is empty or stale (cxxSSassemblage::totals is filled only by totalize), so reading it without this call drops its elements
REFRESH = {"Rxn_reaction_map": "reaction_calc", "Rxn_pp_assemblage_map": "totalize", "Rxn_exchange_map": "totalize", "Rxn_surface_map": "totalize",
           "Rxn_gas_phase_map": "totalize", "Rxn_ss_assemblage_map": "totalize", "Rxn_kinetics_map": "calc_dummy_kinetic_reaction_tally"}


def unit_list_components(twin=False):
    fn = A.find_function(PH, Q)
    r = U.new_unit("C14.list_components.every_defined_reactant_contributes", PH, Q, fn, kind="structural")
    table = dict(TABLE)
    if twin:
        table["Rxn_pp_assemblage_map"] = "Get_assemblage_totals"
    loops = [x for x in A.walk(fn) if x.get("kind") == "ForStmt"]
    seen = {}
    for lp in loops:
        cond = text_of(PH, lp["inner"][2]) if lp["inner"][2] else ""
        m = [k for k in table if cond.endswith("!=" + k + ".end()")]
        if not m:
            continue
        k = m[0]
        adds = [y for y in A.walk(lp["inner"][-1]) if y.get("kind") == "CXXMemberCallExpr" and strip(y["inner"][0]).get("name") == "add_extensive"]
        seen[k] = True
        if len(adds) != 1:
            r.add("%s.one_accumulation_per_entry" % k, FAILED, "syntactic", 0, "%d add_extensive calls" % len(adds)); continue
        a = adds[0]
        recv = text_of(PH, strip(strip(a["inner"][0])["inner"][0]))
        acc = [strip(y["inner"][0]).get("name") for y in A.walk(a["inner"][1]) if y.get("kind") == "CXXMemberCallExpr"]
        coef = text_of(PH, a["inner"][2])
        r.add("%s.adds_%s()" % (k, table[k]), DISCHARGED if acc == [table[k]] and recv == "accumulator" else FAILED, "syntactic", 0, "accumulator=%s accessor=%r" % (recv, acc))
        r.add("%s.positive_coefficient" % k, DISCHARGED if coef in ("1.0", "1", "1.") else FAILED, "syntactic", 0, coef)
        if k in REFRESH:
            calls = [(strip(y["inner"][0]).get("name"), y.get("range", {}).get("begin", {}).get("offset", -1)) for y in A.walk(lp["inner"][-1])
                     if y.get("kind") in ("CXXMemberCallExpr", "CallExpr") and y.get("inner")]
            a_off = a.get("range", {}).get("begin", {}).get("offset", -1)
            before = [n for n, off in calls if n == REFRESH[k] and 0 <= off < a_off]
            r.add("%s.element_list_recomputed_from_the_definition_before_it_is_read(%s)" % (k, REFRESH[k]), DISCHARGED if before else FAILED, "syntactic", 0, repr(calls)[:200])
        inc = text_of(PH, lp["inner"][3]) if lp["inner"][3] else ""
        # iteration starts at begin(): the declaration just before the loop
        r.add("%s.iterates_every_entry" % k, DISCHARGED if inc in ("cit++", "it++", "++cit", "++it") else FAILED, "syntactic", 0, inc)
    for k in table:
        if k not in seen:
            r.add("%s.visited" % k, FAILED, "syntactic", 0, "no loop over %s" % k)
    src_t = text_of(PH, fn)
    for k in table:
        r.add("%s.starts_at_begin" % k, DISCHARGED if ("=" + k + ".begin();for(;") in src_t else FAILED, "syntactic", 0, "")
    r.assumptions += ["each class's totalize()/accessor computes its element list (C02.System.totalize covers the sums)", "the primary-master filter at the end is not pinned"]
    return r
