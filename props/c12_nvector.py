"""C12: the element-wise kernels of CVODE's serial vector (nvector_serial.cpp) do what their names say for every element
(Engine A, CBMC on the functions cut from /repo; BOUNDED: vectors of length <= N, unwinding assertions on)."""
from vf import core, cbmc

NV = "src/phreeqcpp/nvector_serial.cpp"
H = core.VERIF + "/harness/A/c12_nvector.c"
PRE = """typedef double realtype; typedef long integertype; typedef int booleantype;
struct _N_VectorSerialContent { integertype length; realtype *data; };
typedef struct _N_VectorSerialContent *N_VectorSerialContent;
struct _generic_N_Vector { void *content; void *menv; };
typedef struct _generic_N_Vector *N_Vector;
#define NV_CONTENT_S(v) ( (N_VectorSerialContent)(v->content) )
#define NV_LENGTH_S(v) ( NV_CONTENT_S(v)->length )
#define NV_DATA_S(v) ( NV_CONTENT_S(v)->data )
#define ZERO 0.0
#define ONE 1.0
#define ABS(x) ((x) < 0 ? -(x) : (x))
"""
# kernels with floating-point multiplication / division / addition time out in the SAT back end (probed: > 900 s at N = 3): they are under Engine B below
KERNELS = ["N_VAbs_Serial", "N_VConst_Serial", "N_VMaxNorm_Serial", "N_VMin_Serial"]


def units(tier):
    n = 3 if tier == "quick" else 5
    U = []
    for fn in KERNELS:
        uid = "C12.nvector." + fn
        U.append((uid, lambda fn=fn, uid=uid: cbmc.extracted_unit(uid, [(NV, fn, None)], open(H).read(), "h_" + fn, prelude=PRE, rules=[],
                 defines=["VERIF_N=%d" % n], unwind=n + 2, function=fn, expect=("assertion",), timeout=900,
                 bounded={"vector_length_le": n, "how": "--unwind %d --unwinding-assertions" % (n + 2)},
                 checks=["--bounds-check", "--pointer-check"])))
    return U


# ---- Engine B: arithmetic kernels (iteration contracts over the reals; the pointer walk is part of the contract) ----
def unit_arith_kernels(twin=False):
    from props.common import A, U, B, tm, ctx, live, writes, entry_arr, local, text_of
    from vf.core import FAILED, DISCHARGED, UNDECIDED
    r = U.new_unit("C12.nvector.arithmetic_kernels_elementwise_and_in_lockstep", NV, "N_VInv_Serial", A.find_function(NV, "N_VInv_Serial"))
    X = lambda m, p: tm.select(m, p, tm.num(0, "I"))
    SPEC = {   # function -> value written to z as a function of the elements at the entry pointers and the scalar parameters
        "N_VInv_Serial": lambda x, y, P: tm.num(1) / x,
        "N_VProd_Serial": lambda x, y, P: x * y,
        "N_VDiv_Serial": lambda x, y, P: x / y,
        "N_VAddConst_Serial": lambda x, y, P: x + P("b"),
        "VSum_Serial": lambda x, y, P: x + y,
        "VDiff_Serial": lambda x, y, P: x - y,
        "VNeg_Serial": lambda x, y, P: tm.neg(x),
        "VScaleSum_Serial": lambda x, y, P: P("c") * (x + y),
        "VScaleDiff_Serial": lambda x, y, P: P("c") * (x - y),
        "VLin1_Serial": lambda x, y, P: P("a") * x + y,
        "VLin2_Serial": lambda x, y, P: P("a") * x - y,
        "VCopy_Serial": lambda x, y, P: x,
    }
    n = 0
    for q, spec in SPEC.items():
        try:
            fn = A.find_function(NV, q)
        except Exception:
            r.add("%s.found" % q, UNDECIDED, "syntactic", 0, ""); continue
        loops = [l for l in A.walk(fn) if l.get("kind") == "ForStmt"]
        k = len(loops) - 1          # the element loop is the last loop of these functions
        f, ex, its, info = U.run_loop_isolated(NV, q, k, ctx=ctx())
        for s in live(its, ("run", "cont")):
            n += 1
            mem0 = entry_arr(ex, s, ("m", "R"))
            ptr0 = {p: tm.sym("iter_" + p, "P") for p in ("xd", "yd", "zd")}
            w = writes(s, ("m", "R"))
            if len(w) != 1 or w[0][0] != (ptr0["zd"], tm.num(0, "I")):
                r.add("%s.writes_exactly_the_current_element_of_z" % q, FAILED, "symex", 0, repr(w)[:160], kind="frame"); continue
            P = lambda name: tm.sym("L_" + name, "R")
            want = spec(X(mem0, ptr0["xd"]), X(mem0, ptr0["yd"]), P)
            if twin and q == "N_VInv_Serial":
                want = X(mem0, ptr0["xd"])
            U.discharge_eq_real(r, "%s.element_value" % q, list(s.pc), w[0][1], want)
            for p in ("xd", "yd", "zd"):
                if p in info["names"] and info["names"][p] in s.locals and p in text_of(NV, fn):
                    v = s.locals[info["names"][p]]
                    if isinstance(v, tuple) or v is tm.sym("L_" + p, "P"):
                        continue
                    ok = B.z3_prove(list(s.pc), tm.eq(v, ptr0[p] + tm.num(1, "I")))[0] == "proved"
                    r.add("%s.%s_advances_by_one_element" % (q, p), DISCHARGED if ok else FAILED, "z3", 0, repr(v)[:80])
    r.add("reach.kernels", DISCHARGED if n >= 10 else UNDECIDED, "symex", 0, "%d" % n, kind="vacuity")
    r.assumptions += ["doubles as reals", "x, y, z do not alias except element-wise in place (the values are read before the write of the same index)",
                      "the dispatch on the scalar in N_VLinearSum / N_VScale and the reductions (dot product, norms) are not under this unit"]
    return r
