"""C01 (history clause: a re-defined species, phase or named expression starts from a clean record): the record initialisers of
structures.cpp (s_init, phase_init, logk_init) give EVERY scalar and array member of the record a value that does not depend on
what the record held before — generated obligations, one per member (same machinery idea as C07's reset completeness)."""
import re
from props.common import *
from vf.core import FAILED, DISCHARGED, UNDECIDED

ST = "src/phreeqcpp/structures.cpp"
HDR = "global_structures.h"
RECORDS = [("s_init", "species", "s_ptr"), ("phase_init", "phase", "phase_ptr"), ("logk_init", "logk", "logk_ptr")]
# members that enter log K(T,P), the mass-action equation or the sums of C01 (the property); other members an initialiser leaves
# untouched (transport / viscosity / density parameters) are listed in the unit's notes, not demanded
RELEVANT = {"species": {"logk", "lk", "z", "alk", "carbon", "co2", "h", "o", "gfw", "equiv", "original_units", "original_deltav_units", "check_equation",
                        "mole_balance", "primary", "secondary", "type", "in", "lg", "lm", "la", "moles", "dha", "dhb", "a_f", "gflag", "name"},
            "phase": {"logk", "lk", "original_units", "original_deltav_units", "delta_v", "check_equation", "type", "in", "name", "formula", "t_c", "p_c", "omega"},
            "logk": {"log_k", "log_k_original", "lk", "name"}}


def unit_record_init(fname, cls, par, twin=False, relevant=None, uid=None):
    q = "Phreeqc::" + fname
    fn = A.find_function(ST, q)
    r = U.new_unit(uid or "C01.%s.redefinition_starts_from_a_clean_record" % fname, ST, q, fn)
    REL = relevant if relevant is not None else RELEVANT[cls]
    fields = A.class_fields(HDR, cls)
    if twin:
        fields = fields + [("verif_phantom_member", "double")]
    t = text_of(ST, fn)
    body = A.body_of(fn).get("inner", [])
    # scalar stores at top level:  par->member = <expr not reading par>
    scalars = {}
    for st in body:
        if st.get("kind") == "BinaryOperator" and st.get("opcode") == "=":
            lhs = text_of(ST, st["inner"][0]); rhs = text_of(ST, st["inner"][1])
            m = re.match(r"^%s->(\w+)$" % par, lhs)
            if m:
                scalars[m.group(1)] = rhs
    # array loops:  for (i = 0; i < N; i++) { par->member[i] = c; }
    arrays = {}
    for st in body:
        if st.get("kind") == "ForStmt":
            init, cond = text_of(ST, st["inner"][0]), text_of(ST, st["inner"][2])
            mb = re.findall(r"%s->(\w+)\[(\w+)\]=([^;}]+)" % par, text_of(ST, st["inner"][-1]))
            mi = re.match(r"^(?:int)?(\w+)=0;?$", init); mc = re.match(r"^(\w+)<(\w+)$", cond)
            if mi and mc and mi.group(1) == mc.group(1):
                for name, idx, val in mb:
                    if idx == mi.group(1):
                        arrays[name] = (mc.group(2), val)
    consts = {}
    n = 0
    skipped = []
    for name, ty in fields:
        ty = ty.strip()
        if name not in REL and name != "verif_phantom_member":
            if name not in scalars and name not in arrays and not (ty.startswith("std::") or ty.startswith("cxx") or ty in ("CReaction",)):
                skipped.append(name)
            continue
        am = re.match(r"^(.*)\[(\d+)\]$", ty)
        if am:
            n += 1
            if name not in arrays:
                r.add("%s.array_member_cleared" % name, FAILED, "syntactic", 0, "no loop assigns %s->%s[i] over its whole extent" % (par, name)); continue
            bound, val = arrays[name]
            if not bound.isdigit():
                if bound not in consts:
                    try:
                        consts[bound] = A.enum_values_compiled(HDR, [bound])[bound]
                    except Exception:
                        consts[bound] = None
                bv = consts[bound]
            else:
                bv = int(bound)
            ok = bv is not None and int(bv) >= int(am.group(2)) and par not in val
            r.add("%s.array_member_cleared_over_its_whole_extent(%s)" % (name, am.group(2)), DISCHARGED if ok and int(bv) == int(am.group(2)) else FAILED, "syntactic", 0, "loop bound %s = %s, value %s" % (bound, bv, val))
        elif ty.startswith("std::") or ty.startswith("class ") and not ty.endswith("*") or ty in ("CReaction", "cxxChemRxn") or ty.startswith("cxx"):
            continue            # object members: (re)constructed or cleared through their own interface; not decided here
        else:
            n += 1
            if name in scalars and par + "->" not in scalars[name]:
                r.add("%s.assigned_a_state_independent_value" % name, DISCHARGED, "syntactic", 0, "= %s" % scalars[name])
            elif name in scalars:
                r.add("%s.assigned_a_state_independent_value" % name, FAILED, "syntactic", 0, "value read from the old record: %s" % scalars[name])
            else:
                r.add("%s.assigned_a_state_independent_value" % name, FAILED, "syntactic", 0, "member %s of class %s is not assigned by %s" % (name, cls, fname))
    if skipped:
        r.notes.append("members outside the property's scope that %s leaves as they were: %s" % (fname, ", ".join(skipped)))
    r.add("reach.members", DISCHARGED if n >= 3 else UNDECIDED, "syntactic", 0, "%d scalar/array members of class %s" % (n, cls), kind="vacuity")
    r.proved_kind = "structural"
    r.assumptions += ["object members (std::vector, std::string, CReaction ...) are outside this unit", "statements are matched at the top level of the initialiser (no conditional initialisation)"]
    return r
