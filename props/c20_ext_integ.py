"""C20 extension, integrate.cpp: the starting composition of an explicit diffuse layer and the water it holds.

* calc_init_g (Borkovec-Westall integration): first estimate of the excess factor of charge z on a charge record,
      g0(z) = 2 alpha sqrt(mu) (X^(z/2) - 1) A g / F,   alpha = sqrt(eps eps0 R T / 2) (with the two factors 1000 of the unit system),
      X = exp(-F psi / R T) = a_psi^-2 ... = exp(-2 ln(10) la);  no surface (grams <= 0): 0;  -only_counter_ions: a negative g is 0.
* calc_init_donnan: g(z) = (W_dl / W_aq) (exp(-z psi_D) - 1), complete exclusion (g = -W_dl/W_aq) of co-ions with -only_counter_ions.
* initial_surface_water: water of a layer = area * thickness (1000 kg/m3) for a fixed thickness; for -debye_lengths the layers share
  the layer water in proportion to their areas; on return  W_bulk = W_aq + W_layers  (nothing is created or lost).

The per-record loops are executed from the function's entry (iteration contract for an unknown of type SURFACE_CB); their inner loops
are iteration contracts in the context reached, so no local is named."""
from props.c20_ext_util import *
from props.c20_ext_edl import _ctx as _edl_ctx, SPECIESDL

INTEG = "src/phreeqcpp/integrate.cpp"


def _ctx(extra=()):
    c = _edl_ctx(extra=set(extra) | {"Get_surface_charges"})
    inline_accessors(c, SURFCHARGE_TU, "cxxSpeciesDL", SPECIESDL)
    return c


class _inner(object):
    """make entry_arr / writes work for the states of an inner iteration recorded by concrete_type_iteration"""
    def __init__(self, ex, rec):
        self.ex, self.rec = ex, rec
    def __enter__(self):
        self.saved = (getattr(self.ex, "iter_written", None), getattr(self.ex, "iter_entry_arrays", None))
        self.ex.iter_written, self.ex.iter_entry_arrays = self.rec[1], self.rec[2]
        return self.rec[0]
    def __exit__(self, *a):
        self.ex.iter_written, self.ex.iter_entry_arrays = self.saved


def _cur(ex, s, name, sort, obj=THIS):
    """value of a field in the state at the END of what was executed (stores folded)"""
    return fld(ex, s, name, sort, obj)


def _calls(node, callee):
    for y in A.walk(node):
        if y.get("kind") in ("CXXMemberCallExpr", "CallExpr") and y.get("inner"):
            m = strip(y["inner"][0])
            if m.get("kind") == "MemberExpr" and m.get("name") == callee:
                return True
            if m.get("kind") == "DeclRefExpr" and m.get("referencedDecl", {}).get("name") == callee:
                return True
    return False


def _loops_with(fn, rel, callee):
    return [k for k, lp in enumerate(loops_of(fn)) if _calls(lp, callee)]


def _charge_of(s):
    fc = [e for e in s.events if e.name.split("::")[-1] == "Find_charge"]
    return fc[-1].result if fc else None


# ------------------------------------------------------------------------------------------------ calc_init_g
def unit_calc_init_g(twin=False):
    q = "Phreeqc::calc_init_g"
    fn = A.find_function(INTEG, q)
    r = U.new_unit("C20.calc_init_g.first_estimate_of_the_excess_factors", INTEG, q, fn)
    ks = _loops_with(fn, INTEG, "Set_g")
    if len(ks) != 2:
        raise Undecided("calc_init_g: expected the record loop and the species loop around Set_g, found %r" % ks)
    outer, inner = ks
    c = _ctx()
    fn_, ex, its, info = concrete_type_iteration(INTEG, q, int(K("SURFACE_CB")), c, loop=outer, inner_iter={inner})
    R_, FC, E0 = KR("R_KJ_DEG_MOL"), KR("F_C_MOL"), KR("EPSILON_ZERO")
    HPLUS = KI("HPLUS")
    seen = set()
    for rec in info["inner_iters"].get(inner, []):
        with _inner(ex, rec) as res:
            for s in live(res, ("run", "cont")):
                ch = _charge_of(s)
                if ch is None:
                    r.add("record.charge_record_looked_up", FAILED, "symex", 0, ""); continue
                sp = vec_elem(ex, s, "s_x", tm.sym("iter_" + induction_name(loops_of(fn)[inner]), "I"))
                ty, z = fld0(ex, s, "type", "I", sp), fld0(ex, s, "z", "R", sp)
                gmap = tm.app("call:Get_g_map", (ch,), "P")
                key = ex.ctx.stl.mkey(ex, z)
                slot = ex.ctx.stl.mobj(gmap, key)
                had = tm.select(entry_arr(ex, s, ("m2", "#mhas", "B", key.sort)), gmap, key)
                assigns = [e for e in U.iter_events(s) if e.name.endswith("cxxSurfDL::operator=")]
                # potential and constants of this record, as the enclosing iteration set them
                xj = x_elem(ex, s, loc(info, s, info["induction"]))
                m0 = tm.select(entry_arr(ex, s, ("m", "P")), tm.select(entry_arr(ex, s, ("f", "#vdata", "P")), tm.app("fld:master", (xj,), "P")), tm.num(0, "I"))
                la = fld0(ex, s, "la", "R", fld0(ex, s, "s", "P", m0))
                ln10, eps, tk, mu = (fld0(ex, s, n, "R") for n in ("LOG_10", "eps_r", "tk_x", "mu_x"))
                X = tm.app("exp", (tm.num(-2) * la * ln10,), "R")
                half = tm.num("0.5") if not twin else tm.num(1)
                alpha = tm.app("sqrt", (eps * E0 * (R_ * tm.num(1000)) * tm.num(1000) * tk * half,), "R")
                grams, area = fld0(ex, s, "grams", "R", ch), fld0(ex, s, "specific_area", "R", ch)
                g0 = tm.num(2) * alpha * tm.app("sqrt", (mu,), "R") * (tm.app("pow", (X, z / tm.num(2)), "R") - tm.num(1)) * grams * area / FC
                for hy, aq in cases(list(s.pc), tm.le(ty, HPLUS)):
                    if not aq:
                        seen.add("other_species")
                        r.add("species.not_aqueous:nothing_set", DISCHARGED if not assigns and not writes(s, ("f", "g_moles", "R")) else FAILED, "symex", 0, "")
                        continue
                    # the amount of the species held by the layer restarts at 0
                    wm = writes(s, ("f", "g_moles", "R"))
                    dl_map = tm.select(entry_arr(ex, s, ("f", "#vdata", "P")), tm.app("fld:s_diff_layer", (THIS,), "P")) + fld0(ex, s, "number", "I", sp)
                    names = [e for e in ev_named(s, "Get_name") if e.recv is ch]
                    ok = bool(wm) and bool(names) and all(ix[0] is ex.ctx.stl.mobj(dl_map, ex.ctx.stl.mkey(ex, names[0].result)) and tm.isnum(v) and v.args[0] == 0 for ix, v in wm)
                    r.add("species.aqueous:layer_amount_of_(species,record)_restarts_at_0", DISCHARGED if ok else FAILED, "symex", 0, repr(wm)[:160])
                    for h, present in cases(hy, had):
                        if present:
                            seen.add("known_charge")
                            r.add("charge_already_estimated:kept", DISCHARGED if not assigns else FAILED, "symex", 0, "")
                            continue
                        if len(assigns) != 1 or assigns[0].recv is not slot:
                            r.add("new_charge.estimate_stored_under_the_species'_charge_of_this_record", FAILED, "symex", 0, repr([e.recv for e in assigns])[:200]); continue
                        r.add("new_charge.estimate_stored_under_the_species'_charge_of_this_record", DISCHARGED, "symex", 0, "")
                        tmp = assigns[0].args[0]
                        gv, dgv = fld(ex, s, "g", "R", tmp), fld(ex, s, "dg", "R", tmp)
                        oc = [e.result for e in ev_named(s, "Get_only_counter_ions")]
                        for h2, pos in cases(h, tm.lt(tm.num(0), grams)):
                            if not pos:
                                seen.add("no_surface")
                                U.discharge_valid(r, "new_charge.no_surface:g==0,dg==-z", h2, tm.and_(tm.eq(gv, tm.num(0)), tm.eq(dgv, tm.neg(z))))
                                continue
                            if not oc:
                                r.add("new_charge.only_counter_ions_option_consulted", FAILED, "symex", 0, ""); continue
                            for h3, excl in cases(h2, tm.and_(tm.to_bool(oc[-1]), tm.lt(g0, tm.num(0)))):
                                if excl:
                                    seen.add("co_ion_excluded")
                                    U.discharge_valid(r, "new_charge.only_counter_ions:negative_excess_set_to_0", h3, tm.and_(tm.eq(gv, tm.num(0)), tm.eq(dgv, tm.num(0))))
                                else:
                                    seen.add("estimate")
                                    U.discharge_valid(r, "new_charge.g==2*alpha*sqrt(mu)*(X^(z/2)-1)*A*g/F,alpha=sqrt(eps*eps0*R*T/2),X=exp(-2*ln10*la)", h3, tm.eq(gv, g0))
                                    U.discharge_valid(r, "new_charge.dg==-z", h3, tm.eq(dgv, tm.neg(z)))
    want = {"other_species", "known_charge", "no_surface", "co_ion_excluded", "estimate"}
    r.add("reach.all_cases", DISCHARGED if seen == want else UNDECIDED, "symex", 0, repr(sorted(seen)), kind="vacuity")
    r.assumptions += ["doubles as reals; exp / sqrt / pow as real functions", "Find_charge deterministic; std::map operator[] / find as in the STL model; cxxSurfDL assignment copies the record",
                      "the per-record loop is entered for unknowns of type SURFACE_CB (other unknowns are skipped by the loop's first statement: checked by reach)"]
    return r


# ------------------------------------------------------------------------------------------------ calc_init_donnan
def unit_calc_init_donnan(twin=False):
    q = "Phreeqc::calc_init_donnan"
    fn = A.find_function(INTEG, q)
    r = U.new_unit("C20.calc_init_donnan.boltzmann_excess_and_co_ion_exclusion", INTEG, q, fn)
    ks = _loops_with(fn, INTEG, "Set_g")
    if len(ks) != 2:
        raise Undecided("calc_init_donnan: expected the record loop and the charge-group loop around Set_g, found %r" % ks)
    outer, inner = ks
    c = _ctx(extra={"calc_psi_avg"})
    ev = surface_enums(c)
    fn_, ex, its, info = concrete_type_iteration(INTEG, q, int(K("SURFACE_CB")), c, loop=outer, inner_iter={inner})
    R_, FC, E0 = KR("R_KJ_DEG_MOL"), KR("F_C_MOL"), KR("EPSILON_ZERO")
    CD = tm.num(ev["CD_MUSIC"], "I")
    seen = set()
    for rec in info["inner_iters"].get(inner, []):
        with _inner(ex, rec) as res:
            for s in live(res, ("run", "cont")):
                ch = _charge_of(s)
                if ch is None:
                    r.add("record.charge_record_looked_up", FAILED, "symex", 0, ""); continue
                jv = loc(info, s, info["induction"])
                xj = x_elem(ex, s, jv)
                want = fld0(ex, s, "surface_charge", "P", xj)
                fcs = [e for e in s.events if e.name.split("::")[-1] == "Find_charge"]
                r.add("record.charge_record==Find_charge(x[j]->surface_charge)", DISCHARGED if any(want in tm.subterms(a) for a in fcs[-1].args) else FAILED, "symex", 0, "")
                wg = writes(s, ("f", "g", "R"))
                if not wg:
                    r.add("group.g_stored", FAILED, "symex", 0, "no store to g"); continue
                (slot,), gv = wg[-1]
                # the charge of the group: the key of the iterated map entry
                zs = sorted({t for t in tm.subterms(slot) if t.op == "select" and "first:" in repr(t.args[0])[:24]}, key=repr)
                if len(zs) != 1:
                    r.add("group.charge_is_the_map_key", FAILED, "symex", 0, repr(slot)[:200]); continue
                z = zs[0]
                gmap = tm.app("call:Get_g_map", (ch,), "P")
                r.add("group.stored_under_its_charge_in_this_record's_g_map", DISCHARGED if slot is ex.ctx.stl.mobj(gmap, ex.ctx.stl.mkey(ex, z)) and all(ix[0] is slot for ix, _ in wg) else FAILED, "symex", 0, repr(slot)[:160])
                wdl, waq = fld0(ex, s, "mass_water", "R", ch), fld0(ex, s, "mass_water_aq_x", "R")
                ratio = wdl / waq
                pa = [e for e in s.events if e.name.split("::")[-1] == "calc_psi_avg"]
                if not pa:
                    r.add("group.donnan_potential_from_calc_psi_avg", FAILED, "symex", 0, ""); continue
                r.add("group.donnan_potential_is_that_of_this_record", DISCHARGED if pa[-1].args[0] is ch else FAILED, "symex", 0, repr(pa[-1].args[0])[:100])
                psi = pa[-1].result
                # sign of the surface charge: A f_sinh sinh(F psi0 / 2RT) / F with the record's potential (plane 2 for CD-MUSIC, halved)
                ty = tm.app("call:Get_type", (tm.app("call:Get_surface_ptr", (tm.app("fld:use", (THIS,), "P"),), "P"),), "I")
                def la_of(xe):
                    m0 = tm.select(entry_arr(ex, s, ("m", "P")), tm.select(entry_arr(ex, s, ("f", "#vdata", "P")), tm.app("fld:master", (xe,), "P")), tm.num(0, "I"))
                    return fld0(ex, s, "la", "R", fld0(ex, s, "s", "P", m0))
                ln10 = fld0(ex, s, "LOG_10", "R")
                # f_sinh is evaluated once at the function's entry (eps_r, T, mu as they are then)
                eps, tk, mu = (tm.select(tm.sym("H0.%s:R" % n, ("A", "P", "R")), THIS) for n in ("eps_r", "tk_x", "mu_x"))
                oc = [e.result for e in s.events if e.name.split("::")[-1] == "Get_only_counter_ions"]
                for hy, cd in cases(list(s.pc), tm.eq(ty, CD)):
                    fpsi = la_of(x_elem(ex, s, jv + tm.num(2, "I"))) * ln10 / tm.num(2) if cd else la_of(xj) * ln10
                    fsinh = tm.app("sqrt", (tm.num(8000) * eps * E0 * (R_ * tm.num(1000)) * tk * mu,), "R")
                    qs = fld0(ex, s, "specific_area", "R", ch) * fld0(ex, s, "grams", "R", ch) * fsinh * tm.app("sinh", (fpsi,), "R") / FC
                    if not oc:
                        r.add("group.only_counter_ions_option_consulted", FAILED, "symex", 0, ""); continue
                    same_sign = tm.or_(tm.and_(tm.lt(qs, tm.num(0)), tm.lt(z, tm.num(0))), tm.and_(tm.lt(tm.num(0), qs), tm.lt(tm.num(0), z)))
                    for h, co in cases(hy, tm.and_(tm.to_bool(oc[-1]), same_sign)):
                        if co:
                            seen.add("co_ion")
                            U.discharge_valid(r, "group.only_counter_ions:co_ions_excluded(g==-W_dl/W_aq)", h, tm.eq(gv, tm.neg(ratio)))
                        else:
                            seen.add("boltzmann")
                            zz = tm.neg(z) if not twin else z
                            U.discharge_valid(r, "group.g==(W_dl/W_aq)*(exp(-z*psi_D)-1)", h, tm.eq(gv, ratio * (tm.app("exp", (zz * psi,), "R") - tm.num(1))))
                seen.add("cd" if sat(list(s.pc) + [tm.eq(ty, CD)]) else "not_cd")
    want = {"co_ion", "boltzmann", "cd"}
    r.add("reach.all_cases", DISCHARGED if want <= seen else UNDECIDED, "symex", 0, repr(sorted(seen)), kind="vacuity")
    r.assumptions += ["doubles as reals; exp / sinh / sqrt as real functions", "calc_psi_avg(record, ...) returns the Donnan potential F psi_D / RT of the record (not under this contract)",
                      "Find_charge deterministic; std::map iteration visits every charge group once (STL model)", "the derivative entry dg is not under contract"]
    return r


# ------------------------------------------------------------------------------------------------ initial_surface_water
def unit_initial_surface_water(twin=False):
    q = "Phreeqc::initial_surface_water"
    fn = A.find_function(INTEG, q)
    r = U.new_unit("C20.initial_surface_water.layer_water_by_area_and_water_partition", INTEG, q, fn)
    lps = loops_of(fn)
    setters = _loops_with(fn, INTEG, "Set_mass_water")
    c = _ctx(extra={"Get_mass_water"})
    ev = surface_enums(c)
    SCB = int(K("SURFACE_CB"))
    seen = set()
    # (a) every loop over the unknowns: what a charge record receives / contributes
    for k in range(len(lps)):
        accs = accumulators(lps[k])
        cc = _ctx()
        fn_, ex, its, inf = U.run_loop_isolated(INTEG, q, k, ctx=cc, prepare=None)
        ind = induction_name(lps[k])
        for s in live(its, ("run", "cont")):
            xi = x_elem(ex, s, loc(inf, s, ind))
            ty = fld0(ex, s, "type", "I", xi)
            ch = _charge_of(s)
            wm = writes(s, ("f", "mass_water", "R"))
            for hy, cb in cases(list(s.pc), tm.eq(ty, tm.num(SCB, "I"))):
                if not cb:
                    same = all(loc(inf, s, a) is tm.sym("iter_" + a, "R") for a in accs)
                    r.add("loop%d.other_unknowns_are_skipped" % k, DISCHARGED if not wm and same else FAILED, "symex", 0, "")
                    continue
                if ch is None:
                    r.add("loop%d.charge_record_looked_up" % k, FAILED, "symex", 0, ""); continue
                want = fld0(ex, s, "surface_charge", "P", xi)
                fcs = [e for e in U.iter_events(s) if e.name.split("::")[-1] == "Find_charge"]
                r.add("loop%d.charge_record==Find_charge(x[i]->surface_charge)" % k, DISCHARGED if any(want in tm.subterms(a) for a in fcs[-1].args) else FAILED, "symex", 0, "")
                ag = fld0(ex, s, "specific_area", "R", ch) * fld0(ex, s, "grams", "R", ch)
                sp = tm.app("call:Get_surface_ptr", (tm.app("fld:use", (THIS,), "P"),), "P")
                if not wm:
                    # the area sum
                    if len(accs) == 1:
                        seen.add("area_sum")
                        U.discharge_eq_real(r, "area_sum+=A*g_of_the_record", hy, loc(inf, s, accs[0]), tm.sym("iter_" + accs[0], "R") + ag)
                        check_accumulator_init(r, fn, INTEG, lps[k], accs[0], "area_sum")
                        r._area = accs[0]
                    continue
                (obj,), val = wm[-1]
                r.add("loop%d.water_stored_on_the_record" % k, DISCHARGED if obj is ch else FAILED, "symex", 0, repr(obj)[:100])
                if tm.isnum(val) and val.args[0] == 0:
                    seen.add("no_area")
                    continue
                thick = [e.result for e in ev_named(s, "Get_thickness")]
                if thick:
                    seen.add("fixed_thickness")
                    kk = tm.num(1000) if not twin else tm.num(100)
                    U.discharge_eq_real(r, "fixed_thickness.W_dl==A*g*thickness*1000", hy, val, ag * thick[-1] * kk)
                    if len(accs) == 1:
                        U.discharge_eq_real(r, "fixed_thickness.W_layers+=W_dl", hy, fld(ex, s, "mass_water_surfaces_x", "R"), fld0(ex, s, "mass_water_surfaces_x", "R") + val)
                    else:
                        tot = fld(ex, s, "mass_water_surfaces_x", "R")
                        U.discharge_eq_real(r, "fixed_thickness.W_layers+=W_dl", hy, tot, fld0(ex, s, "mass_water_surfaces_x", "R") + val)
                else:
                    seen.add("debye_share")
                    area = getattr(r, "_area", None)
                    if area is None:
                        r.add("debye_lengths.area_sum_identified", UNDECIDED, "symex", 0, ""); continue
                    U.discharge_eq_real(r, "debye_lengths.W_dl==W_layers*(A*g)/sum(A*g)", hy, val, fld0(ex, s, "mass_water_surfaces_x", "R") * ag / tm.sym("L_" + area, "R"))
    # (b) whole function: the partition on return, and the fixed-thickness total restarts at 0
    fn_, ex, fin, info = U.run_function(INTEG, q, ctx=_ctx())
    n = 0
    for s in live(fin, ("ret",)):
        n += 1
        b, a, w = (fld(ex, s, nm, "R") for nm in ("mass_water_bulk_x", "mass_water_aq_x", "mass_water_surfaces_x"))
        U.discharge_valid(r, "return.W_bulk==W_aq+W_layers", list(s.pc), tm.eq(b, a + w))
    r.add("reach.returns", DISCHARGED if n else UNDECIDED, "symex", 0, "%d" % n, kind="vacuity")
    # the fixed-thickness sum starts from 0: the loop that accumulates member mass_water_surfaces_x
    fixed = [k for k in setters if any(y.get("kind") == "CompoundAssignOperator" and text_of(INTEG, y["inner"][0]).endswith("mass_water_surfaces_x") for y in A.walk(lps[k]))]
    if len(fixed) == 1:
        check_accumulator_init(r, fn, INTEG, lps[fixed[0]], "mass_water_surfaces_x", "fixed_thickness")
    else:
        r.add("fixed_thickness.accumulating_loop_found", UNDECIDED, "syntactic", 0, repr(fixed))
    want = {"area_sum", "no_area", "fixed_thickness", "debye_share"}
    r.add("reach.all_loops", DISCHARGED if seen == want else UNDECIDED, "symex", 0, repr(sorted(seen)), kind="vacuity")
    r.assumptions += ["doubles as reals", "the geometric split of bulk water into free and layer water for -debye_lengths (pore radius, ddl_limit, damping) is not under contract: only the shares of the records and the partition on return",
                      "member mass_water_surfaces_x is named (member, not a local)", "Find_charge deterministic"]
    return r
