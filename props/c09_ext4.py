"""C09 (fourth wave): what is computed and stored does not depend on which output sinks are switched on.

print_all() is skipped as a whole when no output sink is on (pr.all == FALSE), so every report writer it calls must only READ the model:
one unit per writer with the frame obligation "no store whose base object is not a local of the writer, no call that can change the
model".  The frame is computed on the typed clang AST of the real function: every store site (assignment, compound assignment, ++/--,
assigning operator call) is resolved to its BASE OBJECT (a local / a member of the engine through `this` / a record reached through a
pointer, with the definitions of local pointers and references followed), every call site to its callee declaration and receiver.
Nothing is matched as statement text.  Intentional exceptions are listed per writer with the reason read from the code that consumes the
value; an exception that is no longer used is reported (the table may not rot into a blanket allow-list)."""
import re
from props.common import *
from vf.core import FAILED, DISCHARGED, UNDECIDED

PRINT = "src/phreeqcpp/print.cpp"
ISO = "src/phreeqcpp/isotopes.cpp"

WRITERS = ["print_using", "print_mix", "print_reaction", "print_kinetics", "print_gas_phase", "print_pp_assemblage", "print_ss_assemblage",
           "print_surface", "print_exchange", "print_initial_solution_isotopes", "print_isotope_ratios", "print_isotope_alphas", "print_totals",
           "print_eh", "print_species", "print_alkalinity", "print_saturation_indices"]
# sub-writers called by the writers (same obligation, analysed as part of the caller's unit)
SUBWRITERS = ["print_diffuse_layer", "print_surface_cd_music", "print_centered"]

# ---- what a writer may call -----------------------------------------------------------------------------------------------------
SINKS = {"output_msg", "sformatf", "log_msg", "screen_msg", "error_msg", "warning_msg", "status", "print_centered"}
PURE_C = {"exp", "log", "log10", "fabs", "floor", "ceil", "pow", "sqrt", "strcmp", "strlen", "strncmp", "strstr", "strchr", "isupper", "islower", "toupper", "tolower",
          "under", "Rxn_find", "abs", "min", "max", "sinh", "cosh", "atoi", "atof", "pthread_mutex_lock", "pthread_mutex_unlock"}
# C / utility routines that write through their FIRST argument (the destination must be a local of the writer); replace(a, b, target) writes its third
DEST_ARG = {"snprintf": 0, "sprintf": 0, "strcpy": 0, "strcat": 0, "strncpy": 0, "strcpy_safe": 0, "strcat_safe": 0, "memcpy": 0, "memset": 0, "qsort": 0,
            "replace": 2, "copy_token": 0, "str_tolower": 0, "squeeze_white": 0}
# engine routines the assignment names as read-only calculators / look-ups (bodies not under this unit; named in the assumptions)
CALCULATORS = re.compile(r"^(calc_\w+|k_calc|viscosity|saturation_ratio|\w+_bsearch|\w+_search|sum_diffuse_layer|diff_layer_total|total|activity|molality|"
                         r"find_\w+|species_list_compare\w*|equi_phase|system_total\w*|get_\w+|Get_\w+)$")
STD_READ = {"size", "begin", "end", "rbegin", "rend", "c_str", "front", "back", "find", "empty", "length", "at", "count", "data", "substr", "compare", "str",
            "operator[]", "operator->", "operator*", "operator!=", "operator==", "operator<", "operator++", "operator--", "operator<<", "first", "second"}
STD_WRITE = {"clear", "resize", "push_back", "erase", "insert", "assign", "append", "reserve", "pop_back", "swap", "operator=", "operator+=", "sort"}
ACCESSOR = re.compile(r"^(Get_\w+|get_\w+|Find_\w+|Vectorize|Is_\w+)$")

# ---- intentional exceptions, justified from the code that CONSUMES the value -------------------------------------------------------
_R = {
    "lm": "s_h2o->lm := s_h2o->la: water's log molality slot is overwritten from la by the solver (gammas / reset) before any residual reads it; print_all stores the same value itself",
    "error_string": "scratch text handed to error_msg / warning_msg in the next statement",
    "elts": "scratch element list (elt_list / count_elts / paren_count): every user sets count_elts = 0 before filling it, as the writer does",
    "logk": "rxn.logk[delta_v] is a cache filled from calc_delta_v(rxn) - logk[vm0]: the solver's k_temp() refills it the same way before every use",
    "mu": "mu_terms_in_logk is only ever raised to true, and k_temp() raises it under the same condition (a non-zero delta_v)",
}
EXEMPT = {
    "print_mix": {("store", "input_error"): "error counter on the 'solution of the mix not found' path: the run is abandoned, no result is produced"},
    "print_kinetics": {("store", "kin_time_x"): "kin_time_x is read only by the report writers (print_kinetics, punch_kinetics) and is assigned by run_reactions "
                                                "(kinetics.cpp: kin_time_x = kin_time) before every integration; the value stored is timest / advection_kin_time, themselves inputs"},
    "print_eh": {("store", "tk_x"): "tk_x := tc_x + 273.15 re-establishes the invariant every producer of tc_x keeps; no new information is stored",
                 ("call", "rewrite_master_to_secondary"): "writes only the scratch reaction trxn (count_trxn reset inside) which every consumer rebuilds before use",
                 ("call", "trxn_swap"): "permutes the scratch reaction trxn just built by rewrite_master_to_secondary"},
    "print_reaction": {("call", "element_store"): "appends to the scratch element list elt_list[count_elts++] only; " + _R["elts"]},
    "print_pp_assemblage": {("store", "logk"): _R["logk"], ("store", "mu_terms_in_logk"): _R["mu"],
                            ("store", "moles"): "x[j]->moles clamped at 0 from below: acts only on a negative amount of a pure phase, i.e. within the solver tolerance of 0 (NOT machine checked; a candidate for a closer look)"},
    "print_surface": {("store", "lm"): _R["lm"], ("store", "error_string"): _R["error_string"], ("store", "count_elts"): _R["elts"], ("store", "paren_count"): _R["elts"],
                      ("call", "add_elt_list"): _R["elts"], ("call", "elt_list_combine"): _R["elts"],
                      ("call", "map::operator[]"): "charge_ptr->Get_g_map()[z]: the key z was inserted for every species charge by the diffuse-layer set-up (a missing key would add a default entry; not machine checked)",
                      ("call", "surface_get_psi_master"): "look-up of the potential master species by name (returns a pointer, stores nothing)"},
    "print_exchange": {("store", "lm"): _R["lm"], ("store", "error_string"): _R["error_string"]},
    "print_species": {("store", "lm"): _R["lm"]},
    "print_saturation_indices": {("store", "logk"): _R["logk"], ("store", "mu_terms_in_logk"): _R["mu"],
                                 ("store", "pr_in"): "pr_in reset: print_all does the same through set_pr_in_false() on every path that does not print this block (unit C09.print_all.state_reset_independent_of_output_switches)",
                                 ("call", "map::operator[]"): "pe_x[default_pe_x]: default_pe_x names an entry of pe_x by construction of the solution (not machine checked)"},
    # print_gas_phase: no exception (since /repo 9b8d1e69 it writes locals only; what is stored comes from xgas_save: unit C09.xgas_save...)
    # history: before /repo 0c709718 there was NO such exception: xgas_save() copies the working gas phase, so the stored volume and total moles of a
    # fixed-pressure gas phase depend on whether the report was printed (native demo: $OUT/demo/gasvol.cpp)
}


def _find(nm):
    for rel in (PRINT, ISO):
        try:
            return rel, A.find_function(rel, "Phreeqc::" + nm)
        except Exception:
            continue
    raise Undecided("function Phreeqc::%s not found" % nm)


def _qt(n):
    t = n.get("type") or {}
    return t.get("desugaredQualType") or t.get("qualType") or ""


class Frame(object):
    """store and call sites of one function with their base objects"""
    def __init__(self, rel, fn):
        self.rel, self.fn = rel, fn
        self.local_ids = {}
        self.defs = {}
        for x in A.walk(fn):
            if x.get("kind") in ("VarDecl", "ParmVarDecl") and "id" in x:
                self.local_ids[x["id"]] = x
                if x.get("kind") == "VarDecl" and x.get("inner"):
                    self.defs.setdefault(x["id"], []).append(x["inner"][-1])
                if x.get("storageClass") == "static":
                    self.local_ids.pop(x["id"])          # a static local outlives the call: not a local for the frame
        for x in A.walk(fn):
            if x.get("kind") == "BinaryOperator" and x.get("opcode") == "=":
                l = strip(x["inner"][0])
                if l.get("kind") == "DeclRefExpr" and l["referencedDecl"].get("id") in self.local_ids:
                    self.defs.setdefault(l["referencedDecl"]["id"], []).append(x["inner"][1])

    # --- is the OBJECT designated by lvalue n a local of the function?  returns (True, "") or (False, description of the base)
    def obj_local(self, n, seen=()):
        n = strip(n)
        k = n.get("kind")
        if k == "DeclRefExpr":
            d = n.get("referencedDecl", {})
            if d.get("id") in self.local_ids:
                q = _qt(self.local_ids[d["id"]])
                if q.strip().endswith("&"):          # a local reference: the object it is bound to
                    return self.all_defs(d, self.obj_local, seen)
                return True, ""
            return False, "non-local variable %s" % d.get("name")
        if k == "MemberExpr":
            b = n["inner"][0] if n.get("inner") else {}
            if n.get("isArrow"):
                if strip(b).get("kind") == "CXXThisExpr":
                    return False, "engine member this->%s" % n.get("name")
                ok_, why = self.ptr_local(b, seen)
                return ok_, why and "%s (field %s)" % (why, n.get("name"))
            return self.obj_local(b, seen)
        if k == "ArraySubscriptExpr":
            b = strip(n["inner"][0])
            if _qt(b).strip().endswith("]"):
                return self.obj_local(b, seen)
            return self.ptr_local(n["inner"][0], seen)
        if k == "UnaryOperator" and n.get("opcode") == "*":
            return self.ptr_local(n["inner"][0], seen)
        if k == "CXXOperatorCallExpr" and len(n.get("inner", [])) >= 2:
            nm = strip(n["inner"][0]).get("referencedDecl", {}).get("name", "")
            if nm in ("operator[]", "operator*", "operator->"):
                rq = _qt(n["inner"][1])
                if nm == "operator[]" and not re.search(r"\*\s*(const\s*)?>?\s*$|\*>", rq):
                    return self.obj_local(n["inner"][1], seen)         # element stored inside the container
                return self.obj_local(n["inner"][1], seen)
        if k == "CXXThisExpr":
            return False, "the engine object"
        if k in ("CXXMemberCallExpr", "CallExpr"):
            c = strip(n["inner"][0])
            if k == "CXXMemberCallExpr" and c.get("inner"):
                recv = c["inner"][0]
                if strip(recv).get("kind") == "CXXThisExpr":
                    return False, "result of engine call %s()" % c.get("name")
                okr, why = (self.ptr_local if c.get("isArrow") else self.obj_local)(recv, seen)
                return okr, why and "%s via %s()" % (why, c.get("name"))
            return False, "result of %s()" % (c.get("name") or c.get("referencedDecl", {}).get("name"))
        if k in ("CXXTemporaryObjectExpr", "CXXConstructExpr", "StringLiteral", "IntegerLiteral", "FloatingLiteral"):
            return True, ""
        if k == "ConditionalOperator":
            a1, w1 = self.obj_local(n["inner"][1], seen); a2, w2 = self.obj_local(n["inner"][2], seen)
            return a1 and a2, w1 or w2
        return False, "unresolved lvalue (%s)" % k

    def all_defs(self, d, f, seen):
        if d["id"] in seen:
            return True, ""
        ds = self.defs.get(d["id"], [])
        if not ds:
            return False, "pointer/reference %s without a visible definition" % d.get("name")
        for e in ds:
            ok_, why = f(e, seen + (d["id"],))
            if not ok_:
                return False, "%s <- %s" % (d.get("name"), why)
        return True, ""

    # --- does pointer-valued expression n point to a local object?
    def ptr_local(self, n, seen=()):
        n = strip(n)
        k = n.get("kind")
        if k == "UnaryOperator" and n.get("opcode") == "&":
            return self.obj_local(n["inner"][0], seen)
        if k == "DeclRefExpr":
            d = n.get("referencedDecl", {})
            if d.get("id") in self.local_ids:
                q = _qt(self.local_ids[d["id"]]).strip()
                if q.endswith("]"):
                    return True, ""
                if self.local_ids[d["id"]].get("kind") == "ParmVarDecl":
                    return False, "parameter %s" % d.get("name")
                return self.all_defs(d, self.ptr_local, seen)
            return False, "non-local pointer %s" % d.get("name")
        if k in ("CXXNewExpr",):
            return True, ""
        if k == "BinaryOperator" and n.get("opcode") in ("+", "-"):
            return self.ptr_local(n["inner"][0], seen)
        if k in ("MemberExpr", "ArraySubscriptExpr", "CXXOperatorCallExpr"):
            if _qt(n).strip().endswith("]"):
                return self.obj_local(n, seen)
            ok_, why = self.obj_local(n, seen)
            # a pointer STORED in a local container / record still points wherever it was taken from: look no further, call it non-local
            return False, "pointer read from %s" % (why or "a local container filled from the model")
        if k == "CXXThisExpr":
            return False, "the engine object"
        if k in ("CXXMemberCallExpr", "CallExpr"):
            c = strip(n["inner"][0])
            return False, "pointer returned by %s()" % (c.get("name") or c.get("referencedDecl", {}).get("name"))
        if k in ("CXXNullPtrLiteralExpr", "GNUNullExpr", "IntegerLiteral", "StringLiteral"):
            return True, ""
        if k == "ConditionalOperator":
            a1, w1 = self.ptr_local(n["inner"][1], seen); a2, w2 = self.ptr_local(n["inner"][2], seen)
            return a1 and a2, w1 or w2
        return False, "unresolved pointer (%s)" % k

    def field_of(self, n):
        n = strip(n)
        while n.get("kind") in ("ArraySubscriptExpr",) or (n.get("kind") == "CXXOperatorCallExpr" and len(n.get("inner", [])) >= 2):
            n = strip(n["inner"][0] if n.get("kind") == "ArraySubscriptExpr" else n["inner"][1])
        if n.get("kind") == "MemberExpr":
            return n.get("name")
        if n.get("kind") == "DeclRefExpr":
            return n.get("referencedDecl", {}).get("name")
        return n.get("kind")

    def stores(self):
        """[(field, base description, line)] of the store sites whose base object is not a local"""
        out, nsites = [], 0
        for x in A.walk(self.fn):
            k = x.get("kind")
            lv = None
            if k == "BinaryOperator" and x.get("opcode") == "=":
                lv = x["inner"][0]
            elif k == "CompoundAssignOperator":
                lv = x["inner"][0]
            elif k == "UnaryOperator" and x.get("opcode") in ("++", "--"):
                lv = x["inner"][0]
            elif k == "CXXOperatorCallExpr" and len(x.get("inner", [])) >= 2:
                nm = strip(x["inner"][0]).get("referencedDecl", {}).get("name", "")
                if nm in ("operator=", "operator+=", "operator-=", "operator*=", "operator/=") or (nm in ("operator++", "operator--")):
                    lv = x["inner"][1]
            if lv is None:
                continue
            nsites += 1
            ok_, why = self.obj_local(lv)
            if not ok_:
                out.append((self.field_of(lv), why, x.get("range", {}).get("begin", {}).get("line")))
        return out, nsites

    def calls(self):
        """[(callee name, why it may change the model)] for the call sites that are not provably harmless; also every callee name seen"""
        bad, seen = [], []
        for x in A.walk(self.fn):
            k = x.get("kind")
            if k not in ("CXXMemberCallExpr", "CallExpr", "CXXOperatorCallExpr") or not x.get("inner"):
                continue
            c = strip(x["inner"][0])
            rd = c.get("referencedDecl") or {}
            name = c.get("name") or rd.get("name") or "?"
            args = x["inner"][1:]
            seen.append(name)
            if k == "CXXOperatorCallExpr":
                if name in STD_READ or name in ("operator=", "operator+=", "operator-=", "operator*=", "operator/="):        # assigning operators are store sites
                    if name == "operator[]" and args and re.search(r"\bmap<", _qt(args[0])) and not _qt(args[0]).lstrip().startswith("const"):
                        okr, why = self.obj_local(args[0])
                        if not okr:
                            bad.append(("map::operator[]", "may insert into %s" % why))
                    continue
                bad.append((name, "operator call not classified")); continue
            if k == "CallExpr":
                if name in PURE_C:
                    continue
                if name in DEST_ARG:
                    i = DEST_ARG[name]
                    if len(args) > i:
                        okd, why = self.ptr_local(args[i])
                        if not okd:
                            okd, why2 = self.obj_local(args[i])
                            why = why2 or why
                        if not okd:
                            bad.append((name, "destination is not a local: %s" % why))
                    continue
                bad.append((name, "free function not known to be read-only")); continue
            # member call
            recv = c["inner"][0] if c.get("inner") else None
            rk = strip(recv).get("kind") if recv else None
            cq = (c.get("type") or {}).get("qualType", "")
            is_const = False
            md = c.get("referencedMemberDecl")
            if rk == "CXXThisExpr" or (recv is not None and re.search(r"\bPhreeqc\b", _qt(recv))):
                if name in SINKS or CALCULATORS.match(name) or name in WRITERS or name in SUBWRITERS:
                    continue
                bad.append((name, "engine routine that is neither an output sink nor a read-only calculator")); continue
            rq = _qt(recv) if recv else ""
            okr, why = (self.ptr_local if c.get("isArrow") else self.obj_local)(recv) if recv is not None else (False, "?")
            if okr:
                continue                      # any method on a local object
            if name in STD_READ or ACCESSOR.match(name) or rq.lstrip().startswith("const"):
                continue
            bad.append((name, "non-const method on %s" % (why or rq)))
        return bad, seen


def _frame_unit(nm):
    def unit(twin=False):
        rel, fn = _find(nm)
        r = U.new_unit("C09.frame.%s.reads_the_model_only" % nm, rel, "Phreeqc::" + nm, fn)
        todo, done = [(nm, rel, fn)], set()
        ex_used = set()
        exempt = dict(EXEMPT.get(nm, {}))
        if twin:
            exempt = {}
        nst = ncalls = 0
        offending_s, offending_c = [], []
        sub = []
        while todo:
            n_, rel_, fn_ = todo.pop(0)
            if n_ in done:
                continue
            done.add(n_)
            F = Frame(rel_, fn_)
            st, ns = F.stores()
            nst += ns
            if twin and n_ == nm:
                # perturbed specification: locals are not exempt either (every store site must then be reported)
                st = st + [("<local>", "a local", 0)] * max(0, ns - len(st))
            for fld_, why, line in st:
                if ("store", fld_) in exempt:
                    ex_used.add(("store", fld_)); continue
                offending_s.append("%s: store into %s of %s (line %s)" % (n_, fld_, why, line))
            bad, seen = F.calls()
            ncalls += len(seen)
            for cn, why in bad:
                if ("call", cn) in exempt:
                    ex_used.add(("call", cn)); continue
                offending_c.append("%s: %s - %s" % (n_, cn, why))
            for s_ in seen:
                if s_ in SUBWRITERS and s_ not in done and s_ != "print_centered":
                    try:
                        rr, ff = _find(s_)
                        todo.append((s_, rr, ff)); sub.append(s_)
                    except Undecided:
                        r.add("subwriter.%s.body_found" % s_, UNDECIDED, "ast", 0, "")
        r.add("frame.no_store_into_the_model", DISCHARGED if not offending_s else FAILED, "ast", 0, "; ".join(offending_s)[:900] or "%d store sites, all into locals or justified scratch" % nst, kind="frame")
        r.add("frame.no_call_that_changes_the_model", DISCHARGED if not offending_c else FAILED, "ast", 0, "; ".join(offending_c)[:900] or "%d call sites" % ncalls, kind="frame")
        unused = sorted(k for k in EXEMPT.get(nm, {}) if k not in ex_used)
        r.add("reach.sites_examined", DISCHARGED if ncalls >= 1 and nst >= 0 else UNDECIDED, "ast", 0, "%d store sites, %d call sites%s%s" % (nst, ncalls, (", sub-writers " + ",".join(sorted(set(sub)))) if sub else "", (", exceptions not used: %r" % unused) if unused else ""), kind="vacuity")
        r.assumptions += ["typed-AST frame (no path condition): a store / call on an infeasible path is still counted",
                          "read-only by the assignment, bodies not examined here: output_msg, sformatf, print_centered, error_msg, calc_* / k_calc / viscosity / *_bsearch / *_search and the accessors Get_* / Find_* / Vectorize of the cxx classes",
                          "a pointer read out of a local container is treated as pointing into the model",
                          "exceptions (reason read from the consuming code, not machine checked): " + "; ".join("%s %s: %s" % (k[0], k[1], v) for k, v in sorted(EXEMPT.get(nm, {}).items()))]
        return r
    return unit


UNITS = [("C09.frame.%s.reads_the_model_only" % nm, _frame_unit(nm)) for nm in WRITERS]


# --------------------------------------------------------------------------------------------------------------------- print_all
def unit_print_all_once(twin=False):
    """print_all(): with pr.all == FALSE (no output sink on) nothing but the Peng-Robinson flag reset happens: no writer is called, no member is
    stored; otherwise every report writer is called exactly once, and print_all itself stores nothing but the water slot s_h2o->lm."""
    q = "Phreeqc::print_all"
    fn = A.find_function(PRINT, q)
    r = U.new_unit("C09.print_all.skipped_when_output_is_off.each_writer_once_otherwise", PRINT, q, fn)
    f, ex, fin, info = U.run_function(PRINT, q, ctx=ctx())
    want = list(WRITERS) + ["print_user_print"]
    if twin:
        want = want + ["print_user_graph_twin"]
    pr = tm.app("fld:pr", (THIS,), "P")
    seen = set()
    for i, s in enumerate([s for s in fin if s.status == "ret" and B.z3_sat(list(s.pc)) != "unsat"]):
        names = [e.name.split("::")[-1] for e in s.events if not isinstance(e, tuple)]
        off = tm.eq(fld0(ex, s, "all", "I", pr), tm.num(0, "I"))
        wr = []
        for key in s.heap:
            for ix, v in writes(s, key):
                wr.append((key[1], ix))
        called = [n_ for n_ in names if n_.startswith("print_")]
        if not called:
            seen.add("off")
            # classified by what the path does (no writer runs); demand the condition
            U.discharge_valid(r, "path%d.no_writer_runs_only_when_pr.all_is_FALSE" % i, list(s.pc), off)
            other = [n_ for n_ in names if n_ != "set_pr_in_false"]
            r.add("path%d.output_off.nothing_but_the_PR_flag_reset" % i, DISCHARGED if not other and not wr else FAILED, "symex", 0, "calls %r stores %r" % (other, wr), kind="frame")
        else:
            seen.add("on")
            U.discharge_valid(r, "path%d.writers_run_only_when_pr.all_is_not_FALSE" % i, list(s.pc), tm.not_(off))
            miss = [w for w in want if called.count(w) != 1]
            extra = [c for c in called if c not in want]
            r.add("path%d.every_writer_called_exactly_once" % i, DISCHARGED if not miss and not extra else FAILED, "trace", 0, "not exactly once: %r; unknown: %r" % (miss, extra), kind="trace")
            others = [n_ for n_ in names if not n_.startswith("print_") and n_ not in ("species_list_sort", "set_pr_in_false")]
            badw = [w for w in wr if w[0] != "lm"]
            r.add("path%d.print_all_itself_changes_nothing_else" % i, DISCHARGED if not others and not badw else FAILED, "symex", 0, "calls %r stores %r" % (others, badw), kind="frame")
    r.add("reach.both_cases", DISCHARGED if seen == {"on", "off"} else UNDECIDED, "symex", 0, repr(sorted(seen)), kind="vacuity")
    r.assumptions += ["species_list_sort() reorders the list of species used for printing only (body not under this unit)",
                      "s_h2o->lm = s_h2o->la: see the exception text of the writers' frame units", "writers' own frames: units C09.frame.*"]
    return r


UNITS.append(("C09.print_all.skipped_when_output_is_off.each_writer_once_otherwise", unit_print_all_once))
