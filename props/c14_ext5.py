"""C14 extension, fifth batch: the range copy of the initial_* drivers.

C14.initial_<kind>.new_entity_n-m_is_copied_to_n+1..m_whether_or_not_it_was_equilibrated
    One arbitrary pass of the loop over the newly defined numbers (Rxn_new_<kind>) of Phreeqc::initial_exchangers / initial_surfaces /
    initial_gas_phases / initial_solutions, from an arbitrary state.  On EVERY pass that ends normally and on which the entity is a new
    definition (Get_new_def) - equilibrated with a solution or not - the entity stored under n = Get_n_user() is replicated over
    n+1 .. Get_n_user_end() of ITS OWN store, exactly once: either Utilities::Rxn_copies(store, n, last) or the explicit loop
    i = n+1 .. last (inclusive, step 1) calling Rxn_copy(store, n, i); `last` is the range end read BEFORE the entity's range is
    collapsed to n-n, and the copy follows the save of the calculated entity when there is one.
"""
from props.c14_ext_lib import *

MS = "src/phreeqcpp/mainsubs.cpp"
CFG = {
    "exchangers": ("Phreeqc::initial_exchangers", "Rxn_exchange_map", "xexchange_save"),
    "surfaces": ("Phreeqc::initial_surfaces", "Rxn_surface_map", "xsurface_save"),
    "gas_phases": ("Phreeqc::initial_gas_phases", "Rxn_gas_phase_map", "xgas_save"),
    "solutions": ("Phreeqc::initial_solutions", "Rxn_solution_map", "xsolution_save"),
}


def _outer_ordinal(fn):
    loops = loops_of(fn)
    for k, lp in enumerate(loops):
        if any(x.get("kind") == "MemberExpr" and x.get("name") == "Get_new_def" for x in A.walk(lp)):
            return k
    raise Undecided("loop over the new definitions (the one that asks Get_new_def) not found")


def unit_initial(kind, twin=False):
    q, mapname, saver = CFG[kind]
    fn0 = A.find_function(MS, q)
    r = U.new_unit("C14.initial_%s.new_entity_n-m_is_copied_to_n+1..m_whether_or_not_it_was_equilibrated" % kind, MS, q, fn0)
    stash = LoopStash()
    c = mk_ctx(functional=("Get_n_user", "Get_n_user_end", "Get_new_def", "Get_solution_equilibria", "Rxn_find", "find", "end"), loop=stash)
    stop_on_error_msg(c)
    outer = loops_of(fn0)[_outer_ordinal(fn0)]
    fn, ex, its, _names = exec_nodes(MS, q, [outer["inner"][-1]], c)      # the body of the loop, once, from an arbitrary state
    MAP = fmap(mapname)
    seen = {"new.equilibrated": 0, "new.not_equilibrated": 0, "not_new": 0}
    j = 0
    for s in its:
        if s.status not in ("run", "cont", "brk", "ret") or not sat(s.pc):
            continue
        evs = U.iter_events(s)
        nd = calls(evs, "Get_new_def")
        if not nd:
            # a pass that ends normally without asking whether the entity is new cannot be classified: it must not exist
            ok(r, "pass[%d].asks_whether_the_entity_is_new" % j, False, "trace", [sh(e) for e in evs][:12]); j += 1
            continue
        E = nd[0].recv
        ok(r, "pass[%d].entity_is_taken_from_its_own_store" % j, has_sub(E, MAP), "trace", repr(E)[:160]) if not has_sub(E, MAP) else None
        for hy, isnew in cases(s.pc, tm.to_bool(nd[0].result)):
            cps = [(k, e) for k, e in enumerate(evs) if sh(e) in ("Rxn_copies", "Rxn_copy")]
            lps = [(k, e) for k, e in enumerate(evs) if e.name == "loop_passed" and any(
                calls(U.iter_events(t), "Rxn_copy", "Rxn_copies") for nd_, e0_, its_ in stash.runs if nd_ is e.node for t in its_)]
            if not isnew:
                seen["not_new"] += 1
                ok(r, "not_new.nothing_copied[%d]" % j, not cps and not lps, "trace", repr([e for k, e in cps])[:200], kind="frame")
                continue
            equil = bool(calls(evs, saver))
            tag = "new.equilibrated" if equil else "new.not_equilibrated"
            seen[tag] += 1
            gn = [e for e in calls(evs, "Get_n_user") if e.recv is E]
            ge = [(k, e) for k, e in enumerate(evs) if sh(e) == "Get_n_user_end" and e.recv is E]
            if not gn or not ge:
                ok(r, "%s.number_and_range_end_read_from_the_entity[%d]" % (tag, j), False, "trace", "Get_n_user / Get_n_user_end of the entity not called"); continue
            n_user, last = gn[0].result, ge[0][1].result
            want_last = last if not twin else n_user
            sets = [k for k, e in enumerate(evs) if sh(e) == "Set_n_user_end" and e.recv is E]
            ok(r, "%s.range_end_read_before_the_range_is_collapsed[%d]" % (tag, j), not sets or ge[0][0] < min(sets), "trace", "Get_n_user_end@%d Set_n_user_end@%r" % (ge[0][0], sets))
            actions = []      # (position, ok?, detail)
            for k, e in cps:
                good = sh(e) == "Rxn_copies" and len(e.args) == 3 and e.args[0] is MAP and proved(hy, tm.eq(e.args[1], n_user)) and proved(hy, tm.eq(e.args[2], want_last))
                actions.append((k, good, repr(e)[:220]))
            for k, e in lps:
                good, det = True, []
                for nd_, e0, lits in stash.runs:
                    if nd_ is not e.node:
                        continue
                    try:
                        h = loop_head(ex, nd_, e0)
                    except Undecided as ue:
                        good = False; det.append(str(ue)); continue
                    g1 = h["first"] is not None and proved(e0.pc, tm.eq(h["first"], tm.add(n_user, tm.num(1, "I"))))
                    g2 = h["cond"] is not None and proved(e0.pc, tm.eq(h["cond"], tm.le(h["K"], want_last)))
                    g3 = h["next"] is not None and proved(e0.pc, tm.eq(h["next"], tm.add(h["K"], tm.num(1, "I"))))
                    g4 = bool(lits)
                    for t in lits:
                        cc = calls(U.iter_events(t), "Rxn_copy", "Rxn_copies")
                        g4 = g4 and len(cc) == 1 and sh(cc[0]) == "Rxn_copy" and cc[0].args[0] is MAP and proved(t.pc, tm.eq(cc[0].args[1], n_user)) and cc[0].args[2] is t.locals.get(h["did"]) and t.status in ("run", "cont")
                    good = good and g1 and g2 and g3 and g4
                    det.append("first=%r cond=%r next=%r body_ok=%s" % (h["first"], h["cond"], h["next"], g4))
                actions.append((k, good, "; ".join(det)[:300]))
            ok(r, "%s.copied_exactly_once_to_n+1..m_of_its_own_store[%d]" % (tag, j), len(actions) == 1 and actions[0][1], "trace+z3",
               "%d copy action(s): %s" % (len(actions), [a[2] for a in actions][:2]))
            sv = [k for k, e in enumerate(evs) if sh(e) == saver]
            if sv and actions:
                ok(r, "%s.copy_follows_the_save_of_the_calculated_entity[%d]" % (tag, j), max(sv) < min(a[0] for a in actions), "trace", "save@%r copy@%r" % (sv, [a[0] for a in actions]))
                ok(r, "%s.saved_under_its_own_number[%d]" % (tag, j), all(proved(hy, tm.eq(evs[k].args[0], n_user)) for k in sv), "trace+z3", repr(evs[sv[0]])[:160])
        j += 1
    need = ["new.equilibrated"] + (["new.not_equilibrated", "not_new"] if kind != "solutions" else ["not_new"])
    ok(r, "reach.passes(%s)" % ",".join(need), all(seen[k] for k in need), "symex", seen, kind="vacuity", undecided=True)
    r.assumptions += ["one arbitrary pass of the loop over Rxn_new_<kind> from an arbitrary state; the passes that stop in error_msg(..., STOP) are not constrained",
                      "Utilities::Rxn_copies / Rxn_copy under their own C14 units; Get_n_user / Get_n_user_end / Get_new_def functional (the order of the range-end read and the collapse of the range is checked on the event trace)",
                      "the calculation between (prep .. model .. x<kind>_save) is opaque"]
    return r


UNITS = [("C14.initial_%s.new_entity_n-m_is_copied_to_n+1..m_whether_or_not_it_was_equilibrated" % k, (lambda k: (lambda twin=False: unit_initial(k, twin)))(k))
         for k in ("exchangers", "surfaces", "gas_phases", "solutions")]
