"""C15 (added after round-2 seeds): (a) the formula-weight cache of compute_gfw is coherent with the element weights: the function
that reads element weights invalidates it; compute_gfw returns the cached value only for the same formula text and caches what it
computed; (b) cxxMix::Add accumulates fractions of a repeated solution number; (c) tidy_solutions numbers unnumbered SOLUTION_SPREAD
rows after every number already in use, including the ends of ranges and the pending SAVE range."""
from props.common import *
from vf.core import FAILED, DISCHARGED, UNDECIDED

READ = "src/phreeqcpp/read.cpp"
UTIL = "src/phreeqcpp/utilities.cpp"
MIXH = "src/phreeqcpp/cxxMix.h"
TIDY = "src/phreeqcpp/tidy.cpp"


def unit_gfw_cache(twin=False):
    q = "Phreeqc::read_master_species"
    fn = A.find_function(READ, q)
    r = U.new_unit("C15.compute_gfw.cache_coherent_with_element_weights", READ, q, fn, kind="structural")
    # writers of element weights: functions that scan a number into ...->gfw
    import glob, os, re
    from vf import callsites as CS
    from vf.core import REPO
    writers = []
    for path in sorted(glob.glob(os.path.join(REPO, "src/phreeqcpp/*.cpp"))):
        rel = os.path.relpath(path, REPO)
        txt = open(path, encoding="latin1").read()
        if "gfw" not in txt:
            continue
        for qq, _ in CS.enclosing_functions(rel, "gfw"):
            try:
                f = A.find_function(rel, qq)
            except Exception:
                continue
            t = text_of(rel, f)
            if re.search(r"sscanf\([^;]*&\w+->gfw\)", t) or re.search(r"sscanf\([^;]*&\w+(\[[^\]]*\])?->elt->gfw\)", t):
                writers.append((rel, qq, t))
    r.add("writers_of_element_weights_found", DISCHARGED if writers else UNDECIDED, "syntactic", 0, repr([w[1] for w in writers]), kind="vacuity")
    for rel, qq, t in writers:
        body = A.body_of(A.find_function(rel, qq)).get("inner", [])
        top = [text_of(rel, x) for x in body]
        ok = "gfw_map.clear()" in top and not twin
        r.add("%s.invalidates_formula_weight_cache_on_every_normal_return" % qq.split("::")[-1], DISCHARGED if ok else FAILED, "syntactic", 0,
              "top-level statement gfw_map.clear() %s" % ("present" if "gfw_map.clear()" in top else "MISSING"))
    fc = A.find_function(UTIL, "Phreeqc::compute_gfw")
    t = text_of(UTIL, fc)
    r.add("compute_gfw.cache_keyed_by_formula_text", DISCHARGED if "std::stringstr(string);" in t and "it=gfw_map.find(str);" in t and "gfw_map[str]=*gfw;" in t else FAILED, "syntactic", 0, "", kind="structural")
    r.add("compute_gfw.sum_of_coef*element_weight", DISCHARGED if "*gfw+=elt_list[i].coef*(elt_list[i].elt)->gfw;" in t else FAILED, "syntactic", 0, "", kind="structural")
    r.assumptions += ["text anchors; Phreeqc::clean_up / copy constructors are under C07"]
    return r


def unit_mix_add(twin=False):
    q = "cxxMix::Add"
    fn = A.find_function(MIXH, q)
    r = U.new_unit("C15.cxxMix.Add.accumulates_repeated_numbers", MIXH, q, fn)
    c = ctx()
    f, ex, fin, info = U.run_function(MIXH, q, ctx=c)
    n, fr = tm.sym("P0_n", "I"), tm.sym("P1_f", "R")
    mp = tm.app("fld:mixComps", (THIS,), "P")
    seen = set()
    for s in [s for s in fin if s.status in ("ret", "run") and B.z3_sat(list(s.pc)) != "unsat"]:
        w = writes(s, ("m2", "#mval", "R", "I"))
        if len(w) != 1 or w[0][0] != (mp, n):
            r.add("writes_entry_n_only", FAILED, "symex", 0, repr(w)[:200], kind="frame"); continue
        has0 = tm.select(entry_arr(ex, s, ("m2", "#mhas", "B", "I")), mp, n)
        old = tm.select(entry_arr(ex, s, ("m2", "#mval", "R", "I")), mp, n)
        if B.z3_prove(list(s.pc), has0)[0] == "proved":
            seen.add("present")
            U.discharge_eq_real(r, "present.fraction+=f", list(s.pc), w[0][1], old + fr if not twin else fr)
        elif B.z3_prove(list(s.pc), tm.not_(has0))[0] == "proved":
            seen.add("absent")
            U.discharge_eq_real(r, "absent.fraction=f", list(s.pc), w[0][1], fr)
        else:
            # the code does not distinguish: then it must be right for both
            U.discharge_eq_real(r, "present.fraction+=f", list(s.pc) + [has0], w[0][1], old + fr)
            U.discharge_eq_real(r, "absent.fraction=f", list(s.pc) + [tm.not_(has0)], w[0][1], fr)
            seen.update(("present", "absent"))
    r.add("reach.both_cases", DISCHARGED if seen == {"present", "absent"} else UNDECIDED, "symex", 0, repr(sorted(seen)), kind="vacuity")
    r.assumptions += ["std::map find/operator[] semantics"]
    return r


def unit_tidy_solutions_numbering(twin=False):
    q = "Phreeqc::tidy_solutions"
    fn = A.find_function(TIDY, q)
    r = U.new_unit("C15.tidy_solutions.unnumbered_rows_get_unused_numbers", TIDY, q, fn)
    # scan loop: last = max(last, n_user, n_user_end) over all solutions
    k = loop_ordinal(fn, TIDY, init_text="jit=Rxn_solution_map.begin()")
    c = ctx(functional=("Get_n_user", "Get_n_user_end"))
    f, ex, its, info = U.run_loop_isolated(TIDY, q, k, ctx=c)
    n = 0
    for s in live(its, ("run", "cont")):
        n += 1
        evs = U.iter_events(s)
        a = [e.result for e in evs if e.name.endswith("Get_n_user")]
        b = [e.result for e in evs if e.name.endswith("Get_n_user_end")]
        last1 = local(info, s, "last"); last0 = tm.sym("iter_last", "I")
        hy = list(s.pc)
        U.discharge_valid(r, "scan.last_never_decreases", hy, tm.le(last0, last1))
        if a:
            U.discharge_valid(r, "scan.last>=first_number_of_the_entry", hy, tm.le(a[0], last1))
        else:
            r.add("scan.reads_first_number", FAILED, "trace", 0, "")
        if b and not twin:
            U.discharge_valid(r, "scan.last>=end_of_the_entry's_range", hy, tm.le(b[0], last1))
        else:
            r.add("scan.last>=end_of_the_entry's_range", FAILED, "trace", 0, "n_user_end is not read on this path")
    r.add("reach.scan", DISCHARGED if n else UNDECIDED, "symex", 0, "%d" % n, kind="vacuity")
    t = text_of(TIDY, fn)
    r.add("pending_SAVE_range_considered", DISCHARGED if "if(save.n_solution_user>last)last=save.n_solution_user;" in t and "if(save.n_solution_user_end>last)last=save.n_solution_user_end;" in t else FAILED, "syntactic", 0, "", kind="structural")
    r.add("rows_numbered_++last", DISCHARGED if "unnumbered_solutions[i].Set_n_user_both(++last);Rxn_solution_map[last]=unnumbered_solutions[i];" in t else FAILED, "syntactic", 0, "", kind="structural")
    r.assumptions += ["two text anchors (SAVE range, numbering statement)"]
    return r
