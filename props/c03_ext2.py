"""C03 (helper units, second batch): control flow around the equation solver that the property's final state depends on.

 * Phreeqc::model / model_pz / model_sit: OK is returned only from a pass whose Newton loop ended converged, whose check_residuals() passed and
   that left no unstable phase pending (remove_unstable_phases repeats the solve); the Newton loop ends converged or with stop_program;
   stop_program ends in ERROR; order of one Newton iteration;
 * Phreeqc::set_and_run: a surface with a diffuse layer is solved through surface_model(), everything else through prep -> k_temp -> set -> model;
   sum_species() follows the solve; the solver's verdict is what is returned;
 * Phreeqc::surface_model: an ERROR of model() is passed on, OK only after the g-iteration stopped below itmax;
 * Phreeqc::prep: the fast path (quick_setup) is taken only for an unchanged model with allocated arrays; save_model / check_same_model agree on
   what "the same model" is;  tidy_model: a reactant that a keyword of the simulation can have changed is re-linked to its mineral / kinetic
   partner (update_min_exchange, update_kin_exchange, update_min_surface, update_kin_surface, update_ss_assemblage)."""
import re
from vf.core import Undecided, FAILED, DISCHARGED, UNDECIDED
from vf.astvc import ast as A, terms as tm, unit as U, backends as B
from vf.astvc import symex as SX
from props.common import ctx, fld, fld0, live, writes, stop_on_error_msg, THIS, cases, text_of, find_nodes, region, strip
from props.c02_ext2 import shell, classify, after_solve, short, MODELS, mkctx, ONE, ZERO, TRUE_, FALSE_, OK_, ERROR_, CONVERGED_

JAC = ("jacobian_sums", "numerical_jacobian", "jacobian_pz", "jacobian_sit")
GAM = ("gammas", "gammas_pz", "gammas_sit")
STEPS = JAC + GAM + ("ineq", "reset", "molalities", "mb_sums", "mb_gases", "mb_ss", "switch_bases", "reprep", "residuals")


def need_shell(which):
    D = shell(which)
    if not D["saved"]:
        raise Undecided("solver shell of %s could not be decomposed (see C02.%s.*)" % (which, which))
    return D


def proves(s, goal, keys):
    """goal follows on path s: tried with the hypotheses that mention `keys` (fewer hypotheses: still sound), then with all; an infeasible path proves anything"""
    if goal is tm.TRUE:
        return True
    hy = [p for p in s.pc if any(k in repr(p) for k in keys)]
    key = (tuple(sorted(map(repr, hy))), repr(goal))
    if key not in _MEMO:
        _MEMO[key] = B.z3_prove(hy, goal)[0] == "proved"
    if _MEMO[key]:
        return True
    return B.z3_prove(list(s.pc), goal)[0] == "proved"


_MEMO = {}


def unit_converged_exit(which, twin=False):
    D = need_shell(which)
    rel, q, ex = D["rel"], D["q"], D["ex"]
    r = U.new_unit("C03.%s.OK_only_after_a_converged_pass_with_no_unstable_phase_pending" % which, rel, q, D["fn"])
    nn = 0
    for s in D["res"]:
        kind, hy = classify(ex, s)
        if kind != "normal":
            continue
        nn += 1
        before, after = after_solve(s)
        cr = [e for e in after if short(e) == "check_residuals"]
        ok = bool(cr) and all(B.z3_prove(hy, tm.not_(tm.eq(e.result, ERROR_)))[0] == "proved" for e in cr)
        r.add("normal_exit#%d.check_residuals_ran_after_the_solve_and_did_not_return_ERROR" % nn, DISCHARGED if ok else FAILED, "trace+z3", 0, repr([short(e) for e in after])[:160])
        rup = fld(ex, s, "remove_unstable_phases", "I")
        U.discharge_valid(r, "normal_exit#%d.no_unstable_phase_pending" % nn, hy, tm.not_(tm.eq(rup, TRUE_)) if not twin else tm.eq(rup, TRUE_))
        cg = [e for e in after if short(e).startswith("check_gammas")]
        if which != "model":
            okg = bool(cg) and all(B.z3_prove(hy, tm.eq(e.result, TRUE_))[0] == "proved" for e in cg)
            r.add("normal_exit#%d.gamma_check_passed" % nn, DISCHARGED if okg else FAILED, "trace+z3", 0, repr([short(e) for e in cg]))
    r.add("reach.normal_exit", DISCHARGED if nn >= 1 else UNDECIDED, "symex", 0, str(nn), kind="vacuity")
    # the Newton loop: left converged or stopped (paths that differ only in debug printing are many: hypotheses are cut to the relevant ones first)
    nb = nc = 0; cond_ok = None; fails = []
    for s in D["inner"]:
        if s.status not in ("brk", "run", "cont"):
            continue
        ev = U.iter_events(s)
        res = [e for e in ev if short(e) == "residuals"]
        stop = fld(ex, s, "stop_program", "I")
        if res and cond_ok is None:
            r0 = res[0].result
            conds = [p for p in s.pc if repr(r0) in repr(p)]
            if conds:
                rup0 = fld0(ex, s, "remove_unstable_phases", "I")
                spec = tm.or_(tm.not_(tm.eq(r0, CONVERGED_)), tm.eq(rup0, TRUE_))
                cond_ok = (conds[0], B.z3_prove([conds[0]], spec)[0] == "proved" and B.z3_prove([spec], conds[0])[0] == "proved")
        if s.status == "brk":
            nb += 1
            if not proves(s, tm.eq(stop, TRUE_), ("stop_program",)):
                fails.append(("newton_loop.left_by_break#%d_only_with_stop_program" % nb, repr(stop)[:120]))
        else:
            nc += 1
            it, mx = fld(ex, s, "iterations", "I"), fld(ex, s, "itmax", "I")
            if not proves(s, tm.le(it, mx), ("iterations", "itmax")):
                fails.append(("newton_loop.goes_on#%d_only_while_iterations<=itmax" % nc, "iterations=%r" % (it,)))
    for nm_, det in fails[:12]:
        r.add(nm_, FAILED, "z3", 0, det)
    r.add("newton_loop.left_by_break_only_with_stop_program", DISCHARGED if nb and not any("left_by_break" in f[0] for f in fails) else (FAILED if nb else UNDECIDED), "z3", 0, "%d breaking paths" % nb)
    r.add("newton_loop.goes_on_only_while_iterations<=itmax", DISCHARGED if nc and not any("goes_on" in f[0] for f in fails) else (FAILED if nc else UNDECIDED), "z3", 0, "%d continuing paths" % nc)
    if cond_ok is None:
        r.add("newton_loop.runs_while_not_CONVERGED_or_unstable_phase_pending", UNDECIDED, "symex", 0, "loop condition not read")
    else:
        r.add("newton_loop.runs_while_not_CONVERGED_or_unstable_phase_pending", DISCHARGED if cond_ok[1] else FAILED, "z3", 0, repr(cond_ok[0])[:200])
    r.add("reach.newton_breaks_and_continues", DISCHARGED if nb >= 2 and nc >= 2 else UNDECIDED, "symex", 0, "%d/%d" % (nb, nc), kind="vacuity")
    # epilogue
    ex0 = D["ex0"]; n = 0
    for s in D["fin"]:
        if s.status != "ret" or not any(e.name == "solve_loop" for e in s.events):
            continue
        n += 1
        stop = fld(ex0, s, "stop_program", "I")
        U.discharge_valid(r, "return#%d.OK_only_if_not_stopped" % n, list(s.pc), tm.implies(tm.eq(s.ret, OK_), tm.not_(tm.eq(stop, TRUE_))))
        U.discharge_valid(r, "return#%d.stopped_gives_ERROR" % n, list(s.pc), tm.implies(tm.eq(stop, TRUE_), tm.eq(s.ret, ERROR_)))
    r.add("reach.returns_after_the_loop", DISCHARGED if n >= 2 else UNDECIDED, "symex", 0, str(n), kind="vacuity")
    r.assumptions += ["residuals() == CONVERGED, check_residuals() != ERROR and the gamma checks are the definitions of 'converged' (their bodies have their own units: C01.residuals.*, C03.check_residuals.*)",
                      "callees do not reset stop_program", "the Newton loop is summarised inside the pass contract; its own exits are obligations of this unit",
                      "termination is not decided"]
    return r


def unit_iteration_order(which, twin=False):
    D = need_shell(which)
    rel, q, ex = D["rel"], D["q"], D["ex"]
    r = U.new_unit("C03.%s.newton_iteration_is_ineq_reset_gammas_molalities_sums_in_that_order" % which, rel, q, D["fn"])
    want_tail = ["G", "molalities", "mb_sums", "mb_gases", "mb_ss"] if not twin else ["G", "mb_sums", "molalities", "mb_gases", "mb_ss"]
    bad = {}; n = 0; nineq = 0; nonum = 0
    seen = set()
    for s in D["inner"]:
        if s.status not in ("brk", "run", "cont"):
            continue
        names = [short(e) for e in U.iter_events(s) if short(e) in STEPS]
        if "molalities" not in names and s.status == "brk":
            continue            # the itmax exit
        numerical = which == "model" and "jacobian_sums" not in names
        key = (tuple(names), numerical and repr([p for p in s.pc if "numerical_deriv" in repr(p)]))
        if key in seen:
            continue
        seen.add(key)
        n += 1
        def fail(k, msg, s=s):
            if k not in bad and B.z3_sat(list(s.pc)) != "unsat":
                bad[k] = msg
        # first switch_bases ends the ordinary step (a basis switch re-prepares and repeats the readouts)
        cut = names.index("switch_bases") if "switch_bases" in names else len(names)
        step = names[1:cut] if names and names[0] == "residuals" else names[:cut]
        if not names or names[0] != "residuals":
            fail("starts_with_residuals", repr(names)[:160])
        if "switch_bases" not in names:
            fail("ends_with_the_basis_check", repr(names)[:160])
        k = max([j for j, x in enumerate(step) if x == "reset"] or [-1])
        head, tail = step[:k + 1], step[k + 1:]
        if "ineq" in head or "reset" in head:
            nineq += 1
            js = [j for j, x in enumerate(head) if x == "ineq"]
            if not js or head[-1] != "reset" or head.count("reset") != 1 or head.index("reset") < js[-1]:
                fail("reset_once_directly_after_ineq", repr(head))
            if js and not any(x in JAC for x in head[:js[0]]):
                fail("jacobian_before_ineq", repr(head))
        if "ineq" in tail:
            fail("ineq_is_followed_by_reset", repr(tail))
        t = ["G" if x in GAM else x for x in tail if x in GAM + ("molalities", "mb_sums", "mb_gases", "mb_ss")]
        # gammas may be refreshed more than once (Pitzer: before the jacobian too); the LAST gammas precedes molalities
        while t.count("G") > 1:
            t.remove("G")
        if t != want_tail:
            fail("tail_is_gammas_molalities_mb_sums_mb_gases_mb_ss", repr(tail))
        if which == "model" and "ineq" in head and "jacobian_sums" not in head:
            nonum += 1
            nd = fld(ex, s, "numerical_deriv", "I")
            if not proves(s, tm.not_(tm.eq(nd, ZERO)), ("numerical_deriv",)):
                fail("analytical_jacobian_skipped_only_with_numerical_derivatives", repr(head))
    for k in ("starts_with_residuals", "reset_once_directly_after_ineq", "jacobian_before_ineq", "ineq_is_followed_by_reset", "tail_is_gammas_molalities_mb_sums_mb_gases_mb_ss", "ends_with_the_basis_check") + (("analytical_jacobian_skipped_only_with_numerical_derivatives",) if which == "model" else ()):
        r.add("every_completed_iteration." + k, FAILED if k in bad else (DISCHARGED if n else UNDECIDED), "trace", 0, bad.get(k, "%d paths" % n))
    r.add("reach.iterations_with_and_without_the_Newton_step", DISCHARGED if n > nineq >= 1 and (which != "model" or nonum >= 1) else UNDECIDED, "symex", 0, "%d paths, %d with ineq, %d numerical" % (n, nineq, nonum), kind="vacuity")
    r.assumptions += ["sequence contract over the call events of one arbitrary iteration; what each step computes is the subject of its own units", "debug printing is ignored"]
    return r


KIN = "src/phreeqcpp/kinetics.cpp"


def unit_set_and_run(twin=False):
    q = "Phreeqc::set_and_run"
    fn = A.find_function(KIN, q)
    r = U.new_unit("C03.set_and_run.diffuse_layer_surface_goes_through_surface_model_and_sum_species_follows_the_solve", KIN, q, fn)
    body = A.body_of(fn)["inner"]
    # the region starts after the top-level block that takes the reaction step (located by its call of step()) and runs to the end of the function
    idx = None
    for k, st in enumerate(body):
        if st.get("kind") == "IfStmt" and any(x.get("kind") in ("CallExpr", "CXXMemberCallExpr") and text_of(KIN, x).startswith("step(") for x in A.walk(st)):
            idx = k + 1; break
    if idx is None or idx >= len(body):
        raise Undecided("the block of set_and_run that calls step() was not found at the top level")
    c = stop_on_error_msg(ctx(functional=("Get_surface_ptr", "Get_dl_type", "Get_solution_ptr")))
    f, ex, fin, info = region(KIN, q, body[idx:], c)
    NO_DL = tm.sym("E.NO_DL", "I")
    n = nd = nm = 0
    for s in live(fin, ("ret",)):
        names = [short(e) for e in s.events]
        n += 1
        solver = [e for e in s.events if short(e) in ("surface_model", "model")]
        r.add("return#%d.exactly_one_solve" % n, DISCHARGED if len(solver) == 1 else FAILED, "trace", 0, repr([short(e) for e in solver]))
        if len(solver) != 1:
            continue
        sv = solver[0]
        U.discharge_valid(r, "return#%d.returns_the_solver's_verdict" % n, list(s.pc), tm.eq(s.ret, sv.result))
        k = names.index(short(sv))
        r.add("return#%d.sum_species_follows_the_solve" % n, DISCHARGED if "sum_species" in names[k + 1:] else FAILED, "trace", 0, repr(names[k:])[:160])
        surf = tm.app("call:Get_surface_ptr", (tm.app("fld:use", (THIS,), "P"),), "P")
        dl = tm.app("call:Get_dl_type", (surf,), "I")
        has = tm.not_(tm.eq(surf, tm.NULL))
        for hy, present in cases(list(s.pc), has):
            if not present:
                ok = short(sv) == ("model" if not twin else "surface_model")
                r.add("return#%d.no_surface.plain_model" % n, DISCHARGED if ok else FAILED, "trace", 0, short(sv)); nm += ok
                continue
            for hy2, nodl in cases(hy, tm.eq(dl, NO_DL)):
                if nodl:
                    ok = short(sv) == "model"
                    r.add("return#%d.surface_without_diffuse_layer.plain_model" % n, DISCHARGED if ok else FAILED, "trace", 0, short(sv)); nm += ok
                else:
                    ok = short(sv) == "surface_model"
                    r.add("return#%d.surface_with_diffuse_layer.surface_model" % n, DISCHARGED if ok else FAILED, "trace", 0, short(sv)); nd += ok
        if short(sv) == "model":
            seq = [x for x in names[:k + 1] if x in ("prep", "k_temp", "set", "model")]
            r.add("return#%d.plain_solve_is_prep_k_temp_set_model" % n, DISCHARGED if seq == ["prep", "k_temp", "set", "model"] else FAILED, "trace", 0, repr(seq))
    r.add("reach.both_solvers", DISCHARGED if nd >= 1 and nm >= 2 else UNDECIDED, "symex", 0, "%d/%d" % (nd, nm), kind="vacuity")
    r.assumptions += ["region contract: from the statement after the block that calls step() to the end of set_and_run; the set-up part before it (set_reaction/step/-1 pointers) is not under this contract",
                      "use.Get_surface_ptr() and cxxSurface::Get_dl_type() are functions of their object", "the diffuse-layer type is the one of the surface in use at this point"]
    return r


MODEL = "src/phreeqcpp/model.cpp"


def unit_surface_model(twin=False):
    """Phreeqc::surface_model (diffuse-layer iteration around model()): an ERROR of model() is returned as ERROR at once; the g-iteration goes on while
    the layer integration reports 'not converged' and stops at itmax; OK is returned only below itmax (otherwise error_msg STOP)"""
    q = "Phreeqc::surface_model"
    fn = A.find_function(MODEL, q)
    r = U.new_unit("C03.surface_model.model_ERROR_is_passed_on_and_OK_only_after_the_layer_iteration_converged", MODEL, q, fn)
    from props.c02_ext2 import loops_of
    dos = [k for k, l in enumerate(loops_of(fn)) if l.get("kind") == "DoStmt"]
    if len(dos) != 2:
        raise Undecided("expected the two do-while loops (Donnan, full integration), found %d" % len(dos))
    nret = ngo = 0
    for o in dos:
        c = stop_on_error_msg(ctx())
        f, ex, res, info = U.run_loop_isolated(MODEL, q, o, ctx=c)
        condseen = False
        for s in live(res):
            ev = U.iter_events(s)
            conv = [e for e in ev if short(e) in ("calc_all_g", "calc_all_donnan")]
            md = [e for e in ev if short(e) == "model"]
            tag = "loop%d" % o
            if not md:
                r.add("%s.every_g_iteration_solves_the_model" % tag, FAILED, "trace", 0, repr([short(e) for e in ev])[:160]); continue
            k = [short(e) for e in ev].index("model")
            pre = [short(e) for e in ev[:k] if short(e) in ("gammas", "molalities", "mb_sums")]
            if s.status == "ret":
                nret += 1
                U.discharge_valid(r, "%s.return_inside_iteration#%d_is_ERROR_after_model_ERROR" % (tag, nret), list(s.pc), tm.and_(tm.eq(s.ret, ERROR_), tm.eq(md[0].result, ERROR_)))
            else:
                ngo += 1
                U.discharge_valid(r, "%s.iteration#%d_goes_on_only_if_model_did_not_return_ERROR" % (tag, ngo), list(s.pc), tm.not_(tm.eq(md[0].result, ERROR_)) if not twin else tm.eq(md[0].result, ERROR_))
                r.add("%s.iteration#%d_refreshes_gammas_molalities_sums_before_model" % (tag, ngo), DISCHARGED if pre == ["gammas", "molalities", "mb_sums"] else FAILED, "trace", 0, repr(pre))
            if conv and not condseen:
                # the loop condition as evaluated for an arbitrary pass (the executor assumes it at the head of the iteration)
                condseen = True
                cr = conv[0].result
                cnd = tm.and_(*[p for p in s.pc[:3] if repr(cr) in repr(p) or ("g_iterations" in repr(p) and "itmax" in repr(p) and "10" not in repr(p))])
                gi, mx = fld0(ex, s, "g_iterations", "I"), fld(ex, s, "itmax", "I")
                gi = tm.select(tm.sym("Hiter.g_iterations:I", ("A", "P", "I")), THIS)
                U.discharge_valid(r, "%s.continues_only_below_itmax" % tag, [cnd], tm.lt(gi, mx))
                U.discharge_valid(r, "%s.continues_while_not_converged_below_itmax" % tag, [tm.eq(cr, FALSE_), tm.lt(gi, mx)], cnd)
                if short(conv[0]) == "calc_all_g":
                    U.discharge_valid(r, "%s.stops_when_converged" % tag, [tm.not_(tm.eq(cr, FALSE_))], tm.not_(cnd))
        r.add("loop%d.condition_read" % o, DISCHARGED if condseen else UNDECIDED, "symex", 0, "", kind="vacuity")
    # whole function: verdicts
    c = stop_on_error_msg(ctx())
    f, ex, fin, info = U.run_function(MODEL, q, ctx=c)
    nok = nerr = 0; bad = []
    for s in fin:
        if s.status != "ret":
            continue
        md = [e for e in s.events if short(e) == "model"]
        gi, mx = fld(ex, s, "g_iterations", "I"), fld(ex, s, "itmax", "I")
        isok = B.z3_prove(list(s.pc), tm.eq(s.ret, OK_))[0] == "proved"
        if isok:
            goal = tm.and_(tm.lt(gi, mx), *[tm.not_(tm.eq(e.result, ERROR_)) for e in md])
            if B.z3_prove(list(s.pc), goal)[0] != "proved" and B.z3_sat(list(s.pc)) != "unsat":
                bad.append("OK return with %r" % (goal,))
            nok += 1
        else:
            goal = tm.and_(tm.eq(s.ret, ERROR_), tm.or_(*[tm.eq(e.result, ERROR_) for e in md])) if md else tm.FALSE
            if B.z3_prove(list(s.pc), goal)[0] != "proved" and B.z3_sat(list(s.pc)) != "unsat":
                bad.append("non-OK return without a model() ERROR: %r" % (s.ret,))
            nerr += 1
    r.add("returns.OK_only_with_g_iterations<itmax_and_no_model_ERROR;_ERROR_only_from_model", DISCHARGED if not bad and nok else (FAILED if bad else UNDECIDED), "z3", 0, "; ".join(bad)[:300] or "%d OK / %d ERROR returns" % (nok, nerr))
    r.add("reach.returns", DISCHARGED if nok >= 2 and nerr >= 1 and nret >= 2 and ngo >= 4 else UNDECIDED, "symex", 0, "%d/%d/%d/%d" % (nok, nerr, nret, ngo), kind="vacuity")
    r.assumptions += ["calc_all_g() / calc_all_donnan() returning TRUE is the definition of a converged diffuse layer (their bodies: C20 units)", "error_msg(.., STOP) does not return",
                      "do-while loops: the iteration contract assumes the loop condition at the head of an arbitrary pass (true for every pass but the first; no obligation uses it except the ones about the condition itself)",
                      "the Donnan loop's extra water-mass criterion (1e-6) is not pinned"]
    return r


TIDY = "src/phreeqcpp/tidy.cpp"
MAINSUBS = "src/phreeqcpp/mainsubs.cpp"
KINDS = {"exchange": ["EXCHANGE", "EXCHANGE_RAW", "EXCHANGE_MODIFY"], "surface": ["SURFACE", "SURFACE_RAW", "SURFACE_MODIFY"],
         "pp_assemblage": ["EQUILIBRIUM_PHASES", "EQUILIBRIUM_PHASES_RAW", "EQUILIBRIUM_PHASES_MODIFY"], "kinetics": ["KINETICS", "KINETICS_RAW", "KINETICS_MODIFY"]}
# re-linking step -> the two reactant kinds whose change makes the link stale
UPDATES = {"update_min_exchange": ("exchange", "pp_assemblage"), "update_kin_exchange": ("exchange", "kinetics"),
           "update_min_surface": ("surface", "pp_assemblage"), "update_kin_surface": ("surface", "kinetics")}


def unit_update_pairing(twin=False):
    """an exchanger / surface whose sites are tied to a mineral or a kinetic reactant is re-linked (update_min_exchange, update_kin_exchange, update_min_surface,
    update_kin_surface) in every simulation that contains ANY keyword able to change one of the two partners - definition, _RAW or _MODIFY (tidy_model) -
    and after every pending *_MIX of one of the partners (do_mixes)"""
    from props.c04_ext2 import kw, K, kc_of, KW_NAMES
    q = "Phreeqc::tidy_model"
    fn = A.find_function(TIDY, q)
    r = U.new_unit("C03.tidy_model.related_exchanger_and_surface_relinked_after_any_keyword_that_changes_a_partner", TIDY, q, fn)
    body = A.body_of(fn).get("inner", [])
    kw()
    ZERO_ = tm.num(0, "I")
    nonneg = [tm.le(ZERO_, kc_of(n)) for n in KW_NAMES if n != "COUNT_KEYWORDS"]
    n = 0
    for callee, (ka, kb) in UPDATES.items():
        sites = [x for x in body if any(y.get("kind") == "CXXMemberCallExpr" and strip(y["inner"][0]).get("name") == callee for y in A.walk(x))]
        if len(sites) != 1:
            r.add("tidy_model.%s.called_from_one_top_level_statement" % callee, UNDECIDED if not sites else FAILED, "syntactic", 0, "%d" % len(sites)); continue
        c = ctx(enums_from="Phreeqc.h", enums=["Keywords::KEY_" + x for x in KW_NAMES])
        f, ex, fin, info = region(TIDY, q, sites, c)
        skipping = [s_ for s_ in live(fin, ("run", "ret")) if not any(short(e) == callee for e in s_.events)]
        calling = [s_ for s_ in live(fin, ("run", "ret")) if any(short(e) == callee for e in s_.events)]
        kws = KINDS[ka] + KINDS[kb] if not (twin and callee == "update_min_exchange") else KINDS[ka] + KINDS[kb] + ["SURFACE"]
        for k_ in kws:
            ok = bool(calling) and all(B.z3_prove(list(s_.pc) + nonneg, tm.not_(tm.lt(ZERO_, kc_of(k_))))[0] == "proved" for s_ in skipping)
            r.add("tidy_model.%s.runs_when_%s_was_read" % (callee, k_), DISCHARGED if ok else FAILED, "symex+z3", 0, "%d skipping / %d calling paths" % (len(skipping), len(calling)))
            n += 1
    # do_mixes
    q2 = "Phreeqc::do_mixes"
    c = ctx(pure_all=False)        # Rxn_mix empties the list of pending mixes: a size read after it is not the size at entry
    f, ex, fin, info = U.run_function(MAINSUBS, q2, ctx=c)
    fin = live(fin, ("run", "ret"))
    def pending(kind):
        return tm.lt(ZERO_, tm.select(tm.sym("H0.#msize:I", ("A", "P", "I")), tm.app("fld:Rxn_%s_mix_map" % kind, (THIS,), "P")))
    nm = 0
    for callee, (ka, kb) in UPDATES.items():
        for kind in (ka, kb):
            ok = True; seen = 0
            for s_ in fin:
                names = [short(e) for e in s_.events]
                if callee in names:
                    seen += 1
                    # after every mix was applied
                    if names.index(callee) < max([j for j, x in enumerate(names) if x == "Rxn_mix"] or [-1]):
                        ok = False
                elif B.z3_prove(list(s_.pc), tm.not_(pending(kind)))[0] != "proved":
                    ok = False
            r.add("do_mixes.%s.runs_after_the_mixes_when_a_%s_mix_was_pending" % (callee, kind), DISCHARGED if ok and seen else FAILED, "symex+z3", 0, "%d calling paths" % seen)
            nm += 1
    r.add("reach.sites", DISCHARGED if n == 24 and nm == 8 and len(fin) >= 8 else UNDECIDED, "symex", 0, "%d/%d/%d" % (n, nm, len(fin)), kind="vacuity")
    r.assumptions += ["which keywords can change a reactant kind: its definition keyword, <KIND>_RAW and <KIND>_MODIFY (read_input dispatch; C14.read_input.RAW_MODIFY_MIX_keywords_address_the_store_of_their_own_kind)",
                      "an extra call of an update step is harmless (it recomputes the linked amounts from the current partners) and is not forbidden", "the update steps themselves: C03.tidy_min_* / C08.tidy.* units",
                      "there is no update step for solid solutions in this tree (update_ss_assemblage does not exist)", "std::map::size model"]
    return r


PREP = "src/phreeqcpp/prep.cpp"
GETTERS = ("Get_gas_phase_ptr", "Get_gas_comps", "Get_phase_name", "c_str", "phase_bsearch", "Get_ss_assemblage_ptr", "Vectorize", "Get_name", "string_hsave", "Get_pp_assemblage_ptr",
           "Get_pp_assemblage_comps", "Get_add_formula", "Get_surface_ptr", "Get_surface_comps", "Get_surface_charges", "Get_formula", "Get_type", "Get_dl_type", "Get_SSs", "Get_si")
SIZE_OF = {"gas_phase": "Get_gas_comps", "ss_assemblage": "Get_SSs", "pp_assemblage": "Get_pp_assemblage_comps", "surface_comp": "Get_surface_comps", "surface_charge": "Get_surface_charges"}


def _norm(t):
    x = repr(t)
    x = re.sub(r"iter_[A-Za-z_0-9]+", "IT", x); x = re.sub(r"havoc_[A-Za-z_0-9]+!\d+", "IT", x)
    x = re.sub(r"&[A-Za-z_0-9]+!\d+", "&T", x); x = re.sub(r"\bH(iter|\d+)\.", "H0.", x)
    return x


def unit_same_model_pairing(twin=False):
    """'the same model as last time' (fast path of prep): check_same_model answers FALSE whenever a component that save_model recorded differs from the value save_model
    would record now - the same expression on both sides (pairing of writer and reader of last_model)"""
    from props.c02_ext2 import loops_of
    q1, q2 = "Phreeqc::save_model", "Phreeqc::check_same_model"
    fn1, fn2 = A.find_function(PREP, q1), A.find_function(PREP, q2)
    r = U.new_unit("C03.check_same_model.every_component_recorded_by_save_model_is_compared_with_its_current_value", PREP, q2, fn2)
    c = ctx(functional=GETTERS); c.log_stores = True
    f, ex, fin, info = U.run_function(PREP, q1, modes={k: "iter" for k in range(len(loops_of(fn1)))}, ctx=c)
    rec = {}
    for o, sts in info["iter"].items():
        for s_ in sts:
            for e in U.iter_events(s_):
                if e.name == "store" and "last_model(this)" in repr(e.recv):
                    m = re.search(r"fld:(\w+)\(fld:last_model\(this\)\)", repr(e.recv))
                    rec.setdefault(m.group(1) + "[i]", set()).add(("select(H0.mem:%s, (%s, %s))" % (e.args[1].sort, _norm(e.recv), _norm(e.args[0])), _norm(e.args[1])))
    for s_ in live(fin, ("ret", "run")):
        for e in s_.events:
            if e.name == "store" and repr(e.recv) == "fld:last_model(this)" and e.args[0].op == "str":
                if tm.isnum(e.args[1]) or repr(e.args[1]).startswith("E."):
                    continue        # the constant recorded when the reactant is absent (absence is compared through the recorded lengths)
                rec.setdefault(e.args[0].args[0], set()).add(("H0.%s:" % e.args[0].args[0], _norm(e.args[1])))
    c2 = ctx(functional=GETTERS)
    f2, ex2, fin2, info2 = U.run_function(PREP, q2, modes={k: "iter" for k in range(len(loops_of(fn2)))}, ctx=c2)
    mm = set()
    for s_ in list(fin2) + [x for v in info2["iter"].values() for x in v]:
        if s_.status == "ret" and s_.pc and tm.isnum(s_.ret) and s_.ret.args[0] == 0:
            mm.add(_norm(s_.pc[-1]))
    skip = {"si[i]"} if not twin else set()
    n = 0
    for comp, pairs in sorted(rec.items()):
        if comp in skip or comp == "force_prep":
            continue
        for loc, val in sorted(pairs):
            n += 1
            hit = [m for m in mm if m.startswith("not(") and loc in m and val in m and "last_model(this)" in m]
            r.add("last_model.%s.mismatch_with_the_value_save_model_records_answers_FALSE" % comp, DISCHARGED if hit else FAILED, "term-pairing", 0, ("recorded " + val)[:220])
    for F, getter in SIZE_OF.items():
        hit = [m for m in mm if m.startswith("not(") and ("#vsize:I, (fld:%s(fld:last_model(this))" % F) in m and getter in m]
        r.add("last_model.%s.length_compared_with_the_current_number_of_components" % F, DISCHARGED if hit else FAILED, "term-pairing", 0, "")
        if F != "surface_charge":
            hit = [m for m in mm if m == "(0 < select(H0.#vsize:I, (fld:%s(fld:last_model(this)),)))" % F]
            r.add("last_model.%s.recorded_but_reactant_now_absent_answers_FALSE" % F, DISCHARGED if hit else FAILED, "term-pairing", 0, "")
    r.add("reach.recorded_components", DISCHARGED if n >= 10 and len(mm) >= 15 else UNDECIDED, "symex", 0, "%d recorded components, %d mismatch exits" % (n, len(mm)), kind="vacuity")
    r.assumptions += ["getters, phase_bsearch and string_hsave are functions of their arguments", "last_model.si is recorded but deliberately not compared (commented out in the tree: the target SI does not change the set of equations)",
                      "pairing by normalised symbolic terms of the two functions (iteration variable and temporaries renamed); the master-species marks (master[i]->last_model) are compared by a different rule and are not paired here",
                      "that FALSE makes prep() rebuild the model is C03.prep.*"]
    return r


def unit_prep(twin=False):
    """Phreeqc::prep: the fast path (quick_setup) only when check_same_model() said 'same' in a reaction-type calculation and the arrays exist; otherwise the full
    set-up in its order; initial calculations always rebuild and force the next reaction calculation to rebuild"""
    q = "Phreeqc::prep"
    fn = A.find_function(PREP, q)
    r = U.new_unit("C03.prep.fast_path_only_for_an_unchanged_model_full_setup_otherwise", PREP, q, fn)
    from props.c02_ext2 import loops_of
    c = stop_on_error_msg(ctx(functional=("Get_solution_ptr",))); c.log_stores = True
    f, ex, fin, info = U.run_function(PREP, q, modes={k: "havoc" for k in range(len(loops_of(fn)))}, ctx=c)
    FULL = ["clear", "setup_unknowns", "setup_solution", "setup_exchange", "setup_surface", "setup_pure_phases", "setup_gas_phase", "setup_ss_assemblage", "setup_related_surface", "build_model", "adjust_setup_pure_phases", "adjust_setup_solution"]
    if twin:
        FULL = FULL[:2] + ["setup_exchange", "setup_solution"] + FULL[4:]
    REACTION_ = tm.num(5, "I")
    nq = nf = 0
    for s_ in live(fin, ("ret",)):
        names = [short(e) for e in s_.events]
        st0 = tm.select(tm.sym("H0.state:I", ("A", "P", "I")), THIS)
        csm = [e for e in s_.events if short(e) == "check_same_model"]
        if "quick_setup" in names:
            nq += 1
            ok = len(csm) == 1 and B.z3_prove(list(s_.pc), tm.and_(tm.not_(tm.eq(csm[0].result, FALSE_)), tm.le(REACTION_, st0)))[0] == "proved"
            r.add("fast_path#%d.only_after_check_same_model_said_same_in_a_reaction_calculation" % nq, DISCHARGED if ok else FAILED, "trace+z3", 0, repr(csm)[:100])
            sz = [p for p in s_.pc if "#vsize" in repr(p) and "my_array" in repr(p)]
            ok2 = bool(sz) and B.z3_prove(list(s_.pc), tm.not_(tm.eq(tm.select(tm.sym("H0.#vsize:I", ("A", "P", "I")), tm.app("fld:my_array", (THIS,), "P")), tm.num(0, "I"))))[0] == "proved"
            r.add("fast_path#%d.only_with_allocated_arrays" % nq, DISCHARGED if ok2 else FAILED, "z3", 0, "")
            r.add("fast_path#%d.no_part_of_the_full_setup" % nq, DISCHARGED if not [x for x in names if x in FULL] else FAILED, "trace", 0, "")
        else:
            nf += 1
            seq = [x for x in names if x in FULL]
            r.add("full_path#%d.all_setup_steps_in_order_then_build_model_then_adjustments" % nf, DISCHARGED if seq == FULL else FAILED, "trace", 0, repr(seq)[:200])
        # initial calculations
        for hy, initial in cases(list(s_.pc), tm.lt(st0, REACTION_)):
            if initial:
                fp = [e.args[1] for e in s_.events if e.name == "store" and repr(e.recv) == "fld:last_model(this)" and e.args[0].op == "str" and e.args[0].args[0] == "force_prep"]
                ok = "quick_setup" not in names and not csm and bool(fp) and fp[-1] is tm.TRUE
                r.add("initial_calculation.path%d.rebuilds_and_forces_the_next_rebuild" % (nq + nf), DISCHARGED if ok else FAILED, "trace+z3", 0, repr(fp)[:80])
    r.add("reach.fast_and_full_paths", DISCHARGED if nq >= 1 and nf >= 2 else UNDECIDED, "symex", 0, "%d/%d" % (nq, nf), kind="vacuity")
    r.assumptions += ["REACTION == 5 (global_structures.h)", "error_msg(.., STOP) does not return", "what the steps do: C03.setup_*, C03.quick_setup.*, C01/C03 build_model units"]
    return r


UNITS = []
for _w in MODELS:
    UNITS.append(("C03.%s.OK_only_after_a_converged_pass_with_no_unstable_phase_pending" % _w, (lambda twin=False, w=_w: unit_converged_exit(w, twin))))
    UNITS.append(("C03.%s.newton_iteration_is_ineq_reset_gammas_molalities_sums_in_that_order" % _w, (lambda twin=False, w=_w: unit_iteration_order(w, twin))))
UNITS.append(("C03.set_and_run.diffuse_layer_surface_goes_through_surface_model_and_sum_species_follows_the_solve", unit_set_and_run))
UNITS.append(("C03.surface_model.model_ERROR_is_passed_on_and_OK_only_after_the_layer_iteration_converged", unit_surface_model))
UNITS.append(("C03.tidy_model.related_exchanger_and_surface_relinked_after_any_keyword_that_changes_a_partner", unit_update_pairing))
UNITS.append(("C03.check_same_model.every_component_recorded_by_save_model_is_compared_with_its_current_value", unit_same_model_pairing))
UNITS.append(("C03.prep.fast_path_only_for_an_unchanged_model_full_setup_otherwise", unit_prep))
