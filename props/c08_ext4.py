"""C08 (fourth wave), readtr.cpp read_transport(): every subscript of cell_data computed from numbers of the TRANSPORT block (-cells, -stagnant,
the counts of -lengths / -dispersivities / -porosities, the cell numbers of -punch_cells / -print_cells / -same_model) lies inside the vector as it
is sized at that point.  The option loop explodes in paths; the code after it is cut into region contracts (consecutive top-level statements
executed from an ARBITRARY state, every loop body as an arbitrary pass in the context reached):

  ALLOC  `max_cells = count_cells; ... cell_data.resize(all_cells_now); ...; all_cells = all_cells_now`  establishes
         FACTS: size(cell_data) == all_cells == max_cells*(1+count_stag)+2, max_cells >= 0, count_stag >= 0,
                0 <= count_length, count_disp <= max_cells, 0 <= count_por <= max_cells*(1+count_stag)
         from PRE: count_cells >= 0, count_stag >= 0 (the numbers typed after -cells / -stagnant), counts >= 0, previous all_cells >= 0;
  FILL   every later statement that subscripts cell_data: under FACTS every index i of cell_data[i] satisfies 0 <= i < size(cell_data);
  INPUT  PRE is the callers' obligation: the cases of the option switch that read -cells and -stagnant leave a value >= 0 (or the lower bounds are
         re-established after the option loop)."""
import re
UNITS = []
from props.common import *
from props.c11_ext import fast_twin, Agg, proved, reach, loops_of, I, R, _top
from props.c14_ext_lib import case_labels
from vf.core import FAILED, DISCHARGED, UNDECIDED, Undecided

RT = "src/phreeqcpp/readtr.cpp"
Q = "Phreeqc::read_transport"
ZI = tm.num(0, "I")


def _h0(name, sort="I"):
    return tm.sym("H0.%s:%s" % (name, sort), ("A", "P", sort))


def _member(name, owner=THIS):
    return tm.select(_h0(name), owner)


def _loc(st, info_names, name):
    v = st.locals.get(info_names[name])
    if isinstance(v, tuple):
        return tm.select(tm.sym("H0.mem:I", ("A", "P", "I", "I")), v[1], ZI)
    return v


def _upward(node, rel):
    """ids of the locals the loop's increment moves upwards by a positive step (i++, ++i, i += literal)"""
    out = set()
    if node.get("kind") != "ForStmt":
        return out
    inc = node["inner"][3]
    if not inc.get("kind"):
        return out
    if inc.get("kind") == "UnaryOperator" and inc.get("opcode") == "++":
        t = strip(inc["inner"][0])
        if t.get("kind") == "DeclRefExpr":
            out.add(t["referencedDecl"]["id"])
    if inc.get("kind") == "CompoundAssignOperator" and inc.get("opcode") == "+=":
        t, v = strip(inc["inner"][0]), strip(inc["inner"][1])
        if t.get("kind") == "DeclRefExpr" and v.get("kind") == "IntegerLiteral" and int(v.get("value", "0")) > 0:
            out.add(t["referencedDecl"]["id"])
    return out


def pass_ctx(collect, scan=False):
    """every loop: one arbitrary pass in the context reached (counter not below its first value when the step only increases it); behind the loop
    the locals it assigns are arbitrary (counter not below its first value, loop condition false when the body has no break), of the memory only
    the components a pass writes are arbitrary"""
    c = ctx(functional=())
    c.stl.check_bounds = True
    def h(ex, st, node, o):
        init, cond, inc, body = ex.loop_parts(node)
        up = _upward(node, RT)
        s0s = ex.exec(init, [st.clone()]) if init is not None else [st.clone()]
        lows = {}
        def cur_of(ex_, s_, did):
            v = s_.locals.get(did)
            if isinstance(v, tuple) and v[0] == "obj":         # a counter whose address is taken somewhere lives in memory
                return tm.select(ex_.heap_arr(s_, ("m", "I")), v[1], ZI)
            return v if isinstance(v, tm.T) else None
        for did in up:
            v = cur_of(ex, s0s[0], did) if s0s else None
            if isinstance(v, tm.T) and v.sort == "I":
                lows[did] = v
        def prep(ex_, s_):
            for did, v0 in lows.items():
                cur = cur_of(ex_, s_, did)
                if isinstance(cur, tm.T):
                    s_.assume(tm.le(v0, cur))
        res = ex.iterate_loop(node, st.clone(), prepare=prep)
        collect.extend(res)
        written = set(getattr(ex, "iter_written", ()) or ())
        ids, wm = ex.assigned_locals(node)
        has_break = any(y.get("kind") in ("BreakStmt", "ReturnStmt", "GotoStmt") for y in A.walk(body))
        out = []
        for s in (ex.exec(init, [st]) if init is not None else [st]):
            for did, (name, q_) in ids.items():
                if not isinstance(s.locals.get(did), tuple):
                    s.locals[did] = SX.fresh("after_" + str(name), SX.sort_of(q_))
            for key in written:
                s.heap[key] = SX.fresh("Hafter.%s" % (key[1],), ("A", "P", key[2]) if key[0] == "f" else (("A", "P", key[3], key[2]) if key[0] == "m2" else ("A", "P", "I", key[1])))
            for did, v0 in lows.items():
                if isinstance(cur_of(ex, s, did), tm.T):
                    s.assume(tm.le(v0, cur_of(ex, s, did)))
            if cond is not None and not has_break:
                for s2, v in ex.ev(cond, s):
                    if s2.assume(tm.not_(tm.to_bool(v))):
                        out.append(s2)
            else:
                out.append(s)
        return out
    c.loop = h
    if scan:
        def h_scan(ex_, st, n, name, recv, args):
            """sscanf stores an arbitrary number in every object its pointer arguments designate (members: the field itself)"""
            res = SX.fresh("ret_sscanf", "I")
            st.events.append(SX.Event(name, recv, args, res, n))
            for a in args[2:]:
                if isinstance(a, tm.T) and a.sort == "P":
                    if a.op == "app" and str(a.args[0]).startswith("fld:") and len(a.args) == 2:
                        for so in ("I", "R"):
                            key = ("f", str(a.args[0])[4:], so)
                            if so == "I" or key in st.heap:
                                fresh_v = SX.fresh("scanned", so)
                                if len(args[2:]) == 1:       # one conversion: the object is written only when the conversion succeeds (result 1)
                                    fresh_v = tm.ite(tm.eq(res, tm.num(1, "I")), fresh_v, tm.select(ex_.heap_arr(st, key), a.args[1]))
                                st.heap[key] = tm.store(ex_.heap_arr(st, key), (a.args[1],), fresh_v)
                    else:
                        for so in ("I", "R"):
                            key = ("m", so)
                            st.heap[key] = tm.store(ex_.heap_arr(st, key), (a, ZI), SX.fresh("scanned", so))
            return [(st, res)]
        c.handlers["sscanf"] = h_scan
    return c


def _subscripts_cell_data(node):
    return any(y.get("kind") == "MemberExpr" and y.get("name") == "cell_data" for y in A.walk(node))


def unit_read_transport_indices(twin=False):
    """Phreeqc::read_transport(): see the module text.  Obligations: alloc.* (FACTS established by the sizing statements from PRE; the resize
    argument is all_cells and is at least 2; the initialisation loop of the new elements stays inside the new size), fill.<statement>.* (every
    cell_data subscript of that statement inside [0, size) under FACTS), input.* (PRE: the numbers after -cells and -stagnant are not negative
    when the sizing starts)."""
    fn = A.find_function(RT, Q)
    r = U.new_unit("C08.read_transport.every_subscript_of_cell_data_lies_inside_the_vector_as_sized_from_the_numbers_read", RT, Q, fn)
    ag = Agg(r)
    top = _top(fn)
    kopt = [k for k, x in enumerate(top) if x.get("kind") in ("ForStmt", "WhileStmt", "DoStmt") and any(
        y.get("kind") == "CXXMemberCallExpr" and text_of(RT, y).startswith("get_option(") for y in A.walk(x))]
    if len(kopt) != 1:
        raise Undecided("option loop of read_transport not found (%d)" % len(kopt))
    kopt = kopt[0]
    kres = [k for k, x in enumerate(top) if k > kopt and x.get("kind") == "CXXMemberCallExpr" and text_of(RT, x).startswith("cell_data.resize(")]
    if len(kres) != 1:
        raise Undecided("cell_data.resize(..) after the option loop not found (%d)" % len(kres))
    kres = kres[0]
    # the sizing region ends with the statement that records the new size in all_cells
    kend = next((k for k in range(kres + 1, len(top)) if top[k].get("kind") == "BinaryOperator" and top[k].get("opcode") == "=" and
                 strip(top[k]["inner"][0]).get("kind") == "MemberExpr" and strip(top[k]["inner"][0]).get("name") == "all_cells"), None)
    if kend is None:
        raise Undecided("all_cells = <new size> after the resize not found")
    CD = tm.app("fld:cell_data", (THIS,), "P")
    SD = tm.app("fld:stag_data", (THIS,), "P")

    # ---------------------------------------------------------------- ALLOC
    col = []
    c = pass_ctx(col)
    f, ex, fin, info = region(RT, Q, top[kopt + 1:kend + 1], c)
    names = info["names"]
    st0 = fin[0] if fin else None
    if st0 is None:
        raise Undecided("sizing region: no path")
    cl, cdp, cp = (_loc(st0, names, n_) for n_ in ("count_length", "count_disp", "count_por"))
    cells0, ns0, all0 = _member("count_cells"), _member("count_stag", SD), _member("all_cells")
    PRE = [tm.le(ZI, cells0), tm.le(ZI, ns0), tm.le(ZI, cl), tm.le(ZI, cdp), tm.le(ZI, cp), tm.le(ZI, all0)]
    def ceil_axioms(terms):
        ax = []
        for t in terms:
            for y in tm.subterms(t):
                if y.op == "app" and str(y.args[0]).split(":")[-1] == "ceil" and len(y.args) == 2:
                    x = y.args[1]
                    ax += [tm.le(x, y), tm.lt(y, x + R(1)), tm.eq(tm.to_real(tm.to_int(y)), y)]
        return ax
    nalloc = 0
    need_lower = []
    for s in live(fin):
        nalloc += 1
        mx = fld(ex, s, "max_cells", "I"); al = fld(ex, s, "all_cells", "I"); ns = tm.select(ex.heap_arr(s, ("f", "count_stag", "I")), SD)
        vs = c.stl.vsize(ex, s, CD)
        hy = list(s.pc) + PRE
        hy += ceil_axioms(hy + [mx, al])
        rz = [e for e in s.events if e.name == "vector.resize" and e.recv is CD]
        ag.put("alloc.cell_data_resized_once", len(rz) == 1, rz)
        ag.valid("alloc.size(cell_data)==all_cells", hy, tm.eq(vs, al))
        ag.valid("alloc.all_cells==max_cells*(1+count_stag)+2", hy, tm.eq(al, mx * (I(1) + ns) + I(2)) if not twin else tm.eq(al, mx * (I(1) + ns) + I(1)))
        ag.valid("alloc.new_size_is_at_least_2(never_negative)", hy, tm.le(I(2), al))
        ag.valid("alloc.max_cells>=0", hy, tm.le(ZI, mx))
        ag.valid("alloc.count_stag_unchanged", hy, tm.eq(ns, ns0), kind="frame")
        ag.valid("alloc.count_length<=max_cells", hy, tm.le(_cur(ex, s, names, "count_length"), mx))
        ag.valid("alloc.count_disp<=max_cells", hy, tm.le(_cur(ex, s, names, "count_disp"), mx))
        ag.valid("alloc.count_por<=max_cells*(1+count_stag)", hy, tm.le(_cur(ex, s, names, "count_por"), mx * (I(1) + ns)))
        # are the lower bounds re-established after the option loop without PRE on -cells / -stagnant ?
        hy2 = list(s.pc) + PRE[2:]
        hy2 += ceil_axioms(hy2 + [mx, al])
        need_lower.append((proved(hy2, tm.le(ZI, mx)) and proved(hy2, tm.le(I(2), al)), proved(hy2, tm.le(ZI, ns))))
    reach(r, "sizing_paths", nalloc, 4)
    nside = 0
    for what, pc, ob in c.stl.side:
        if "cell_data" not in str(what):
            continue
        nside += 1
        hy = list(pc) + PRE
        hy += ceil_axioms(hy + [ob])
        ag.valid("alloc.new_elements_initialised_inside_the_new_size", hy, ob)
    reach(r, "sizing_subscripts", nside, 1)

    # ---------------------------------------------------------------- INPUT (PRE)
    checked_after = (all(a for a, b in need_lower) and bool(need_lower), all(b for a, b in need_lower) and bool(need_lower))
    sw = [x for x in A.walk(top[kopt]) if x.get("kind") == "SwitchStmt"]
    if len(sw) != 1:
        raise Undecided("option switch not found (%d)" % len(sw))
    groups = case_labels(sw[0], RT)
    def reads(nodes, what):
        return any(y.get("kind") == "CallExpr" and text_of(RT, y).startswith("sscanf(") and what in text_of(RT, y) for n_ in nodes for y in A.walk(n_))
    for label, what, fldname, owner, after in (("-cells", "&count_cells", "count_cells", THIS, checked_after[0]), ("-stagnant", "stag_data.count_stag", "count_stag", SD, checked_after[1])):
        gs = [nodes for labels, nodes in groups if reads(nodes, what)]
        if len(gs) != 1:
            raise Undecided("case of the option switch that reads %s not found (%d)" % (label, len(gs)))
        nodes = []
        for n_ in gs[0]:
            if n_.get("kind") == "BreakStmt":
                break
            nodes.append(n_)
        c2 = pass_ctx([], scan=True)
        f2, ex2, fin2, info2 = region(RT, Q, nodes, c2)
        npaths = 0
        okall = True
        for s in live(fin2, ("run", "brk", "cont")):
            npaths += 1
            v1 = tm.select(ex2.heap_arr(s, ("f", fldname, "I")), owner)
            v0 = tm.select(entry_arr(ex2, s, ("f", fldname, "I")), owner)
            if not proved(list(s.pc) + [tm.le(ZI, v0)], tm.le(ZI, v1)):
                okall = False
        reach(r, "case_that_reads_%s" % label, npaths, 1)
        ag.put("input.number_after_%s_is_not_negative_when_cell_data_is_sized(checked_where_read_or_after_the_option_loop)" % label, bool(okall or after),
               "the value scanned by sscanf(\"%%d\") reaches the sizing of cell_data unchecked: a negative number makes all_cells smaller than the cells the fill loops write (native demo: %s)" % "/var/tmp/agent4_B_out/demo/demo_cells.cpp")

    # ---------------------------------------------------------------- FILL
    def facts(st, nm, full=True):
        vs, al, mx, ns = tm.select(_h0("#vsize"), CD), _member("all_cells"), _member("max_cells"), _member("count_stag", SD)
        fa = [tm.eq(vs, al), tm.le(I(2), al)]
        for n_ in ("count_punch", "count_print", "count_same_model"):
            if n_ in nm:
                fa.append(tm.le(ZI, _loc(st, nm, n_)))
        if full:
            a, b, c_ = (_loc(st, nm, n_) for n_ in ("count_length", "count_disp", "count_por"))
            fa += [tm.eq(al, mx * (I(1) + ns) + I(2)), tm.le(ZI, mx), tm.le(ZI, ns), tm.le(ZI, a), tm.le(a, mx), tm.le(ZI, b), tm.le(b, mx), tm.le(ZI, c_), tm.le(c_, mx * (I(1) + ns)),
                   tm.le(ZI, _member("old_cells"))]
        return fa
    # statements behind the sizing that subscript cell_data; `count_cells = max_cells` belongs to the stagnant statement that follows it
    k = kend + 1
    regions = []
    redefined = False      # max_cells stops being the number of mobile cells once the stagnant statement has redefined it
    while k < len(top):
        x = top[k]
        assigns_cells = x.get("kind") == "BinaryOperator" and x.get("opcode") == "=" and strip(x["inner"][0]).get("kind") == "MemberExpr" and strip(x["inner"][0]).get("name") == "count_cells"
        if assigns_cells and k + 1 < len(top):
            regions.append(([x, top[k + 1]], not redefined)); redefined = True; k += 2; continue
        if _subscripts_cell_data(x):
            regions.append(([x], not redefined))
        k += 1
    ag.put("fill.statements_found", len(regions) >= 8, len(regions), kind="vacuity")
    nfill = 0
    for nodes, full in regions:
        tag = re.sub(r"[^A-Za-z0-9_]+", "_", text_of(RT, nodes[-1])[:34]).strip("_")
        col = []
        c3 = pass_ctx(col)
        f3, ex3, fin3, info3 = region(RT, Q, nodes, c3)
        if not fin3:
            continue
        fa = facts(fin3[0], info3["names"], full)
        for what, pc, ob in c3.stl.side:
            if "cell_data" not in str(what):
                continue
            if B.z3_sat(list(pc) + fa) == "unsat":
                continue
            nfill += 1
            lo, hi = (ob.args if ob.op == "and" and len(ob.args) == 2 else (ob, ob))
            ag.valid("fill.%s.subscript>=0" % tag, list(pc) + fa, lo)
            ag.valid("fill.%s.subscript<size(cell_data)" % tag, list(pc) + fa, hi)
        # the statement keeps FACTS for the next one (sizes and counts are not written)
        for s in live(fin3):
            wr = [key for key in (("f", "all_cells", "I"), ("f", "#vsize", "I"), ("f", "count_stag", "I")) if writes(s, key)]
            ag.put("fill.%s.leaves_the_size_alone" % tag, not wr, wr, kind="frame")
    reach(r, "fill_subscripts", nfill, 20)
    ag.flush()
    r.assumptions += ["std::vector::operator[] is in bounds iff 0 <= index < size(); resize(n) makes size() == n", "ceil(x) is the least integer >= x (axioms x <= ceil(x) < x+1); int arithmetic does not overflow",
                      "sformatf / warning_msg / error_msg do not write the sizes and counts", "previous all_cells >= 0 (0 on the first TRANSPORT, a former size afterwards)",
                      "loop counters that only increase are not below their first value (stated per loop from its increment)", "the raw arrays length / disp / pors / punch_temp are indexed below the counts returned with them "
                      "(C08.read_line_LDBLEs.*, C08.heap.read_list_ints_range.*): not re-proved here", "the FACTS are carried from statement to statement by the frame obligations (sizes not written); max_cells is redefined only by the stagnant statement"]
    return r


def _cur(ex, s, names, name):
    v = s.locals.get(names[name])
    if isinstance(v, tuple):
        return tm.select(ex.heap_arr(s, ("m", "I")), v[1], ZI)
    return v


_UNITS = [("C08.read_transport.every_subscript_of_cell_data_lies_inside_the_vector_as_sized_from_the_numbers_read", unit_read_transport_indices)]
UNITS[:] = [(uid, fast_twin(f)) for uid, f in _UNITS]
